"""X07 — WSGI sub-application mounting (extra coverage target): correspondence + property oracle + search + replay.

Cases (JSON, human readable; SCRIPT_NAME / PATH_INFO are WSGI strings, null = key absent from the environ):
  {"op":"direct","sn":str|null,"pi":str|null,"sp":[str,…]|null}
        call_app_with_subpath_as_path_info(Request(environ) with .subpath = sp (null: attribute absent), reporting app)
  {"op":"route","kind":"wsgiapp"|"wsgiapp2","pre":str,"sn":…,"pi":…}
        a real Configurator + Router with add_route('m', pre + '*subpath') and the view kind(reporting app)
  {"op":"trav","kind":…,"vn":str,"tree":T,"sn":…,"pi":…}     T = {"g":bool,"k":[[name,T],…]}
        a real Router, traversal of the resource tree T, the view kind(reporting app) registered under the name vn
  {"op":"nested","pre1":str,"pre2":str,"sn":…,"pi":…}
        outer Router: route pre1*subpath -> wsgiapp2(inner Router); inner Router: route pre2*subpath -> wsgiapp2(reporting app)
The implementation side runs the tree under test (ctx.src); the oracle below restates the property (notes/X07.md) in Python
and does not depend on the Lean build.
"""
import io, json, os, sys, warnings

sys.path.insert(0, os.path.join(os.path.dirname(os.path.dirname(os.path.abspath(__file__))), 'lib'))
import vfutil  # noqa: E402

RULE = ('distinct cases (canonical JSON) that are not trivial; trivial = the mounted application is never reached (no route '
        'match / view not found / error before the view), or a direct case whose old path has no non-empty element and whose '
        'subpath is empty')
ERRS = ('UnicodeDecodeError', 'UnicodeEncodeError', 'URLDecodeError')


# ------------------------------------------------------------------------------------------------------------------
# the tree under test
def mods(ctx):
    src = ctx.src
    if src not in sys.path or sys.path[0] != src:
        sys.path.insert(0, src)
    warnings.simplefilter('ignore')
    import pyramid.request as R
    import pyramid.wsgi as W
    import pyramid.traversal as T
    from pyramid.config import Configurator
    from pyramid.events import ContextFound
    for m in (R, W, T):
        if not os.path.realpath(m.__file__).startswith(os.path.realpath(src)):
            raise RuntimeError('pyramid imported from %s, not from the tree under test %s' % (m.__file__, src))
    return {'R': R, 'W': W, 'T': T, 'Configurator': Configurator, 'ContextFound': ContextFound, 'cache': {}}


def report_app(environ, start_response):
    """the mounted WSGI application: reports the environ it is called with"""
    environ['x07.sink'].append({'sn': environ.get('SCRIPT_NAME'), 'pi': environ.get('PATH_INFO'),
                                'passed': environ.get('x07.marker') == 'marker' and environ.get('QUERY_STRING') == 'q=1&r=%2F',
                                'env': environ})
    body = b'mounted'
    start_response('200 OK', [('Content-Type', 'text/plain'), ('Content-Length', str(len(body)))])
    return [body]


def base_environ(case):
    env = {'REQUEST_METHOD': 'GET', 'SERVER_NAME': 'localhost', 'SERVER_PORT': '80', 'SERVER_PROTOCOL': 'HTTP/1.1',
           'HTTP_HOST': 'localhost:80', 'wsgi.url_scheme': 'http', 'wsgi.version': (1, 0), 'wsgi.input': io.BytesIO(b''),
           'wsgi.errors': io.StringIO(), 'wsgi.multithread': False, 'wsgi.multiprocess': False, 'wsgi.run_once': False,
           'CONTENT_LENGTH': '0', 'QUERY_STRING': 'q=1&r=%2F', 'x07.marker': 'marker', 'x07.sink': [], 'x07.obs': []}
    if case.get('sn') is not None: env['SCRIPT_NAME'] = case['sn']
    if case.get('pi') is not None: env['PATH_INFO'] = case['pi']
    return env


def snapshot(env):
    return {k: v for k, v in env.items() if k not in ('wsgi.input', 'x07.sink', 'x07.obs') and not k.startswith('webob.')}


def errname(e):
    n = type(e).__name__
    return n if n in ERRS else 'other:' + n + ':' + str(e)[:80]


def notfound_keyerror(env, e):
    """observation O3 (Router, not the mounting code): when nothing matches and the environ has no PATH_INFO key, the Router's
    not-found branch builds its message from request.path_info and raises KeyError instead of answering 404"""
    return 'PATH_INFO' not in env and isinstance(e, KeyError) and e.args == ('PATH_INFO',)


def seen_res(env):
    sink = env['x07.sink']
    if len(sink) != 1:
        return {'unexpected': 'mounted application called %d times' % len(sink)}
    return {'ok': [sink[0]['sn'], sink[0]['pi']]}


def env_facts(env, before):
    """the clauses about the copy: the original environ keeps its keys, the mounted application gets the other keys"""
    out = {'orig_untouched': snapshot(env) == before}
    sink = env['x07.sink']
    if len(sink) == 1:
        out['passed'] = bool(sink[0]['passed'])
        out['copied'] = sink[0]['env'] is not env
        inner = snapshot(sink[0]['env'])
        out['other_keys_same'] = ({k: v for k, v in inner.items() if k not in ('SCRIPT_NAME', 'PATH_INFO')}
                                  == {k: v for k, v in before.items() if k not in ('SCRIPT_NAME', 'PATH_INFO')})
    return out


def impl_direct(M, case):
    env = base_environ(case)
    req = M['R'].Request(env)
    if case.get('sp') is not None:
        req.subpath = tuple(case['sp'])
    before = snapshot(env)
    try:
        resp = M['R'].call_app_with_subpath_as_path_info(req, report_app)
        res = seen_res(env)
        if resp.status_int != 200 or resp.body != b'mounted':
            res = {'unexpected': 'response %s %r' % (resp.status, resp.body[:40])}
    except Exception as e:      # noqa
        res = {'err': errname(e)}
    out = {'res': res}
    out.update(env_facts(env, before))
    out['again'] = None
    if 'ok' in res:
        # mount once more, from the environ the mounted application saw, with the same subpath
        env2 = dict(env['x07.sink'][0]['env'])
        env2['x07.sink'] = []
        req2 = M['R'].Request(env2)
        if case.get('sp') is not None:
            req2.subpath = tuple(case['sp'])
        try:
            M['R'].call_app_with_subpath_as_path_info(req2, report_app)
            out['again'] = seen_res(env2)
        except Exception as e:      # noqa
            out['again'] = {'err': errname(e)}
    return out


def call_wsgi(app, env):
    status = []

    def start_response(s, headers, exc_info=None):
        status.append(s)
    body = b''.join(app(env, start_response))
    return status[0], body


def route_router(M, pre, kind, mounted=None, tag=''):
    key = ('route', pre, kind, tag)
    if key not in M['cache']:
        deco = getattr(M['W'], kind)
        inner = deco(mounted or report_app)

        def view(context, request):
            request.environ['x07.obs'].append({'sp': list(request.subpath), 'tag': tag})
            return inner(context, request)
        config = M['Configurator']()
        config.add_route('m', pre + '*subpath')
        config.add_view(view, route_name='m')
        M['cache'][key] = config.make_wsgi_app()
    return M['cache'][key]


def run_router(router, env, tag=''):
    """-> route-shaped observation"""
    before = snapshot(env)
    try:
        status, body = call_wsgi(router, env)
    except Exception as e:      # noqa
        obs = [o for o in env['x07.obs'] if o.get('tag') == tag]
        if not obs and notfound_keyerror(env, e):
            return {'match': False, 'notfound_keyerror': True}, before
        if not obs:
            return {'err': errname(e)}, before
        return {'match': True, 'sp': obs[0]['sp'], 'res': {'err': errname(e)}}, before
    obs = [o for o in env['x07.obs'] if o.get('tag') == tag]
    if status.startswith('404') and not obs:
        return {'match': False}, before
    if not status.startswith('200') or len(obs) != 1:
        return {'unexpected': 'status %s, view called %d times' % (status, len(obs))}, before
    return {'match': True, 'sp': obs[0]['sp'], 'res': seen_res(env)}, before


def impl_route(M, case):
    env = base_environ(case)
    router = route_router(M, case['pre'], case['kind'])
    out, before = run_router(router, env)
    out.update(env_facts(env, before))
    return out


class Node(dict):
    pass


class Leaf:
    pass


def build_tree(t, path=()):
    if t['g']:
        n = Node()
        for name, sub in t['k']:
            if name not in n:
                n[name] = build_tree(sub, path + (name,))
    else:
        n = Leaf()
    n.x07_path = list(path)
    return n


def trav_router(M, vn, kind):
    key = ('trav', vn, kind)
    if key not in M['cache']:
        inner = getattr(M['W'], kind)(report_app)

        def view(context, request):
            request.environ['x07.obs'].append({'called': True})
            return inner(context, request)

        def found(event):
            r = event.request
            r.environ['x07.obs'].append({'view': r.view_name, 'ctx': r.context.x07_path, 'sp': list(r.subpath)})
        config = M['Configurator'](root_factory=lambda request: build_tree(request.environ['x07.tree']))
        config.add_view(view, name=vn)
        config.add_subscriber(found, M['ContextFound'])
        M['cache'][key] = config.make_wsgi_app()
    return M['cache'][key]


def impl_trav(M, case):
    env = base_environ(case)
    env['x07.tree'] = case['tree']
    router = trav_router(M, case['vn'], case['kind'])
    before = snapshot(env)
    err = None
    nfk = False
    try:
        status, body = call_wsgi(router, env)
    except Exception as e:      # noqa
        err = errname(e)
        if notfound_keyerror(env, e):
            err, status, nfk = None, '404 (KeyError)', True
    found = [o for o in env['x07.obs'] if 'view' in o]
    called = [o for o in env['x07.obs'] if 'called' in o]
    if not found:
        out = {'err': err} if err else {'unexpected': 'no ContextFound event, status %s' % status}
    else:
        out = {'view': found[0]['view'], 'ctx': found[0]['ctx'], 'sp': found[0]['sp']}
        if err:
            out['res'] = {'err': err} if called else {'unexpected': 'error outside the view: ' + err}
        elif called:
            out['res'] = seen_res(env) if status.startswith('200') else {'unexpected': status}
        else:
            out['res'] = None if status.startswith('404') else {'unexpected': status}
    if nfk:
        out['notfound_keyerror'] = True
    out.update(env_facts(env, before))
    return out


def impl_nested(M, case):
    env = base_environ(case)
    env['x07.mid'] = []
    key = ('nested', case['pre1'], case['pre2'])
    if key not in M['cache']:
        inner_router = route_router(M, case['pre2'], 'wsgiapp2', tag='inner')

        def middle(environ, start_response):
            environ['x07.mid'].append([environ.get('SCRIPT_NAME'), environ.get('PATH_INFO')])
            return inner_router(environ, start_response)
        M['cache'][key] = route_router(M, case['pre1'], 'wsgiapp2', mounted=middle, tag='outer:' + case['pre2'])
    router = M['cache'][key]
    before = snapshot(env)
    err = None
    status = ''
    try:
        status, body = call_wsgi(router, env)
    except Exception as e:      # noqa
        err = errname(e)
        if notfound_keyerror(env, e):
            err, status = None, '404 (KeyError)'
    outer = [o for o in env['x07.obs'] if o.get('tag', '').startswith('outer:')]
    inner = [o for o in env['x07.obs'] if o.get('tag') == 'inner']
    mid = env['x07.mid']
    if not outer:
        out = {'err': err} if err else ({'match': False} if status.startswith('404') else {'unexpected': status})
    elif not mid:
        out = {'match': True, 'sp': outer[0]['sp'], 'res': {'err': err} if err else {'unexpected': status}}
    else:
        out = {'match': True, 'sp': outer[0]['sp'], 'res': {'ok': mid[0]}}
        if not inner:
            out['inner'] = {'err': err} if err else ({'match': False} if status.startswith('404') else {'unexpected': status})
        elif err:
            out['inner'] = {'match': True, 'sp': inner[0]['sp'], 'res': {'err': err}}
        else:
            out['inner'] = {'match': True, 'sp': inner[0]['sp'], 'res': seen_res(env)}
    out['orig_untouched'] = snapshot(env) == before
    return out


def impl(M, case):
    return {'direct': impl_direct, 'route': impl_route, 'trav': impl_trav, 'nested': impl_nested}[case['op']](M, case)


# ------------------------------------------------------------------------------------------------------------------
# the property, restated (independent of the Lean model)
def wsgi_of(x):
    return x.encode('utf-8').decode('latin-1')


def dec_el(el):
    """-> (text, None) or (None, error name)"""
    try:
        b = el.encode('latin-1')
    except UnicodeEncodeError:
        return None, 'UnicodeEncodeError'
    try:
        return b.decode('utf-8'), None
    except UnicodeDecodeError:
        return None, 'UnicodeDecodeError'


def doc_norm(text):
    """split_path_info as documented: no empty, no '.', '..' removes the segment before it"""
    clean = []
    for s in text.strip('/').split('/'):
        if s == '' or s == '.':
            continue
        if s == '..':
            if clean: clean.pop()
        else:
            clean.append(s)
    return clean


def nonempty(w):
    return [s for s in w.split('/') if s != '']


def is_clean(s):
    return s not in ('', '.', '..') and '/' not in s


def raw_tail(sn, pi, sp):
    """the last len(sp) non-empty elements of (SCRIPT_NAME + PATH_INFO).split('/') read (latin-1 -> UTF-8) as sp"""
    ne = nonempty(sn + pi)
    n = len(sp)
    if n > len(ne):
        return False
    return [dec_el(x)[0] for x in ne[len(ne) - n:]] == list(sp)


def is_suffix(sp, full):
    return len(sp) <= len(full) and list(full[len(full) - len(sp):]) == list(sp)


def oracle_rewrite(sn0, pi0, sp, res, via=None):
    """clauses (1)-(5) of the statement for one call with old environ (sn0, pi0) (None = absent), subpath sp, outcome res.
    `via` = 'route' / 'trav' when sp is what the framework itself derived from this environ.  -> (detail, expected, finding)"""
    sn = '' if sn0 is None else sn0
    pi = '/' if pi0 is None else pi0
    sp = list(sp)
    ne = nonempty(sn + pi)
    tail = raw_tail(sn, pi, sp)
    decs = [dec_el(x) for x in ne]
    if 'unexpected' in res:
        return 'unexpected observation: %s' % res['unexpected'], None, None
    if 'err' in res:
        if tail:
            return 'raises %s although the subpath is the tail of the path' % res['err'], 'no error', None
        if res['err'] not in [d[1] for d in decs if d[1]]:
            return 'raises %s but no path element fails that way' % res['err'], 'no such error', None
        return None, None, None
    nsn, npi = res['ok']
    if not isinstance(nsn, str) or not isinstance(npi, str):
        return 'SCRIPT_NAME / PATH_INFO not set to strings: %r' % (res['ok'],), 'both set', None
    # (1) shape
    if not npi.startswith('/'):
        return 'new PATH_INFO does not start with "/"', 'starts with /', None
    if nsn.endswith('/'):
        return 'new SCRIPT_NAME ends with "/"' + (' (it is "/")' if nsn == '/' else ''), 'no trailing slash', None
    if ((sn + pi) == '' or (sn + pi).startswith('/')) and not (nsn == '' or nsn.startswith('/')):
        return 'new SCRIPT_NAME is neither empty nor starts with "/"', "'' or /…", None
    # (2) PATH_INFO formula and round trip
    want = '/' + '/'.join(wsgi_of(x) for x in sp)
    if want != '/' and pi != '/' and pi.endswith('/'):
        want += '/'
    if npi != want:
        return 'new PATH_INFO is not "/" + the encoded subpath (+ trailing slash rule)', want, None
    if all(is_clean(x) for x in sp):
        t, e = dec_el(npi)
        if e or doc_norm(t) != sp:
            return 'new PATH_INFO does not read back as the subpath', sp, None
    # (4) empty subpath
    if not sp and (npi != '/' or nsn != (sn + pi).rstrip('/')):
        return 'empty subpath: expected PATH_INFO "/" and SCRIPT_NAME = old path without trailing slashes', [(sn + pi).rstrip('/'), '/'], None
    # (3) the subpath is the tail: nothing lost, nothing duplicated
    if tail:
        keep = ne[:len(ne) - len(sp)]
        if nonempty(nsn) != keep:
            return 'subpath is the tail of the path but SCRIPT_NAME does not hold the elements before it', keep, None
        if nonempty(nsn + npi) != ne:
            return 'SCRIPT_NAME + PATH_INFO does not denote the old element sequence', ne, None
    else:
        # (5) not a tail: the loop consumes everything
        if all(d[1] is None for d in decs) and nsn != '':
            return 'subpath is not the tail of the path but SCRIPT_NAME is not empty', '', None
    # (3') what traversal / route matching derives from a WSGI-conformant environ must be re-attached without loss
    whole, e1 = dec_el(sn + pi)
    ptxt, e2 = dec_el(pi)
    if e1 is None and e2 is None and (pi == '' or pi.startswith('/')) and is_suffix(sp, doc_norm(ptxt)) and all(is_clean(x) for x in sp):
        new, e3 = dec_el(nsn + npi)
        if e3 or doc_norm(new) != doc_norm(whole):
            f = 'F-X07a' if finding_class(sn, pi, sp) else None
            return ('the subpath is the normalised tail of PATH_INFO%s, but SCRIPT_NAME + PATH_INFO of the mounted application '
                    'denotes %r instead of %r' % (' (derived by %s)' % via if via else '', None if e3 else doc_norm(new), doc_norm(whole)),
                    doc_norm(whole), f)
    return None, None, None


def finding_class(sn, pi, sp):
    """F-X07a, narrow: the subpath is NOT the raw tail, and a '.' or '..' element lies in the tail region of the old path,
    i.e. among the elements right of the len(sp)-th non-empty non-dot element counted from the right"""
    if raw_tail(sn, pi, sp):
        return False
    els = (sn + pi).split('/')
    need = len(sp)
    region = []
    for el in reversed(els):
        if need == 0 and el not in ('', '.', '..'):
            break
        region.append(el)
        if el not in ('', '.', '..'):
            need -= 1
    return any(el in ('.', '..') for el in region)


def route_subpath_doc(pre, pi0):
    """what a route pre*subpath derives: (error, None) | (None, None = no match | subpath)"""
    if pi0 is None:
        path = '/'
    else:
        t, e = dec_el(pi0)
        if e:
            return ('URLDecodeError' if e == 'UnicodeDecodeError' else e), None
        path = t or '/'
    p = pre if pre.startswith('/') else '/' + pre
    if not path.startswith(p):
        return None, None
    return None, doc_norm(path[len(p):])


def oracle_route_obs(pre, kind, sn0, pi0, got, via='route'):
    """one level of route -> mounted app; got is a route-shaped observation"""
    if 'unexpected' in got:
        return 'unexpected observation: %s' % got['unexpected'], None, None
    err, sp = route_subpath_doc(pre, pi0)
    if err:
        return (None, None, None) if got.get('err') == err else ('route matching should raise %s' % err, err, None)
    if sp is None:
        return (None, None, None) if got.get('match') is False else ('the route should not match', {'match': False}, None)
    if not got.get('match'):
        return 'the route should match with subpath %r' % sp, sp, None
    if got['sp'] != sp:
        return 'request.subpath is %r, expected split_path_info of the remainder %r' % (got['sp'], sp), sp, None
    if kind == 'wsgiapp':
        want = {'ok': [sn0, pi0]}
        return (None, None, None) if got['res'] == want else ('wsgiapp must leave SCRIPT_NAME / PATH_INFO as they are', want, None)
    return oracle_rewrite(sn0, pi0, sp, got['res'], via=via)


def oracle(case, got):
    """-> (detail | None, expected, finding id | None)"""
    op = case['op']
    for k in ('orig_untouched', 'passed', 'copied', 'other_keys_same'):
        if k == 'copied' and case.get('kind') == 'wsgiapp':
            continue                     # request.get_response(app) hands the request's own environ to the application
        if got.get(k) is False:
            return {'orig_untouched': 'the original environ was modified', 'passed': 'other environ keys did not reach the mounted application',
                    'copied': 'the mounted application got the original environ object, not a copy',
                    'other_keys_same': 'keys other than SCRIPT_NAME / PATH_INFO differ in the copy'}[k], True, None
    if op == 'direct':
        d = oracle_rewrite(case['sn'], case['pi'], case['sp'] or [], got['res'])
        if d[0]:
            return d
        # (7) idempotent under the tail hypothesis
        if 'ok' in got['res'] and raw_tail(case['sn'] or '', '/' if case['pi'] is None else case['pi'], case['sp'] or []) and got.get('again') != got['res']:
            return 'mounting again with the same subpath changed the environ: %r' % (got.get('again'),), got['res'], None
        return d
    if op == 'route':
        return oracle_route_obs(case['pre'], case['kind'], case['sn'], case['pi'], got)
    if op == 'trav':
        if 'unexpected' in got:
            return 'unexpected observation: %s' % got['unexpected'], None, None
        pi = '/' if case['pi'] is None else case['pi']
        t, e = dec_el(pi)
        if e:
            e = 'URLDecodeError' if e == 'UnicodeDecodeError' else e
            return (None, None, None) if got.get('err') == e else ('traversal should raise %s' % e, e, None)
        if 'err' in got:
            return 'traversal raised %s' % got['err'], 'no error', None
        norm = doc_norm(t or '/')
        if not is_suffix(got['sp'], norm):
            return 'request.subpath %r is not a tail of the normalised path %r' % (got['sp'], norm), norm, None
        if got['view'] != case['vn']:
            return (None, None, None) if got['res'] is None else ('view %r called for view name %r' % (case['vn'], got['view']), None, None)
        if got['res'] is None:
            return 'the mounted view was not called', 'called', None
        if 'unexpected' in got['res']:
            return 'unexpected observation: %s' % got['res']['unexpected'], None, None
        if case['kind'] == 'wsgiapp':
            want = {'ok': [case['sn'], case['pi']]}
            return (None, None, None) if got['res'] == want else ('wsgiapp must leave SCRIPT_NAME / PATH_INFO as they are', want, None)
        return oracle_rewrite(case['sn'], case['pi'], got['sp'], got['res'], via='traversal')
    if op == 'nested':
        if 'unexpected' in got:
            return 'unexpected observation: %s' % got['unexpected'], None, None
        outer = {k: got[k] for k in ('err', 'match', 'sp', 'res') if k in got}
        d = oracle_route_obs(case['pre1'], 'wsgiapp2', case['sn'], case['pi'], outer)
        if d[0] or 'inner' not in got:
            return d
        sn1, pi1 = got['res']['ok']
        d = oracle_route_obs(case['pre2'], 'wsgiapp2', sn1, pi1, got['inner'], via='route (inner)')
        if d[0]:
            return d
        # (7) the innermost application is mounted as if directly under its own subpath
        inn = got['inner']
        if inn.get('match') and 'ok' in inn.get('res', {}):
            sn0 = case['sn'] or ''
            pi0 = '/' if case['pi'] is None else case['pi']
            sn2, pi2 = inn['res']['ok']
            if raw_tail(sn0, pi0, got['sp']) and is_suffix(inn['sp'], got['sp']):
                ne = nonempty(sn0 + pi0)
                if nonempty(sn2) != ne[:len(ne) - len(inn['sp'])] or nonempty(sn2 + pi2) != ne:
                    return 'nested mounting lost or duplicated path elements', ne, None
        return None, None, None
    return 'unknown op', None, None


# ------------------------------------------------------------------------------------------------------------------
# encoding for the driver, comparison with the model
def enc_text(s):
    return None if s is None else [ord(c) for c in s]


def dec_text(cs):
    return None if cs is None else ''.join(chr(c) for c in cs)


def enc_tree(t):
    return {'g': t['g'], 'k': [[enc_text(n), enc_tree(s)] for n, s in t['k']]}


def enc_case(case):
    out = {'op': case['op'], 'sn': enc_text(case.get('sn')), 'pi': enc_text(case.get('pi'))}
    if case['op'] == 'direct':
        out['sp'] = None if case.get('sp') is None else [enc_text(x) for x in case['sp']]
    elif case['op'] == 'route':
        out.update(kind=case['kind'], pre=enc_text(case['pre']))
    elif case['op'] == 'trav':
        out.update(kind=case['kind'], vn=enc_text(case['vn']), tree=enc_tree(case['tree']))
    else:
        out.update(pre1=enc_text(case['pre1']), pre2=enc_text(case['pre2']))
    return out


def dec_res(r):
    if r is None:
        return None
    if 'ok' in r:
        return {'ok': [dec_text(x) for x in r['ok']]}
    return r


def dec_route(m):
    out = {k: m[k] for k in ('err', 'match', 'error') if k in m}
    if 'sp' in m: out['sp'] = [dec_text(x) for x in m['sp']]
    if 'res' in m: out['res'] = dec_res(m['res'])
    return out


def model_view(case, mo):
    """the model's answer in the shape of the observation"""
    if 'error' in mo:
        return mo
    op = case['op']
    if op == 'direct':
        return {'res': dec_res(mo['res']), 'spec': dec_res(mo['spec']), 'again': dec_res(mo.get('again'))}
    if op == 'route':
        return dec_route(mo)
    if op == 'trav':
        if 'err' in mo:
            return {'err': mo['err']}
        return {'view': dec_text(mo['view']), 'ctx': [dec_text(x) for x in mo['ctx']], 'sp': [dec_text(x) for x in mo['sp']],
                'res': dec_res(mo['res'])}
    out = dec_route(mo)
    if 'inner' in mo:
        out['inner'] = dec_route(mo['inner'])
    return out


def compare_model(case, got, mo):
    mv = model_view(case, mo)
    if 'error' in mv:
        return 'driver error: %s' % mv['error']
    if case['op'] == 'direct':
        if mv['res'] != mv['spec']:
            return 'model and its declarative reading differ: %r vs %r' % (mv['res'], mv['spec'])
        if got['res'] != mv['res']:
            return 'outcome differs'
        return None if got.get('again') == mv.get('again') else 'outcome of the second mount differs'
    keys = {'route': ('err', 'match', 'sp', 'res'), 'trav': ('err', 'view', 'ctx', 'sp', 'res'), 'nested': ('err', 'match', 'sp', 'res', 'inner')}[case['op']]
    a = {k: got[k] for k in keys if k in got}
    b = {k: mv[k] for k in keys if k in mv}
    return None if a == b else 'observation differs from the model: %r vs %r' % (a, b)


# ------------------------------------------------------------------------------------------------------------------
# generators
SEGS = ['a', 'b', 'c', 'mnt', 'static', 'v', 'x', 'app', 'index.html', 'é', '日本', 'a b', 'ß', '@@v', 'a.b', '..a', '%2F', 'A', '0', '😀', '~u', 'a;b=1']
DOTS = ['.', '..']
BADUTF8 = ['\xff', '\xe9', 'a\xc3', '\xc3\x28', '\xed\xa0\x80', '\xc0\xaf']        # WSGI strings that are not UTF-8
NONLATIN = ['λ', 'a日', '€']                                                          # not WSGI strings at all
PRES = ['/mnt', '/mnt/', '/', '', 'mnt', '/a/b', '/a/b/', '/é', '/m.n', '/static/x', '/a b', '/a+', '/日本/']
VNS = ['v', '', 'app', 'é', 'index.html']
TREE_NAMES = ['a', 'b', 'mnt', 'é', 'v', 'x', 'a b']


def gen_seg(rng, p_dot=0.08, p_empty=0.1, p_bad=0.03, p_nonlatin=0.01):
    """one element of a WSGI path, as (wsgi string, kind)"""
    r = rng.random()
    if r < p_dot:
        return rng.choice(DOTS)
    r -= p_dot
    if r < p_empty:
        return ''
    r -= p_empty
    if r < p_bad:
        return rng.choice(BADUTF8)
    r -= p_bad
    if r < p_nonlatin:
        return rng.choice(NONLATIN)
    if rng.random() < 0.15:
        return wsgi_of(vfutil.rand_text(rng, 4, allow_empty=False, forbid='/'))
    return wsgi_of(rng.choice(SEGS))


QUOTED = ['a%2Fb', '%2F', 'x%2fy%2Fz', '%2E', '%2e%2E', 'a%2E', '%C3%A9', '%E6%97%A5', 'a%20b', '%FF', '%', '%2', 'a%00b', '%2F%2F']


def gen_path(rng, lo=0, hi=5, **kw):
    """(list of elements, trailing slashes).  One time in eight the elements come from a percent-quoted URL, unquoted
    the PEP 3333 way (urllib unquote_to_bytes, latin-1): %2F turns into a real slash (one quoted segment becomes two
    elements), %2E into a dot segment, %C3%A9 into UTF-8 bytes, %FF into a byte that is not UTF-8"""
    if rng.random() < 0.125:
        from urllib.parse import unquote_to_bytes
        n = rng.randint(max(lo, 1), max(hi, 1))
        url = '/'.join(rng.choice(QUOTED) if rng.random() < 0.6 else rng.choice(SEGS[:8]) for _ in range(n))
        return unquote_to_bytes(url).decode('latin-1').split('/'), rng.choice([0, 0, 1])
    return [gen_seg(rng, **kw) for _ in range(rng.randint(lo, hi))], rng.choice([0, 0, 0, 1, 1, 2])


def join_path(els, trail):
    return ''.join('/' + e for e in els) + '/' * trail


def gen_env(rng, els, trail):
    """split a path between SCRIPT_NAME and PATH_INFO"""
    r = rng.random()
    k = rng.randint(0, len(els)) if r < 0.5 else 0
    sn = ''.join('/' + e for e in els[:k])
    pi = join_path(els[k:], trail)
    r = rng.random()
    if r < 0.04: sn = None if sn == '' else sn
    elif r < 0.08: sn = sn + '/'
    elif r < 0.10: sn = sn.lstrip('/')
    if pi == '' and rng.random() < 0.5: pi = None if rng.random() < 0.5 else '/'
    elif rng.random() < 0.03: pi = pi.lstrip('/')
    return sn, pi


def gen_direct(rng):
    els, trail = gen_path(rng)
    sn, pi = gen_env(rng, els, trail)
    full = (sn or '') + ('/' if pi is None else pi)
    ne = nonempty(full)
    r = rng.random()
    k = rng.randint(0, min(len(ne), 4))
    tail = [dec_el(x)[0] for x in ne[len(ne) - k:]] if k else []
    if any(x is None for x in tail):
        tail = [x if x is not None else 'q' for x in tail]
    if r < 0.55:
        sp = tail                                             # the raw tail
    elif r < 0.70:
        t, e = dec_el('/' if pi is None else pi)              # a tail of the normalised PATH_INFO (what traversal derives)
        norm = doc_norm(t) if not e else tail
        k = rng.randint(0, min(len(norm), 4))
        sp = norm[len(norm) - k:] if k else []
    elif r < 0.95:
        sp = list(tail)                                       # perturbed
        m = rng.random()
        if sp and m < 0.3: sp[rng.randrange(len(sp))] = rng.choice(SEGS + ['', '.', '..', 'a/b', '/'])
        elif m < 0.5: sp.insert(rng.randint(0, len(sp)), rng.choice(SEGS + ['', 'a/b']))
        elif sp and m < 0.7: del sp[rng.randrange(len(sp))]
        elif m < 0.85: sp = sp + sp
        else: sp = [rng.choice(SEGS + ['', '.', 'a/b', 'x/', '/']) for _ in range(rng.randint(1, 3))]
    else:
        sp = None
    return {'op': 'direct', 'sn': sn, 'pi': pi, 'sp': sp}


def gen_route(rng):
    pre = rng.choice(PRES)
    els, trail = gen_path(rng, 0, 4, p_bad=0.02)
    p = pre if pre.startswith('/') else '/' + pre
    r = rng.random()
    if r < 0.8:
        pi = wsgi_of(p) + (join_path(els, trail)[1:] if p.endswith('/') else join_path(els, trail))
    elif r < 0.9:
        pi = wsgi_of(p) + rng.choice(['xyz', 'é', '.']) + join_path(els, trail)       # fused with the prefix
    else:
        pi = join_path(els, trail) or rng.choice(['', '/', None])
    sels, _ = gen_path(rng, 0, 2, p_bad=0.08, p_dot=0.05)
    sn = ''.join('/' + e for e in sels)
    if rng.random() < 0.05: sn = None
    return {'op': 'route', 'kind': 'wsgiapp2' if rng.random() < 0.85 else 'wsgiapp', 'pre': pre, 'sn': sn, 'pi': pi}


def gen_tree(rng, depth=0):
    g = rng.random() < (0.9 if depth == 0 else 0.7)
    kids = []
    if g and depth < 3:
        for _ in range(rng.randint(0, 3 if depth < 2 else 1)):
            kids.append([rng.choice(TREE_NAMES), gen_tree(rng, depth + 1)])
    return {'g': g, 'k': kids}


def gen_trav(rng):
    tree = gen_tree(rng)
    vn = rng.choice(VNS)
    # walk into the tree, then the view name, then a tail
    els, node = [], tree
    while node['g'] and node['k'] and rng.random() < 0.75:
        name, node = rng.choice(node['k'])
        els.append(wsgi_of(name))
        if rng.random() < 0.1: els.append(rng.choice(['', '.']))
        if rng.random() < 0.04: els += [wsgi_of(rng.choice(SEGS)), '..']
    r = rng.random()
    if vn != '' and r < 0.85: els.append(wsgi_of(vn) if rng.random() < 0.8 else '@@' + wsgi_of(vn))
    elif r < 0.95 and vn == '': els.append('@@')
    tail, trail = gen_path(rng, 0, 4, p_bad=0.02)
    els += tail
    sels, _ = gen_path(rng, 0, 2, p_bad=0.08, p_dot=0.05)
    sn = ''.join('/' + e for e in sels)
    pi = join_path(els, trail)
    if pi == '': pi = rng.choice(['', '/', None])
    return {'op': 'trav', 'kind': 'wsgiapp2' if rng.random() < 0.85 else 'wsgiapp', 'vn': vn, 'tree': tree, 'sn': sn, 'pi': pi}


def gen_nested(rng):
    pre1, pre2 = rng.choice(PRES), rng.choice(PRES)
    p1 = pre1 if pre1.startswith('/') else '/' + pre1
    p2 = pre2 if pre2.startswith('/') else '/' + pre2
    els, trail = gen_path(rng, 0, 3, p_bad=0.02)
    mid = rng.choice(['', '', '', '/', '/.', '//'])
    r = rng.random()
    if r < 0.85:
        pi = wsgi_of(p1.rstrip('/')) + mid + wsgi_of(p2) + (join_path(els, trail)[1:] if p2.endswith('/') else join_path(els, trail))
    else:
        pi = wsgi_of(p1) + join_path(els, trail)
    sels, _ = gen_path(rng, 0, 2, p_bad=0.06, p_dot=0.05)
    return {'op': 'nested', 'pre1': pre1, 'pre2': pre2, 'sn': ''.join('/' + e for e in sels), 'pi': pi}


def gen_case(rng):
    r = rng.random()
    if r < 0.50: return gen_direct(rng)
    if r < 0.70: return gen_route(rng)
    if r < 0.88: return gen_trav(rng)
    return gen_nested(rng)


def fixed_cases():
    out = []
    sns = [None, '', '/s', '/s/', 's', '/s//t', '/\xff', '/λ', '/é'.encode().decode('latin-1')]
    pis = [None, '', '/', '//', '/a', '/a/', '/a/b', '/a/b/', '/a//b', '/a/./b', '/a/b/..', '/a/../b', 'a/b', '/a/b//', '/\xc3\xa9/b', '/a/\xff', '/.', '/..']
    sps = [None, [], ['a'], ['b'], ['a', 'b'], ['é'], [''], ['.'], ['a/b'], ['b', 'b'], ['x'], ['a', 'b', 'c'], ['', '']]
    for sn in sns:
        for pi in pis:
            for sp in sps:
                out.append({'op': 'direct', 'sn': sn, 'pi': pi, 'sp': sp})
    for pre in PRES:
        for pi in [None, '', '/', '/mnt', '/mnt/', '/mnt/a', '/mnt/a/b/', '/mntxyz/a', '/mnt/a/./b', '/mnt/a/b/..', '/a/b/c', '/a/b', '/mnt//a', '/mnt/\xff',
                   '/m.n/a', '/mXn/a', '/a b/c', '/static/x/y/z/', '/\xc3\xa9/q']:
            for kind in ('wsgiapp2', 'wsgiapp'):
                out.append({'op': 'route', 'kind': kind, 'pre': pre, 'sn': '/s', 'pi': pi})
    t = {'g': True, 'k': [['mnt', {'g': True, 'k': [['a', {'g': False, 'k': []}]]}], ['a', {'g': True, 'k': []}]]}
    for pi in [None, '', '/', '/mnt', '/mnt/v', '/mnt/v/', '/mnt/v/x/y', '/mnt/v/x/y/', '/mnt/@@v/x', '/mnt/a/v/x', '/mnt/a/b/v', '/v', '/v/x/./y', '/mnt/v/x/y/..',
               '/mnt/./v/x', '/mnt/q/../v/x', '/a/v/\xc3\xa9', '/mnt/v/\xff', '/zzz/v/x']:
        for vn in ('v', ''):
            for kind in ('wsgiapp2', 'wsgiapp'):
                out.append({'op': 'trav', 'kind': kind, 'vn': vn, 'tree': t, 'sn': '/s', 'pi': pi})
    for pre1, pre2, pi in [('/out', '/in', '/out/in/x/y'), ('/out', '/in', '/out/in/x/y/'), ('/out/', '/in/', '/out/in/x'), ('/out', '/in', '/out/in'),
                           ('/out', '/in', '/out//in//x'), ('/out', '/in', '/out/nope/x'), ('/out', '/in', '/out/in/x/./y'), ('/out', '/', '/out/x'),
                           ('/', '/', '/x/y'), ('/out', '/in', '/out/./in/x'), ('/out', '/in', '/outin/x'), ('/out', '/in', '/out/inx/y')]:
        for sn in ('', '/s', '/\xff'):
            out.append({'op': 'nested', 'pre1': pre1, 'pre2': pre2, 'sn': sn, 'pi': pi})
    return out


def reached(case, got):
    if case['op'] == 'direct':
        return True
    if case['op'] == 'trav':
        return got.get('res') is not None
    return bool(got.get('match'))


def is_trivial(case, got):
    if not reached(case, got):
        return True
    if case['op'] == 'direct':
        return not case.get('sp') and not nonempty((case['sn'] or '') + ('/' if case['pi'] is None else case['pi']))
    return False


def classify(case, got, dist):
    op = case['op']
    vfutil.bump(dist['ops'], op + ('/' + case['kind'] if 'kind' in case else ''))
    sn = case.get('sn') or ''
    pi = '/' if case.get('pi') is None else case['pi']
    sp = case.get('sp') if op == 'direct' else got.get('sp')
    res = got.get('res') if op != 'nested' else (got.get('inner') or {}).get('res', got.get('res'))
    if got.get('notfound_keyerror'): vfutil.bump(dist['outcome'], 'O3: KeyError instead of 404 (no PATH_INFO key)')
    elif 'err' in got: vfutil.bump(dist['outcome'], 'before the view: ' + got['err'])
    elif got.get('match') is False or (op == 'trav' and res is None): vfutil.bump(dist['outcome'], 'not reached (404)')
    elif isinstance(res, dict) and 'err' in res: vfutil.bump(dist['outcome'], 'mount raises ' + res['err'])
    elif isinstance(res, dict) and 'ok' in res: vfutil.bump(dist['outcome'], 'mounted, SCRIPT_NAME ' + ('empty' if res['ok'][0] == '' else 'non-empty'))
    else: vfutil.bump(dist['outcome'], 'other')
    if sp is not None and op != 'nested':
        vfutil.bump(dist['subpath_len'], str(min(len(sp), 4)) + ('+' if len(sp) >= 4 else ''))
        vfutil.bump(dist['tail'], 'raw tail' if raw_tail(sn, pi, sp) else 'not a raw tail')
    els = (sn + pi).split('/')
    f = dist['features']
    if any(e in ('.', '..') for e in els): vfutil.bump(f, 'dot segment')
    if '' in els[1:-1]: vfutil.bump(f, 'empty segment inside')
    if pi.endswith('/') and pi != '/': vfutil.bump(f, 'trailing slash')
    if not (sn + pi).isascii(): vfutil.bump(f, 'non-ASCII')
    if any(dec_el(e)[1] == 'UnicodeDecodeError' for e in els): vfutil.bump(f, 'element not UTF-8')
    if any(dec_el(e)[1] == 'UnicodeEncodeError' for e in els): vfutil.bump(f, 'not a WSGI string')
    if case.get('sn') is None or case.get('pi') is None: vfutil.bump(f, 'key absent')
    if sn and not sn.startswith('/'): vfutil.bump(f, 'SCRIPT_NAME without leading slash')
    if op == 'direct' and case.get('sp') and any('/' in x for x in case['sp']): vfutil.bump(f, 'slash inside a subpath element')
    if op == 'direct' and case.get('sp') and any(x in ('', '.', '..') for x in case['sp']): vfutil.bump(f, 'empty/dot subpath element')


def check_case(M, case, mo):
    got = impl(M, case)
    detail, exp, finding = oracle(case, got)
    m = None
    if mo is not None:
        why = compare_model(case, got, mo)
        if why:
            m = {'case': case, 'impl': strip(got), 'model': model_view(case, mo), 'why': why}
    v = None
    if detail:
        v = {'case': case, 'impl': strip(got), 'expected': exp, 'detail': detail}
        if finding:
            v['finding'] = finding
    return m, v, got


def strip(got):
    return json.loads(json.dumps(got, default=str))


def shrink_violation(M, v):
    op = v['case']['op']
    fid = v.get('finding')

    def fails(c):
        try:
            if not isinstance(c, dict) or c.get('op') != op:
                return False
            if op == 'direct' and not (c.get('sp') is None or isinstance(c['sp'], list)):
                return False
            d, _, f = oracle(c, impl(M, c))
            return bool(d) and f == fid
        except Exception:  # noqa
            return False
    small = vfutil.shrink(v['case'], fails, max_steps=400)
    if small != v['case']:
        g = impl(M, small)
        d, e, f = oracle(small, g)
        out = {'case': small, 'impl': strip(g), 'expected': e, 'detail': d}
        if f:
            out['finding'] = f
        return out
    return v


def run(ctx):
    M = mods(ctx)
    rng = ctx.rng
    n = ctx.n(15000, 300000)
    cases = [c for _, c in ctx.corpus()]
    ncorpus = len(cases)
    cases += fixed_cases()
    nfixed = len(cases) - ncorpus
    cases += [gen_case(rng) for _ in range(n)]
    model = [None] * len(cases)
    if ctx.driver_path:
        model = ctx.run_model([enc_case(c) for c in cases])
    mism, viol, agree = [], [], 0
    dist = {'ops': {}, 'outcome': {}, 'subpath_len': {}, 'tail': {}, 'features': {}}
    seen, nontriv = set(), set()
    done = 0
    for case, mo in zip(cases, model):
        m, v, got = check_case(M, case, mo)
        done += 1
        if m: mism.append(m)
        elif mo is not None: agree += 1
        if v: viol.append(v)
        classify(case, got, dist)
        key = vfutil.canon(case)
        if key not in seen:
            seen.add(key)
            if not is_trivial(case, got): nontriv.add(key)
        if ctx.time_left() < 60:
            break
    known = [v for v in viol if v.get('finding')]
    unknown = [v for v in viol if not v.get('finding')]
    viol = [shrink_violation(M, v) for v in unknown[:4]] + unknown[4:30] + [shrink_violation(M, v) for v in known[:1]] + known[1:3]
    dist['known_finding_cases'] = len(known)
    return {'evaluations': done, 'distinct_nontrivial': len(nontriv), 'rule': RULE, 'agreeing': agree,
            'samples': cases[ncorpus + nfixed:ncorpus + nfixed + 5] + cases[-3:], 'mismatches': mism[:20], 'violations': viol,
            'distribution': dist,
            'notes': ['%d corpus + %d fixed (environ x subpath cube, prefix x path table, traversal table, nested table) + %d random cases' % (ncorpus, nfixed, n),
                      'route / trav / nested cases go through a real Configurator + Router; the mounted WSGI application reports the environ it is called with'],
            'assumptions': ['SCRIPT_NAME / PATH_INFO and subpath elements are str without lone surrogates; subpath is a tuple of str (or absent)',
                            'route patterns are a literal prefix + *subpath; traversal without virtual root',
                            'the original environ is compared on all keys except wsgi.input and webob.* (request.copy() makes the body seekable)'],
            'trusted_base': ['extract/x07.py probes the running call_app_with_subpath_as_path_info / wsgiapp / wsgiapp2 over finite cubes (Gen/X07.lean)',
                             "C09's UTF-8 codec (PyramidModel.AuthTkt.utf8Enc / utf8Step) and C02's splitOn / splitPathInfo / traverser are reused; "
                             "CPython's codecs and str.split are tied to them by probe tables and correspondence only"]}


def search(ctx):
    """implementation-only, small-scope exhaustive search for an input that violates the property"""
    import itertools
    M = mods(ctx)
    viol, n = [], [0]

    def push(case):
        n[0] += 1
        try:
            got = impl(M, case)
            d, e, f = oracle(case, got)
        except Exception as ex:  # noqa
            d, e, f, got = 'harness error: %r' % (ex,), None, None, {}
        if d and not f and len(viol) < 40:
            viol.append({'case': case, 'impl': strip(got), 'expected': e, 'detail': d})
    for _, c in ctx.corpus():
        push(c)
    for c in fixed_cases():
        push(c)
    # every path of <= 4 elements over a small alphabet, every split between SCRIPT_NAME and PATH_INFO, every subpath <= 2
    alpha = ['a', 'b', '', '.', '\xc3\xa9']
    subs = [[]] + [[x] for x in ('a', 'b', 'é')] + [[x, y] for x in ('a', 'b') for y in ('a', 'b', 'é')]
    for L in range(0, 5):
        for els in itertools.product(alpha, repeat=L):
            for trail in (0, 1):
                for k in range(0, L + 1):
                    sn = ''.join('/' + e for e in els[:k])
                    pi = join_path(els[k:], trail)
                    for sp in subs:
                        push({'op': 'direct', 'sn': sn, 'pi': pi, 'sp': sp})
        if len(viol) >= 5 or ctx.time_left() < 200:
            break
    exhaustive = len(viol) < 5 and ctx.time_left() >= 200
    for pre in ('/m', '/m/', '/'):
        for L in range(0, 4):
            for els in itertools.product(['a', 'b', '', '.', '..'], repeat=L):
                for trail in (0, 1):
                    p = pre + (join_path(els, trail)[1:] if pre.endswith('/') else join_path(els, trail))
                    for kind in ('wsgiapp2', 'wsgiapp'):
                        push({'op': 'route', 'kind': kind, 'pre': pre, 'sn': '/s', 'pi': p})
                    push({'op': 'nested', 'pre1': pre, 'pre2': '/a', 'sn': '', 'pi': p})
    k = 0
    while ctx.time_left() > 120 and k < ctx.n(4000, 40000) and len(viol) < 5:
        push(gen_case(ctx.rng)); k += 1
    viol = [shrink_violation(M, v) for v in viol[:3]] + viol[3:]
    return {'violations': viol[:5], 'searched': n[0], 'exhaustive': exhaustive,
            'scope': 'corpus + fixed cubes; all paths of <= 4 elements over {a, b, empty, ., é} x every SCRIPT_NAME/PATH_INFO split x trailing slash x '
                     '%d subpaths; 3 route prefixes x all remainders <= 3 over {a, b, empty, ., ..} x wsgiapp/wsgiapp2/nested; then %d random cases' % (len(subs), k)}


def replay(ctx, rep):
    case = rep.get('case') or (rep if 'op' in rep else None)      # a replay file, or a bare corpus case
    if case is None:
        return {'violates': False, 'note': 'replay names broken obligations only', 'broken': rep.get('broken_obligations')}
    M = mods(ctx)
    mo = ctx.run_model([enc_case(case)])[0] if ctx.driver_path else None
    m, v, got = check_case(M, case, mo)
    return {'case': case, 'impl': strip(got), 'model': mo and model_view(case, mo), 'expected': v and v['expected'], 'mismatch': m and m['why'],
            'detail': v and v['detail'], 'finding': v and v.get('finding'), 'violates': bool(v)}
