"""X05 — authentication policies and principals (extra coverage target): correspondence + property oracle + search + replay.

Cases (JSON, human readable: a principal is a str or an int, None is None):
  {"op":"parse","h": None | str [, "rt":[user, pw]]}     extract_http_basic_credentials on this Authorization header;
                                                          "rt" = the header was made for these credentials (round trip)
  {"op":"fmt","cls":"Allowed"|"Denied","s":str,"args":[str,…]}      PermitsResult truthiness and msg
  {"op":"policy", ...}    one authentication policy (or none / a new-style security policy) behind a real Configurator +
                          Router; five requests: observe, protected, remember, forget, forget_kw
The implementation side runs the tree under test (ctx.src); the oracle below restates the property (notes/X05.md) in Python
and does not depend on the Lean build.
"""
import base64, binascii, json, os, sys, warnings

sys.path.insert(0, os.path.join(os.path.dirname(os.path.dirname(os.path.abspath(__file__))), 'lib'))
import vfutil  # noqa: E402

EVERYONE = 'system.Everyone'
AUTHENTICATED = 'system.Authenticated'
NOPOLICY_MSG = 'No security policy in use.'

RULE = ('distinct cases (canonical JSON) that are not trivial; trivial = a parse case without header, a fmt case without '
        'conversion, a policy case with neither a claimed userid nor a security policy')


# ------------------------------------------------------------------------------------------------------------------
# the tree under test
def mods(ctx):
    src = ctx.src
    if src not in sys.path or sys.path[0] != src:
        sys.path.insert(0, src)
    warnings.simplefilter('ignore')
    import pyramid.authentication as A
    import pyramid.security as S
    import pyramid.authorization as Z
    from pyramid.config import Configurator
    from pyramid.request import Request
    from pyramid.response import Response
    from pyramid.httpexceptions import HTTPForbidden
    for m in (A, S, Z):
        if not os.path.realpath(m.__file__).startswith(os.path.realpath(src)):
            raise RuntimeError('pyramid imported from %s, not from the tree under test %s' % (m.__file__, src))
    return {'A': A, 'S': S, 'Z': Z, 'Configurator': Configurator, 'Request': Request, 'Response': Response,
            'HTTPForbidden': HTTPForbidden}


def attempt(f, enc=lambda v: v):
    try:
        return {'ok': enc(f())}
    except Exception as e:      # noqa
        return {'err': type(e).__name__}


def plain(v):
    """principals / userids as they come back: only None, str, int are in the modelled domain"""
    if v is None or isinstance(v, (str, int)) and not isinstance(v, bool):
        return v
    return {'unexpected': repr(v)[:80]}


def ident_key(i):
    """canonical form of a repoze.who identity dict of the harness"""
    if i is None:
        return None
    d = {'tag': i.get('tag', 0)}
    if 'repoze.who.userid' in i:
        d['userid'] = i['repoze.who.userid']
    elif 'userid' in i:
        d['userid'] = i['userid']
    return d


def table_fn(cb, keyf=lambda a: a):
    rows = [(json.dumps(r[0], sort_keys=True), r[1]) for r in cb['rows']]
    dflt = cb['default']

    def f(arg):
        k = json.dumps(keyf(arg), sort_keys=True)
        for rk, g in rows:
            if rk == k:
                return None if g is None else list(g)
        return None if dflt is None else list(dflt)
    return f


def perm_name(n):
    return 'p%d' % n


def impl_parse(M, case):
    req = M['Request'].blank('/')
    if case['h'] is not None:
        req.environ['HTTP_AUTHORIZATION'] = case['h']
    try:
        r = M['A'].extract_http_basic_credentials(req)
    except UnicodeEncodeError:
        return {'out': 'raises'}
    except Exception as e:  # noqa
        return {'out': 'raises:' + type(e).__name__}
    if r is None:
        return {'out': None}
    if type(r).__name__ != 'HTTPBasicCredentials' or len(r) != 2:
        return {'out': {'unexpected': repr(r)[:80]}}
    return {'out': {'u': r.username, 'p': r.password, 'truthy': bool(r)}}


def impl_fmt(M, case):
    cls = getattr(M['S'], case['cls'])
    r = cls(case['s'], *case['args'])
    out = {'bool': bool(r), 'int': int(r), 'eq': [r == 1, r == 0]}
    try:
        out['msg'] = {'ok': r.msg}
        out['str'] = str(r) == r.msg
    except TypeError:
        out['msg'] = {'err': 'TypeError'}
    except ValueError:
        out['msg'] = {'err': 'ValueError'}
    except Exception as e:  # noqa
        out['msg'] = {'err': type(e).__name__}
    return out


class Ctx0:
    def __init__(self, tag):
        self.tag = tag


def build_contexts(M, case):
    authz = case.get('authz') or {'kind': 'table', 'allow': []}
    Z = M['Z']
    if authz['kind'] == 'acl':
        out = []
        for k, lineage in enumerate(authz['contexts']):
            nodes = []
            for acl in lineage:
                n = Ctx0(k)
                if acl is not None:
                    n.__acl__ = [({0: Z.Allow, 1: Z.Deny, 2: 'Other'}[a], who,
                                  Z.ALL_PERMISSIONS if p == 'all' else ([perm_name(x) for x in p] if isinstance(p, list) else perm_name(p)))
                                 for a, who, p in acl]
                nodes.append(n)
            for a, b in zip(nodes, nodes[1:]):
                a.__parent__ = b
            if nodes:
                nodes[-1].__parent__ = None
            out.append(nodes[0] if nodes else Ctx0(k))
        while len(out) < 2:
            out.append(Ctx0(len(out)))
        return out
    return [Ctx0(0), Ctx0(1), Ctx0(2)]


def impl_policy(M, case):
    """the case through a real Configurator + Router"""
    A, S, Z = M['A'], M['S'], M['Z']
    kind, sec, reqd = case['kind'], case['sec'], case['req']
    cb = case.get('cb')
    authn_calls = []
    if kind == 'remote':
        pol = A.RemoteUserAuthenticationPolicy(environ_key=case.get('environ_key', 'REMOTE_USER'), callback=cb and (lambda f: lambda u, r: f(u))(table_fn(cb)),
                                               debug=bool(case.get('debug')))
    elif kind == 'session':
        pol = A.SessionAuthenticationPolicy(prefix=case.get('prefix', 'auth.'), callback=cb and (lambda f: lambda u, r: f(u))(table_fn(cb)),
                                            debug=bool(case.get('debug')))
    elif kind == 'repoze':
        pol = A.RepozeWho1AuthenticationPolicy(callback=cb and (lambda f: lambda i, r: f(i))(table_fn(cb, ident_key)))
        if case.get('debug'):
            pol.debug = True          # the class has no constructor argument for it; the attribute is what the methods read
    elif kind == 'basic':
        f = table_fn(cb) if cb else (lambda a: None)
        pol = A.BasicAuthAuthenticationPolicy(check=lambda u, p, r: f([u, p]), realm=case.get('realm', 'Realm'), debug=bool(case.get('debug')))
    else:
        raise ValueError(kind)
    contexts = build_contexts(M, case)
    authz = case.get('authz') or {'kind': 'table', 'allow': []}
    seen_by_authz = []

    class TableAuthz:
        def permits(self, context, principals, permission):
            seen_by_authz.append([getattr(context, 'tag', None), [plain(p) for p in principals], permission])
            ok = [getattr(context, 'tag', None), list(principals), permission] in [[c, list(ps), perm_name(p)] for c, ps, p in authz['allow']]
            return S.Allowed('table says yes') if ok else S.Denied('table says no')

        def principals_allowed_by_permission(self, context, permission):
            return []
    cust = case.get('custom') or {}

    class CustomPolicy:
        def identity(self, request): return cust.get('identity')
        def authenticated_userid(self, request): return cust.get('userid')
        def permits(self, request, context, permission):
            ok = [getattr(context, 'tag', None), permission] in [[c, perm_name(p)] for c, p in cust.get('permits', [])]
            return S.Allowed('custom yes') if ok else S.Denied('custom no')
        def remember(self, request, userid, **kw): return [tuple(h) for h in cust.get('remember', [])]
        def forget(self, request, **kw): return [tuple(h) for h in cust.get('forget', [])]

    class Sess(dict):
        pass
    sessions = []

    def session_factory(request):
        s = Sess()
        for k, v in reqd.get('session', []):
            s[k] = v
        sessions.append(s)
        return s
    rec = {}
    Response = M['Response']
    perm = perm_name(case['perm'])
    ctx_arg = case.get('ctx_arg')

    def enc_perm(r):
        if type(r) is S.Allowed and r.msg == NOPOLICY_MSG:
            return 'nopolicy' if bool(r) else 'nopolicy-but-falsy'
        if not isinstance(r, S.PermitsResult):
            return {'unexpected': repr(r)[:60]}
        return bool(r)

    def observe(request):
        o = rec['obs'] = {}
        o['unauth'] = attempt(lambda: request.unauthenticated_userid, plain)
        o['auth'] = attempt(lambda: request.authenticated_userid, plain)
        o['identity'] = attempt(lambda: request.identity, plain)
        o['is_auth'] = attempt(lambda: request.is_authenticated)
        o['eff'] = attempt(lambda: [plain(p) for p in request.effective_principals])
        o['perm'] = attempt(lambda: request.has_permission(perm), enc_perm)
        o['perm_ctx'] = attempt(lambda: request.has_permission(perm, None if ctx_arg is None else contexts[ctx_arg]), enc_perm)
        if sec == 'legacy':
            # the policy object itself, next to the request API
            o['pol_auth'] = attempt(lambda: pol.authenticated_userid(request), plain)
            o['pol_eff'] = attempt(lambda: [plain(p) for p in pol.effective_principals(request)])
        return Response('ok')

    def protected(request):
        return Response('in')

    def enc_headers(hs):
        if isinstance(hs, list) and hs and isinstance(hs[0], tuple) and hs[0][0] == 'X-Plugin':
            return hs[0][1]
        return {'list': [[str(a), str(b)] for a, b in hs]}

    def sess_items(request):
        return [[k, plain(v)] for k, v in request.session.items()]

    def v_remember(request):
        rec['remember'] = attempt(lambda: {'h': enc_headers(S.remember(request, case['uid'])), 's': sess_items(request)})
        return Response('ok')

    def v_forget(request):
        rec['forget'] = attempt(lambda: {'h': enc_headers(S.forget(request)), 's': sess_items(request)})
        return Response('ok')

    def v_forget_kw(request):
        rec['forget_kw'] = attempt(lambda: {'h': enc_headers(S.forget(request, scope='all')), 's': sess_items(request)})
        return Response('ok')

    with warnings.catch_warnings():
        warnings.simplefilter('ignore')
        config = M['Configurator'](root_factory=lambda request: contexts[0], session_factory=session_factory)
        if sec == 'legacy':
            config.set_authentication_policy(pol)
            config.set_authorization_policy(Z.ACLAuthorizationPolicy() if authz['kind'] == 'acl' else TableAuthz())
        elif sec == 'custom':
            config.set_security_policy(CustomPolicy())
        config.add_view(observe, name='observe')
        config.add_view(protected, name='protected', permission=perm)
        config.add_view(v_remember, name='remember')
        config.add_view(v_forget, name='forget')
        config.add_view(v_forget_kw, name='forget_kw')
        app = config.make_wsgi_app()

        class Plugin:
            def remember(self, environ, identity):
                extra = sorted(k for k in identity if k != 'repoze.who.userid')
                return [('X-Plugin', {'plugin_remember': plain(identity.get('repoze.who.userid')), **({'extra': extra} if extra else {})})]

            def forget(self, environ, identity):
                return [('X-Plugin', {'plugin_forget': ident_key(identity)})]

        def call(path):
            environ = M['Request'].blank('/' + path).environ
            if reqd.get('remote') is not None:
                environ[case.get('environ_key', 'REMOTE_USER')] = reqd['remote']
            if reqd.get('identity') is not None:
                i = reqd['identity']
                d = {'tag': i.get('tag', 0)}
                if 'userid' in i:
                    d['repoze.who.userid'] = i['userid']
                environ['repoze.who.identity'] = d
            if reqd.get('plugins') is not None:
                environ['repoze.who.plugins'] = {'auth_tkt': Plugin()} if reqd['plugins'] else {'other': Plugin()}
            if reqd.get('authorization') is not None:
                environ['HTTP_AUTHORIZATION'] = reqd['authorization']
            status = []
            try:
                body = b''.join(app(environ, lambda s, h, e=None: status.append(s)))
                code = status[0].split()[0]
                return {'ok': 'forbidden' if code == '403' else code + ':' + body.decode()}
            except M['HTTPForbidden']:
                return {'ok': 'forbidden'}
            except Exception as e:  # noqa
                return {'err': type(e).__name__}
        got = {}
        r = call('observe')
        got.update(rec.get('obs') or {'observe_failed': r})
        got['protected'] = call('protected')
        for name in ('remember', 'forget', 'forget_kw'):
            r = call(name)
            got[name] = rec.get(name) or {'view_failed': r}
        got['authz_saw'] = seen_by_authz[:1]
    return got


def impl(M, case):
    op = case['op']
    if op == 'parse':
        return impl_parse(M, case)
    if op == 'fmt':
        return impl_fmt(M, case)
    return impl_policy(M, case)


# ------------------------------------------------------------------------------------------------------------------
# the property, restated (independent of the Lean model)
def latin1(s):
    return all(ord(c) < 256 for c in s)


def doc_parse(h):
    """the documented form: scheme 'basic' (any case), ONE space, base64 of user:password in UTF-8 (else latin-1)"""
    if not h:
        return None
    if ' ' not in h:
        return None
    i = h.index(' ')
    scheme, rest = h[:i], h[i + 1:]
    if len(scheme) != 5 or any(a not in (b, b.upper()) for a, b in zip(scheme, 'basic')):
        return None
    rest = rest.strip()
    if not latin1(rest):
        return 'outside'
    try:
        raw = base64.b64decode(rest.encode('latin-1'))
    except binascii.Error:
        return None
    try:
        text = raw.decode('utf-8')
    except UnicodeDecodeError:
        text = raw.decode('latin-1')
    if ':' not in text:
        return None
    j = text.index(':')
    return (text[:j], text[j + 1:])


def oracle_parse(case, got):
    out = got['out']
    exp = doc_parse(case['h'])
    if exp == 'outside':
        return None, 'outside the WSGI domain'
    if out == 'raises' or (isinstance(out, str) and out.startswith('raises')):
        return 'the parser raised although the stripped payload is latin-1 text', repr(exp)
    if isinstance(out, dict) and 'unexpected' in out:
        return 'unexpected return value', repr(exp)
    if exp is None:
        if out is not None:
            return 'credentials from a header that has not the documented form', None
    else:
        if out is None:
            return 'no credentials from a header of the documented form', list(exp)
        if ':' in out['u']:
            return 'the user name contains a colon', list(exp)
        if (out['u'], out['p']) != exp:
            return 'user:password is not the decoded text split at the first colon', list(exp)
        if not out.get('truthy'):
            return 'credentials are falsy', list(exp)
    if 'rt' in case and latin1(case['h']):
        u, p = case['rt']
        if out is None or [out['u'], out['p']] != [u, p]:
            return 'round trip: parse(format(u, p)) != (u, p)', [u, p]
    return None, exp if exp is None else list(exp)


def doc_fmt(s, args):
    try:
        return {'ok': s % tuple(args)}
    except TypeError:
        return {'err': 'TypeError'}
    except ValueError:
        return {'err': 'ValueError'}


def oracle_fmt(case, got):
    want = case['cls'] == 'Allowed'
    if got['bool'] is not want or got['int'] != int(want) or got['eq'] != [want, not want]:
        return '%s is not %s' % (case['cls'], 'truthy' if want else 'falsy'), want
    exp = doc_fmt(case['s'], case['args'])
    if got['msg'] != exp:
        return 'msg is not s % args', exp
    if 'ok' in exp and got.get('str') is not True:
        return 'str(result) != msg', exp
    return None, exp


def claimed_userid(case):
    """(userid claimed by the request, in domain?)"""
    kind, req = case['kind'], case['req']
    if kind == 'remote':
        return req.get('remote'), True
    if kind == 'session':
        key = case.get('prefix', 'auth.') + 'userid'
        v = None
        for k, x in req.get('session', []):
            if k == key:
                v = x
        return v, True
    if kind == 'repoze':
        i = req.get('identity')
        if i is None:
            return None, True
        if 'userid' not in i:
            return None, False
        return i['userid'], True
    h = req.get('authorization')
    p = doc_parse(h)
    if p == 'outside':
        return None, False
    return (p[0] if p else None), True


def callback_answer(case, uid):
    """the groupfinder's answer for the claimed user (None = unknown)"""
    kind, cb = case['kind'], case.get('cb')
    if kind == 'basic':
        p = doc_parse(case['req'].get('authorization'))
        if not p or p == 'outside' or not cb:
            return None
        return table_fn(cb)([p[0], p[1]])
    if cb is None:
        return []
    if kind == 'repoze':
        return table_fn(cb, ident_key)(case['req']['identity'])
    return table_fn(cb)(uid)


def doc_verified(case):
    uid, dom = claimed_userid(case)
    if not dom:
        return 'outside'
    if uid is None or uid in (EVERYONE, AUTHENTICATED):
        return None
    g = callback_answer(case, uid)
    if g is None:
        return None
    return (uid, list(g))


def acl_permits(lineage, principals, perm):
    for acl in lineage:
        if acl is None:
            continue
        for a, who, p in acl:
            if who in principals and (p == 'all' or (perm in p if isinstance(p, list) else perm == p)):
                return a == 0          # the first ACE that names a held principal and the permission decides
    return False


def doc_permits(case, principals, ctx):
    authz = case.get('authz') or {'kind': 'table', 'allow': []}
    if authz['kind'] == 'acl':
        lin = authz['contexts'][ctx] if ctx < len(authz['contexts']) else []
        return acl_permits(lin, principals, case['perm'])
    return [ctx, principals, case['perm']] in [[c, list(ps), p] for c, ps, p in authz['allow']]


def oracle_policy(case, got):
    """returns (detail or None, expected)"""
    sec = case['sec']
    exp = {}
    if 'observe_failed' in got:
        return 'the observing view did not run: %r' % (got['observe_failed'],), None
    if sec == 'none':
        exp = {'auth': {'ok': None}, 'identity': {'ok': None}, 'is_auth': {'ok': False}, 'eff': {'ok': [EVERYONE]},
               'perm': {'ok': 'nopolicy'}, 'perm_ctx': {'ok': 'nopolicy'}, 'protected': {'ok': '200:in'}, 'unauth': {'ok': None}}
        for k, v in exp.items():
            if got.get(k) != v:
                return 'without a security policy %s must be %r' % (k, v), exp
        for k in ('remember', 'forget', 'forget_kw'):
            if got[k].get('ok', {}).get('h') != {'list': []}:
                return 'without a security policy %s() must return []' % k, exp
        return None, exp
    if sec == 'custom':
        c = case['custom']
        exp = {'auth': {'ok': c['userid']}, 'identity': {'ok': c['identity']}, 'is_auth': {'ok': c['userid'] is not None},
               'eff': {'ok': [EVERYONE]}, 'unauth': {'ok': c['userid']},
               'perm': {'ok': [0, case['perm']] in c['permits']},
               'perm_ctx': {'ok': [case.get('ctx_arg') or 0, case['perm']] in c['permits']}}
        exp['protected'] = {'ok': '200:in' if exp['perm']['ok'] else 'forbidden'}
        for k, v in exp.items():
            if got.get(k) != v:
                return 'with a new-style policy %s must be %r' % (k, v), exp
        return None, exp
    v = doc_verified(case)
    if v == 'outside':
        return None, 'outside (identity without userid key / non-WSGI header)'
    exp_auth = v[0] if v else None
    exp_eff = [EVERYONE] + ([AUTHENTICATED, v[0]] + v[1] if v else [])
    exp = {'auth': exp_auth, 'eff': exp_eff}
    for k in ('auth', 'pol_auth', 'identity'):
        if got.get(k) != {'ok': exp_auth}:
            return '%s is %r, the verified user is %r' % (k, got.get(k), exp_auth), exp
    if got.get('is_auth') != {'ok': exp_auth is not None}:
        return 'is_authenticated disagrees with authenticated_userid', exp
    for k in ('eff', 'pol_eff'):
        e = got.get(k)
        if 'ok' not in e:
            return 'effective_principals raised %s' % e.get('err'), exp
        ps = e['ok']
        if EVERYONE not in ps:
            return 'effective_principals lacks Everyone', exp
        if (AUTHENTICATED in ps) != (exp_auth is not None):
            return 'Authenticated is present iff a user is verified — violated', exp
        if exp_auth is None and ps != [EVERYONE]:
            return 'principals beyond Everyone without a verified user', exp
        if ps != exp_eff:
            return 'effective_principals is not [Everyone] + [Authenticated, userid] + groups', exp
        if len(ps) > 2 and ps[2] in (EVERYONE, AUTHENTICATED):
            return 'a refused principal is the userid', exp
    uid, _ = claimed_userid(case)
    if got.get('unauth') != {'ok': uid}:
        return 'unauthenticated_userid is not the claimed userid', exp
    # (3) LegacySecurityPolicy.permits = authz.permits(context, effective_principals, permission)
    for k, ctx in (('perm', 0), ('perm_ctx', case.get('ctx_arg') or 0)):
        want = doc_permits(case, exp_eff, ctx)
        exp[k] = want
        if got.get(k) != {'ok': want}:
            return 'has_permission is not authz.permits(context, effective_principals, permission)', exp
    if got.get('protected') != {'ok': '200:in' if exp['perm'] else 'forbidden'}:
        return 'the protected view is not guarded by that decision', exp
    authz = case.get('authz') or {'kind': 'table'}
    if authz['kind'] == 'table' and got.get('authz_saw') and got['authz_saw'][0][1] != exp_eff:
        return 'the authorization policy was not handed effective_principals', exp
    # remember / forget
    kind = case['kind']
    sess0 = [[k, x] for k, x in case['req'].get('session', [])]
    key = case.get('prefix', 'auth.') + 'userid'
    if got['forget_kw'] != {'err': 'ValueError'}:
        return 'forget(**kw) with a legacy policy must raise ValueError', exp
    if kind == 'session':
        r = got['remember'].get('ok')
        if not r or r['h'] != {'list': []}:
            return 'session remember must return []', exp
        if dict((k, x) for k, x in r['s']).get(key) != case['uid'] or [kv for kv in r['s'] if kv[0] != key] != [kv for kv in sess0 if kv[0] != key]:
            return 'remember must store the userid under the key and leave other keys alone', exp
        f = got['forget'].get('ok')
        if not f or f['h'] != {'list': []} or f['s'] != [kv for kv in sess0 if kv[0] != key]:
            return 'forget must remove the userid key and nothing else', exp
    elif kind in ('remote', 'basic'):
        for k in ('remember', 'forget'):
            r = got[k].get('ok')
            if not r or r['s'] != sess0:
                return '%s must not touch the session' % k, exp
        if got['remember']['ok']['h'] != {'list': []}:
            return 'remember must return []', exp
        wantf = [] if kind == 'remote' else [['WWW-Authenticate', 'Basic realm="%s"' % case.get('realm', 'Realm')]]
        if got['forget']['ok']['h'] != {'list': wantf}:
            return 'forget must return %r' % wantf, exp
    else:
        pl = case['req'].get('plugins')
        if pl is None:
            if got['remember'] != {'ok': {'h': {'list': []}, 's': sess0}} or got['forget'] != {'ok': {'h': {'list': []}, 's': sess0}}:
                return 'without repoze.who plugins remember/forget return []', exp
        elif pl:
            if got['remember'] != {'ok': {'h': {'plugin_remember': case['uid']}, 's': sess0}}:
                return 'remember must hand the userid to the identifier plugin', exp
            if got['forget'] != {'ok': {'h': {'plugin_forget': ident_key(case['req'].get('identity'))}, 's': sess0}}:
                return 'forget must hand the identity to the identifier plugin', exp
    return None, exp


def oracle(case, got):
    op = case['op']
    if op == 'parse':
        return oracle_parse(case, got)
    if op == 'fmt':
        return oracle_fmt(case, got)
    return oracle_policy(case, got)


# ------------------------------------------------------------------------------------------------------------------
# encoding for the driver, comparison with the model
def enc_text(s):
    return [ord(c) for c in s]


def dec_text(cs):
    return ''.join(chr(c) for c in cs)


def enc_prin(v):
    if v is None:
        return None
    if isinstance(v, str):
        return {'s': enc_text(v)}
    return {'i': v}


def dec_prin(j):
    if j is None:
        return None
    return dec_text(j['s']) if 's' in j else j['i']


def enc_ident(i):
    if i is None:
        return None
    d = {'tag': i.get('tag', 0)}
    if 'userid' in i:
        d['userid'] = enc_prin(i['userid'])
    return d


def dec_ident(j):
    if j is None:
        return None
    d = {'tag': j['tag']}
    if 'userid' in j:
        d['userid'] = dec_prin(j['userid'])
    return d


def enc_groups(g):
    return None if g is None else [enc_prin(p) for p in g]


def enc_case(case):
    op = case['op']
    if op == 'parse':
        return {'op': 'parse', 'h': None if case['h'] is None else enc_text(case['h'])}
    if op == 'fmt':
        return {'op': 'fmt', 's': enc_text(case['s']), 'args': [enc_text(a) for a in case['args']]}
    kind = case['kind']
    cb = case.get('cb')
    if cb is not None:
        argenc = {'remote': enc_prin, 'session': enc_prin, 'repoze': enc_ident, 'basic': lambda a: [enc_text(a[0]), enc_text(a[1])]}[kind]
        cb = {'rows': [[argenc(a), enc_groups(g)] for a, g in cb['rows']], 'default': enc_groups(cb['default'])}
    r = case['req']
    out = {'op': 'policy', 'kind': kind, 'prefix': enc_text(case.get('prefix', 'auth.')), 'realm': enc_text(case.get('realm', 'Realm')),
           'cb': cb,
           'req': {'remote': enc_prin(r.get('remote')), 'identity': enc_ident(r.get('identity')), 'plugins': r.get('plugins'),
                   'authorization': None if r.get('authorization') is None else enc_text(r['authorization']),
                   'session': [[enc_text(k), enc_prin(v)] for k, v in r.get('session', [])]},
           'sec': case['sec'], 'perm': case['perm'], 'ctx_arg': case.get('ctx_arg'), 'uid': enc_prin(case['uid'])}
    if case['sec'] == 'custom':
        c = case['custom']
        out['custom'] = {'identity': enc_prin(c['identity']), 'userid': enc_prin(c['userid']), 'permits': c['permits'],
                         'remember': [[enc_text(a), enc_text(b)] for a, b in c['remember']],
                         'forget': [[enc_text(a), enc_text(b)] for a, b in c['forget']]}
    if case['sec'] == 'legacy':
        a = case.get('authz') or {'kind': 'table', 'allow': []}
        if a['kind'] == 'table':
            out['authz'] = {'kind': 'table', 'allow': [[c, [enc_prin(p) for p in ps], p2] for c, ps, p2 in a['allow']]}
        else:
            out['authz'] = {'kind': 'acl', 'contexts': [[None if acl is None else [[x, enc_prin(w), p] for x, w, p in acl] for acl in lin]
                                                        for lin in a['contexts']]}
    return out


def dec_R(j, f):
    if 'ok' in j:
        return {'ok': f(j['ok'])}
    return j


def dec_headers(h):
    if 'list' in h:
        return {'list': [[dec_text(a), dec_text(b)] for a, b in h['list']]}
    if 'plugin_remember' in h:
        return {'plugin_remember': dec_prin(h['plugin_remember'])}
    return {'plugin_forget': dec_ident(h['plugin_forget'])}


def dec_hs(x):
    return {'h': dec_headers(x['h']), 's': [[dec_text(k), dec_prin(v)] for k, v in x['s']]}


def model_view(case, mo):
    """the model's reply in the vocabulary of the implementation's observation"""
    op = case['op']
    if 'error' in mo:
        return {'driver_error': mo['error']}
    if op == 'parse':
        o = mo['out']
        if isinstance(o, dict):
            return {'out': {'u': dec_text(o['u']), 'p': dec_text(o['p']), 'truthy': True}}
        return {'out': o}
    if op == 'fmt':
        return {'msg': {'ok': dec_text(mo['ok'])} if 'ok' in mo else {'err': mo['err']}}
    ps = lambda l: [dec_prin(p) for p in l]  # noqa
    out = {'unauth': dec_R(mo['unauth'], dec_prin), 'auth': dec_R(mo['auth'], dec_prin), 'identity': dec_R(mo['identity'], dec_prin),
           'is_auth': mo['is_auth'], 'eff': dec_R(mo['eff'], ps), 'perm': mo['perm'], 'perm_ctx': mo['perm_ctx'],
           'remember': dec_R(mo['remember'], dec_hs), 'forget': dec_R(mo['forget'], dec_hs), 'forget_kw': dec_R(mo['forget_kw'], dec_hs)}
    p = mo['perm']
    out['protected'] = {'ok': 'forbidden' if p['ok'] is False else '200:in'} if 'ok' in p else p
    if case['sec'] == 'legacy':
        out['pol_auth'] = out['auth']
        out['pol_eff'] = out['eff']
    return out


def compare_model(case, got, mo):
    """None when the implementation's observation equals the model's answer, else a description"""
    mv = model_view(case, mo)
    if 'driver_error' in mv:
        return 'driver: ' + mv['driver_error']
    if case['op'] == 'fmt':
        if mv['msg'] == {'err': 'unmodelled'}:
            return None
        return None if got['msg'] == mv['msg'] else 'msg: impl %r model %r' % (got['msg'], mv['msg'])
    for k, v in mv.items():
        if got.get(k) != v:
            return '%s: impl %r model %r' % (k, got.get(k), v)
    if case['op'] == 'policy' and case['sec'] == 'legacy':
        # the reading (spec) printed by the driver must agree with the model wherever the identity is well formed
        va = dec_R(mo['spec_auth'], dec_prin)
        ve = dec_R(mo['spec_eff'], lambda l: [dec_prin(p) for p in l])
        i = case['req'].get('identity')
        wf = not (case['kind'] == 'repoze' and i is not None and 'userid' not in i)
        if wf and (va != mv['auth'] or ve != mv['eff']):
            return 'model and its declarative reading differ: %r / %r vs %r / %r' % (mv['auth'], mv['eff'], va, ve)
    return None


# ------------------------------------------------------------------------------------------------------------------
# generators
USERIDS = ['fred', 'bob', 'alice', '', EVERYONE, AUTHENTICATED, 'system.everyone', 'system.Everyone ', ' system.Authenticated',
           'system.Authenticated\n', 'Everyone', 'éric', '日本', 'a:b', 7, 0, -1, 'group:editors', 'fred ']
GROUPS = [[], ['group:editors'], ['g1', 'g2'], [AUTHENTICATED], [EVERYONE, 'g1'], ['fred'], [7], ['group:editors', 'group:admin', 'éditeurs']]
SCHEMES = ['Basic', 'basic', 'BASIC', 'bAsIc', 'BasiC', 'Basi', 'Basicc', 'Bearer', 'Digest', '', 'Basic:', 'basıc', 'BASİC', 'ᏴASIC',
           'Basic\t', '\tBasic', 'Negotiate', 'basiс']
SEPS = [' ', ' ', ' ', '  ', '\t', '', ' \t ', '\xa0', '   ']
NAMES = ['fred', 'bob', '', 'éric', 'ÿ', 'a b', '日本', 'user@example.com', EVERYONE, AUTHENTICATED, '😀', 'x' * 9, '\x00', ' ', 'A']
PWS = ['secret', '', 'pa:ss', ':', '::', 'pä', 'p w', '\xff', 'a:b:c', '=', 'Zm9v', '日本語', ' ']


def b64(b):
    return base64.b64encode(b).decode('ascii')


def gen_header(rng):
    """(header, rt or None, class)"""
    r = rng.random()
    if r < 0.04:
        return rng.choice([None, '', ' ', 'Basic', 'basic']), None, 'absent/empty/no-space'
    u = rng.choice(NAMES) if rng.random() < 0.6 else vfutil.rand_text(rng, 5, p_special=0.2, p_nonascii=0.3, forbid=':')
    p = rng.choice(PWS) if rng.random() < 0.6 else vfutil.rand_text(rng, 6, p_special=0.4, p_nonascii=0.3)
    if r < 0.40:
        scheme = rng.choice(['Basic', 'basic', 'BASIC', 'bAsIc', 'BaSiC'])
        return scheme + ' ' + b64((u + ':' + p).encode('utf-8')), ([u, p] if ':' not in u else None), 'documented'
    if r < 0.50:
        # latin-1 encoded payload (falls back when it is not UTF-8)
        t = ''.join(c for c in u + ':' + p if ord(c) < 256)
        return 'Basic ' + b64(t.encode('latin-1')), None, 'latin-1 payload'
    if r < 0.58:
        raw = bytes(rng.choice([0x61, 0x3a, 0xff, 0xc3, 0xa9, 0x80, 0xe2, 0x82, 0xac, 0xf0, 0x9f, 0x3a, 0x62, 0xc0, 0xed, 0xa0]) for _ in range(rng.randint(0, 7)))
        return 'Basic ' + b64(raw), None, 'byte soup'
    payload = b64((u + ':' + p).encode('utf-8'))
    if r < 0.70:
        m = rng.randrange(8)
        if m == 0: payload = payload.rstrip('=')
        elif m == 1: payload = payload[:-1]
        elif m == 2: payload = payload + '='
        elif m == 3: payload = payload[:2] + rng.choice(['!', ' ', '\n', '*', 'é', '\x00', '-', '_']) + payload[2:]
        elif m == 4: payload = '=' + payload
        elif m == 5: payload = payload[:rng.randint(0, len(payload))]
        elif m == 6: payload = payload + payload
        else: payload = payload + rng.choice(['Ā', ' ', '€'])
        return rng.choice(['Basic', 'basic']) + ' ' + payload, None, 'mangled base64'
    if r < 0.80:
        pad = rng.choice([' ', '  ', '\t', '\n', '\xa0', '\x85', '\x1c', ' \t'])
        return 'Basic ' + rng.choice(['', pad]) + payload + pad, ([u, p] if ':' not in u else None), 'padded'
    if r < 0.88:
        nocolon = b64((u.replace(':', '') or 'x').encode('utf-8'))
        return 'Basic ' + nocolon, None, 'no colon'
    return rng.choice(SCHEMES) + rng.choice(SEPS) + payload, None, 'scheme/separator variants'


def gen_parse(rng):
    h, rt, cls = gen_header(rng)
    c = {'op': 'parse', 'h': h}
    if rt is not None:
        c['rt'] = rt
    return c


FMTS = ['No security policy in use.', 'plain', '', '%s', 'a %s b', '%s%s', '%%', '100%%', '100%', '%', '%s %', 'x%sy%%z%s', '%d', '%r', '%(a)s', '%5s',
        'ä %s', '%s %s %s', '%%s', '% s', '%c']


def gen_fmt(rng):
    s = rng.choice(FMTS) if rng.random() < 0.8 else vfutil.rand_text(rng, 6, alphabet=list('ab%s% '))
    args = [rng.choice(['x', '', 'fred', '%s', 'é']) for _ in range(rng.choice([0, 0, 1, 1, 2, 3]))]
    return {'op': 'fmt', 'cls': rng.choice(['Allowed', 'Denied']), 's': s, 'args': args}


def gen_groups(rng):
    r = rng.random()
    if r < 0.3:
        return None
    return list(rng.choice(GROUPS))


def gen_policy(rng, kind=None):
    kind = kind or rng.choice(['remote', 'session', 'repoze', 'basic'])
    sec = rng.choice(['legacy'] * 8 + ['none', 'custom'])
    uid = rng.choice(USERIDS) if rng.random() < 0.85 else None
    if rng.random() < 0.3:
        uid = rng.choice(['fred', EVERYONE, AUTHENTICATED, None])
    req = {'remote': None, 'identity': None, 'plugins': None, 'authorization': None, 'session': []}
    case = {'op': 'policy', 'kind': kind, 'sec': sec, 'req': req, 'perm': rng.randrange(3), 'ctx_arg': rng.choice([None, None, 0, 1]),
            'uid': rng.choice(['fred', 'bob', EVERYONE, 7, '', 'éric'])}
    arg = uid
    if rng.random() < 0.25:
        case['debug'] = True
    if kind == 'remote':
        req['remote'] = uid
        if rng.random() < 0.2:
            case['environ_key'] = 'X_REMOTE'
    elif kind == 'session':
        pfx = rng.choice(['auth.', 'auth.', '', 'x', 'userid'])
        case['prefix'] = pfx
        items = []
        for k in rng.sample(['auth.userid', 'userid', 'xuserid', 'other', 'auth.', 'auth.useridx', 'useriduserid', 'k'], rng.randint(0, 4)):
            if k == pfx + 'userid':
                continue
            items.append([k, rng.choice(USERIDS + [None])])
        if uid is not None or rng.random() < 0.3:
            items.insert(rng.randint(0, len(items)), [pfx + 'userid', uid])
        req['session'] = items
    elif kind == 'repoze':
        r = rng.random()
        if r < 0.12:
            req['identity'] = None
        elif r < 0.2:
            req['identity'] = {'tag': rng.randrange(3)}
        else:
            req['identity'] = {'userid': uid, 'tag': rng.randrange(3)}
        arg = req['identity']
        req['plugins'] = rng.choice([None, True, True, False])
    else:
        h, rt, cls = gen_header(rng)
        if rng.random() < 0.5 and isinstance(uid, str) and ':' not in uid:
            pw = rng.choice(PWS)
            h = rng.choice(['Basic ', 'basic ', 'BASIC  ']) + b64((uid + ':' + pw).encode('utf-8'))
        req['authorization'] = h
        p = doc_parse(h)
        arg = [p[0], p[1]] if p and p != 'outside' else ['fred', 'x']
        case['realm'] = rng.choice(['Realm', 'Realm', '', 'my "realm"', 'Ünï'])
    # noise in the parts of the request the policy must not look at
    if rng.random() < 0.15 and kind != 'remote':
        req['remote'] = rng.choice(['mallory', EVERYONE])
    if rng.random() < 0.15 and kind != 'session':
        req['session'] = [['auth.userid', 'mallory'], ['k', 'v']]
    # callback
    r = rng.random()
    if kind == 'basic':
        rows = []
        if rng.random() < 0.7:
            rows.append([arg, gen_groups(rng)])
        if rng.random() < 0.3:
            rows.append([[arg[0], arg[1] + 'x'], ['wrong-password-row']])
        case['cb'] = {'rows': rows, 'default': gen_groups(rng) if rng.random() < 0.4 else None}
    elif r < 0.35 or arg is None:
        case['cb'] = None if rng.random() < 0.7 else {'rows': [], 'default': gen_groups(rng)}
    else:
        rows = [[arg, gen_groups(rng)]] if rng.random() < 0.7 else []
        if rng.random() < 0.3:
            other = {'tag': 9, 'userid': 'fred'} if kind == 'repoze' else 'someone-else'
            rows.insert(rng.randint(0, len(rows)), [other, ['decoy']])
        case['cb'] = {'rows': rows, 'default': gen_groups(rng)}
    if sec == 'custom':
        case['custom'] = {'identity': rng.choice([None, 'fred', 7]), 'userid': rng.choice([None, 'fred', EVERYONE, 7]),
                          'permits': [[c, p] for c in range(2) for p in range(3) if rng.random() < 0.4],
                          'remember': rng.choice([[], [['Set-Cookie', 'a=b']]]), 'forget': rng.choice([[], [['Set-Cookie', 'a=']]])}
    if sec == 'legacy':
        v = doc_verified(case)
        eff = [EVERYONE] + ([AUTHENTICATED, v[0]] + v[1] if v and v != 'outside' else [])
        if rng.random() < 0.5:
            allow = []
            cands = [eff, [EVERYONE], [EVERYONE, AUTHENTICATED], eff[:3], eff[2:3], eff[1:], list(reversed(eff)),
                     [EVERYONE, AUTHENTICATED, uid] if uid is not None else [EVERYONE]]
            for _ in range(rng.randint(0, 4)):
                allow.append([rng.randrange(2), list(rng.choice(cands)), rng.randrange(3)])
            if rng.random() < 0.6:
                allow.append([rng.choice([0, 0, case['ctx_arg'] or 0]), eff, case['perm']])
            case['authz'] = {'kind': 'table', 'allow': allow}
        else:
            pool = [EVERYONE, AUTHENTICATED, 'fred', 'group:editors', 'g1', 7, 'bob', ''] + ([uid] if uid is not None else []) + \
                (v[1] if v and v != 'outside' else [])

            def ace():
                p = rng.choice([0, 1, 2, 'all', [0, 1], [2], []])
                return [rng.choice([0, 0, 1, 1, 2]), rng.choice(pool), p]

            def lineage():
                return [None if rng.random() < 0.25 else [ace() for _ in range(rng.randint(0, 3))] for _ in range(rng.randint(1, 3))]
            case['authz'] = {'kind': 'acl', 'contexts': [lineage(), lineage()]}
    return case


def gen_case(rng):
    r = rng.random()
    if r < 0.45:
        return gen_parse(rng)
    if r < 0.52:
        return gen_fmt(rng)
    return gen_policy(rng)


def fixed_cases():
    out = []
    # every flavour x claimed userid x callback answer (the decision cube)
    for kind in ('remote', 'session', 'repoze', 'basic'):
        for uid in (None, 'fred', '', EVERYONE, AUTHENTICATED, 7):
            for cbmode in ('nocb', 'none', 'empty', 'groups'):
                if kind == 'basic' and (not isinstance(uid, str)):
                    continue
                if kind == 'basic' and cbmode == 'nocb':
                    continue
                req = {'remote': None, 'identity': None, 'plugins': None, 'authorization': None, 'session': []}
                arg = uid
                if kind == 'remote': req['remote'] = uid
                elif kind == 'session': req['session'] = [['k', 'v'], ['auth.userid', uid]] if uid is not None else [['k', 'v']]
                elif kind == 'repoze':
                    req['identity'] = {'userid': uid, 'tag': 1}
                    arg = req['identity']
                else:
                    req['authorization'] = 'Basic ' + b64((uid + ':pw').encode())
                    arg = [uid, 'pw']
                g = {'none': None, 'empty': [], 'groups': ['g1', 'g2']}.get(cbmode)
                cb = None if cbmode == 'nocb' else {'rows': [[arg, g]] if arg is not None else [], 'default': None if cbmode != 'none' else ['decoy']}
                eff = [EVERYONE, AUTHENTICATED, uid] + (g or []) if uid is not None else [EVERYONE, AUTHENTICATED]
                out.append({'op': 'policy', 'kind': kind, 'sec': 'legacy', 'req': req, 'perm': 1, 'ctx_arg': 1, 'uid': 'bob', 'cb': cb,
                            'authz': {'kind': 'table', 'allow': [[0, eff, 1], [1, [EVERYONE], 1]]}})
    base = {'remote': 'fred', 'identity': None, 'plugins': None, 'authorization': None, 'session': []}
    out.append({'op': 'policy', 'kind': 'remote', 'sec': 'none', 'req': dict(base), 'perm': 0, 'ctx_arg': None, 'uid': 'fred', 'cb': None})
    out.append({'op': 'policy', 'kind': 'repoze', 'sec': 'legacy', 'req': dict(base, identity={'tag': 0}), 'perm': 0, 'ctx_arg': None, 'uid': 'fred',
                'cb': {'rows': [], 'default': None}})
    out.append({'op': 'policy', 'kind': 'repoze', 'sec': 'legacy', 'req': dict(base, identity={'tag': 0}, plugins=False), 'perm': 0, 'ctx_arg': None,
                'uid': 'fred', 'cb': None})
    for c in list(out):
        if c.get('op') == 'policy' and c['sec'] == 'legacy' and c.get('cb') is not None:
            out.append(dict(c, debug=True))
    for s in SCHEMES:
        for sep in (' ', '  ', '\t', ''):
            out.append({'op': 'parse', 'h': s + sep + 'ZnJlZDpwdw=='})
    for payload in ['', '=', '====', 'Og==', 'Og', 'Ojo=', 'ZnJlZA==', 'ZnJlZDpwdw', 'ZnJlZDpwdw=', 'ZnJlZDpw dw==', 'Z', 'Zg', 'Zg=', 'Zg==', '/zrp', 'w6k6w7w=',
                    'w6k6/w==', '4oKsOg==', '8J+YgDo=', 'wDo=', '7aCAOg==', 'ZnJlZDpwdw==ZnJlZDpwdw==', 'ZnJlZDpwdw==\n', '\xa0Og==\x85', 'OgĀ', ' Og==']:
        out.append({'op': 'parse', 'h': 'Basic ' + payload})
    for u, p in [('fred', 'pw'), ('', ''), ('éric', 'pä:ss'), ('日本', '😀'), ('a', ':'), ('\x00', '\n'), ('ÿ', 'é')]:
        out.append({'op': 'parse', 'h': 'Basic ' + b64((u + ':' + p).encode('utf-8')), 'rt': [u, p]})
    for s in FMTS:
        for args in ([], ['x'], ['x', 'y']):
            out.append({'op': 'fmt', 'cls': 'Allowed' if len(args) % 2 == 0 else 'Denied', 's': s, 'args': args})
    return out


def is_trivial(case):
    if case['op'] == 'parse':
        return case['h'] is None
    if case['op'] == 'fmt':
        return '%' not in case['s']
    uid, _ = claimed_userid(case)
    return uid is None and case['sec'] == 'none'


def classify(case, got, dist):
    op = case['op']
    vfutil.bump(dist['ops'], op)
    if op == 'parse':
        o = got['out']
        vfutil.bump(dist['parse_outcome'], 'creds' if isinstance(o, dict) else repr(o))
        h = case['h']
        if h and not latin1(h): vfutil.bump(dist['parse_features'], 'non-latin-1 header')
        if isinstance(o, dict):
            if ':' in o['p']: vfutil.bump(dist['parse_features'], 'colon in password')
            if o['u'] == '': vfutil.bump(dist['parse_features'], 'empty user')
            if o['p'] == '': vfutil.bump(dist['parse_features'], 'empty password')
            if not (o['u'] + o['p']).isascii(): vfutil.bump(dist['parse_features'], 'non-ASCII credentials')
        if 'rt' in case: vfutil.bump(dist['parse_features'], 'round-trip case')
        if h and h[:5].lower() == 'basic' and h[:5] != 'Basic': vfutil.bump(dist['parse_features'], 'scheme in other case')
    elif op == 'fmt':
        vfutil.bump(dist['fmt_outcome'], 'ok' if 'ok' in got['msg'] else got['msg']['err'])
    else:
        vfutil.bump(dist['policy_kind'], case['kind'] + '/' + case['sec'])
        if case['sec'] == 'legacy':
            a = got.get('auth', {})
            uid, dom = claimed_userid(case)
            if 'err' in a: k = 'raises ' + a['err']
            elif a.get('ok') is not None: k = 'authenticated' + (' with groups' if len(got['eff'].get('ok', [])) > 3 else '')
            elif uid is None: k = 'no claimed userid'
            elif uid in (EVERYONE, AUTHENTICATED): k = 'refused principal'
            else: k = 'callback says unknown'
            vfutil.bump(dist['policy_outcome'], k)
            vfutil.bump(dist['callback'], 'none' if case.get('cb') is None else 'table')
            if case.get('debug'): vfutil.bump(dist['policy_kind'], 'debug=True')
            vfutil.bump(dist['authz'], (case.get('authz') or {}).get('kind', '-') + ':' + str(got.get('perm', {}).get('ok')))


def finding_of(case):
    """narrow classifier of the recorded defect: RepozeWho1 policy with debug on, an identity whose userid is None"""
    if case.get('op') == 'policy' and case.get('kind') == 'repoze' and case.get('debug') and case.get('sec') == 'legacy':
        i = case['req'].get('identity')
        if i is not None and 'userid' in i and i['userid'] is None:
            return 'F-X05a'
    return None


def check_case(M, case, mo):
    got = impl(M, case)
    m = None
    if mo is not None and not finding_of(case):
        why = compare_model(case, got, mo)
        if why:
            m = {'case': case, 'impl': got, 'model': mo, 'why': why}
    detail, exp = oracle(case, got)
    v = None
    if detail:
        v = {'case': case, 'impl': got, 'expected': exp, 'detail': detail}
        if finding_of(case) and got.get('auth') == {'err': 'TypeError'}:
            v['finding'] = finding_of(case)
            v['detail'] = 'the debug flag changes the answer: authenticated_userid raises TypeError while logging (' + detail + ')'
    return m, v, got


def shrink_violation(M, v):
    def shape(c):
        return (c.get('op'), c.get('kind'), c.get('sec'), c.get('cls'), c.get('debug'), (c.get('authz') or {}).get('kind'), c.get('environ_key'),
                c.get('prefix'), sorted((c.get('req') or {}).get('identity') or {}))
    sh = shape(v['case'])

    def fails(c):
        try:
            if shape(c) != sh or finding_of(c) != finding_of(v['case']):
                return False
            return bool(oracle(c, impl(M, c))[0])
        except Exception:  # noqa
            return False
    small = vfutil.shrink(v['case'], fails, max_steps=300)
    if small != v['case']:
        g = impl(M, small)
        d, e = oracle(small, g)
        out = {'case': small, 'impl': g, 'expected': e, 'detail': d}
        if 'finding' in v:
            out['finding'] = v['finding']
        return out
    return v


def run(ctx):
    M = mods(ctx)
    rng = ctx.rng
    n = ctx.n(2600, 40000)
    cases = [c for _, c in ctx.corpus()]
    ncorpus = len(cases)
    cases += fixed_cases()
    nfixed = len(cases) - ncorpus
    cases += [gen_case(rng) for _ in range(n)]
    model = [None] * len(cases)
    if ctx.driver_path:
        model = ctx.run_model([enc_case(c) for c in cases])
    mism, viol, agree = [], [], 0
    dist = {'ops': {}, 'parse_outcome': {}, 'parse_features': {}, 'fmt_outcome': {}, 'policy_kind': {}, 'policy_outcome': {},
            'callback': {}, 'authz': {}}
    seen, nontriv = set(), set()
    for case, mo in zip(cases, model):
        m, v, got = check_case(M, case, mo)
        if m: mism.append(m)
        elif mo is not None: agree += 1
        if v: viol.append(v)
        classify(case, got, dist)
        key = vfutil.canon(case)
        if key not in seen:
            seen.add(key)
            if not is_trivial(case): nontriv.add(key)
        if ctx.time_left() < 60:
            break
    viol = [shrink_violation(M, v) for v in viol[:4]] + viol[4:30]
    return {'evaluations': len(cases), 'distinct_nontrivial': len(nontriv), 'rule': RULE, 'agreeing': agree,
            'samples': cases[ncorpus + nfixed:ncorpus + nfixed + 5] + cases[-3:], 'mismatches': mism[:20], 'violations': viol,
            'distribution': dist,
            'notes': ['%d corpus + %d fixed (decision cube, scheme x separator, payload list, format strings) + %d random cases' % (ncorpus, nfixed, n),
                      'a policy case = 5 requests through a real Configurator + Router (observe, protected view, remember, forget, forget(**kw))'],
            'assumptions': ['userids / principals are None, str or int (no bool, no str subclass, no object with a custom __eq__)',
                            'a groupfinder answers None or a list; BasicAuth check likewise',
                            'the Authorization header is a WSGI string (code points 0-255); others are run for correspondence only '
                            '(the real code raises UnicodeEncodeError there, as the model says)',
                            'a repoze.who identity has the repoze.who.userid key; identities without it are run for correspondence only',
                            'debug=True (25 % of the policy cases) must change no answer; the model has no debug parameter',
                            'PermitsResult.msg: only %s and %% conversions with str arguments are modelled (others: oracle = Python\'s own %)'],
            'trusted_base': ['extract/x05.py probes the running policies for the refused principals, the parser cube, the decision '
                             'cube, str.isspace / str.lower facts (Gen/X05.lean)',
                             'C09\'s codecs (PyramidModel.AuthTkt: latin1Enc, b64dec = binascii.a2b_base64 non-strict, utf8Step) are '
                             'reused; CPython\'s base64 / UTF-8 decoders are tied to them by correspondence only']}


def search(ctx):
    """implementation-only, small-scope exhaustive search for an input that violates the property"""
    M = mods(ctx)
    viol, n = [], 0

    def push(case):
        nonlocal n
        n += 1
        try:
            got = impl(M, case)
            d, e = oracle(case, got)
        except Exception as ex:  # noqa
            return
        if d and len(viol) < 40:
            viol.append({'case': case, 'impl': got, 'expected': e, 'detail': d})
    for c in fixed_cases():
        push(c)
    # parser: scheme masks x separators x every byte string of length <= 3 over a small alphabet
    import itertools
    alpha = [0x61, 0x3a, 0xff, 0xc3, 0xa9]
    for L in range(0, 4):
        for tup in itertools.product(alpha, repeat=L):
            raw = bytes(tup)
            for scheme in ('Basic', 'bASIC'):
                for sep, tail in ((' ', ''), ('  ', ' ')):
                    push({'op': 'parse', 'h': scheme + sep + b64(raw) + tail})
            if len(viol) >= 5: break
    for mask in range(32):
        s = ''.join(ch.upper() if mask >> i & 1 else ch for i, ch in enumerate('basic'))
        push({'op': 'parse', 'h': s + ' ' + b64(b'u:p:q'), 'rt': ['u', 'p:q']})
    for u in NAMES:
        for p in PWS:
            if ':' not in u:
                push({'op': 'parse', 'h': 'Basic ' + b64((u + ':' + p).encode('utf-8')), 'rt': [u, p]})
    # policies: flavour x userid pool x callback answer x authz table keyed on the expected principals / decoys
    for kind in ('remote', 'session', 'repoze', 'basic'):
        for uid in USERIDS + [None]:
            if kind == 'basic' and not (isinstance(uid, str) and ':' not in uid):
                continue
            for g in (None, [], ['g1'], [AUTHENTICATED]):
                for withcb in (True, False):
                    if kind == 'basic' and not withcb:
                        continue
                    req = {'remote': None, 'identity': None, 'plugins': True, 'authorization': None, 'session': [['k', 'v']]}
                    arg = uid
                    if kind == 'remote': req['remote'] = uid
                    elif kind == 'session': req['session'] = [['k', 'v'], ['auth.userid', uid], ['z', None]]
                    elif kind == 'repoze':
                        req['identity'] = {'userid': uid, 'tag': 2}
                        arg = req['identity']
                    else:
                        req['authorization'] = 'bAsic ' + b64((uid + ':p:w').encode())
                        arg = [uid, 'p:w']
                    cb = {'rows': [[arg, g]], 'default': ['decoy'] if g is None else None} if withcb else None
                    case = {'op': 'policy', 'kind': kind, 'sec': 'legacy', 'req': req, 'perm': 2, 'ctx_arg': 1, 'uid': 'bob', 'cb': cb}
                    v = doc_verified(case)
                    eff = [EVERYONE] + ([AUTHENTICATED, v[0]] + v[1] if v else [])
                    for allow in ([[0, eff, 2]], [[1, eff, 2]], [[0, eff[2:3], 2], [0, [EVERYONE, AUTHENTICATED], 2]]):
                        push(dict(case, authz={'kind': 'table', 'allow': allow}))
                    push(dict(case, authz={'kind': 'acl', 'contexts': [[[[0, AUTHENTICATED, 2]]], [[[1, EVERYONE, 'all']], [[0, EVERYONE, 'all']]]]}))
        if len(viol) >= 5: break
    push({'op': 'policy', 'kind': 'remote', 'sec': 'none', 'req': {'remote': 'fred', 'identity': None, 'plugins': None, 'authorization': None, 'session': []},
          'perm': 0, 'ctx_arg': None, 'uid': 'fred', 'cb': None})
    exhaustive = True
    k = 0
    while ctx.time_left() > 120 and k < ctx.n(3000, 30000) and len(viol) < 5:
        push(gen_case(ctx.rng)); k += 1
    viol = [shrink_violation(M, v) for v in viol[:3]] + viol[3:]
    return {'violations': viol[:5], 'searched': n, 'exhaustive': exhaustive,
            'scope': 'fixed cube; all byte strings <= 3 over {a : ff c3 a9} x 2 schemes x 2 paddings; 32 case masks of basic; names x passwords '
                     'round trip; 4 flavours x %d userids x 4 callback answers x with/without callback x 4 authorization tables; then %d random cases' % (len(USERIDS) + 1, k)}


def replay(ctx, rep):
    case = rep.get('case') or (rep if 'op' in rep else None)      # a replay file, or a bare corpus case
    if case is None:
        return {'violates': False, 'note': 'replay names broken obligations only', 'broken': rep.get('broken_obligations')}
    M = mods(ctx)
    mo = ctx.run_model([enc_case(case)])[0] if ctx.driver_path else None
    m, v, got = check_case(M, case, mo)
    return {'case': case, 'impl': got, 'model': mo, 'spec': oracle(case, got)[1], 'mismatch': m and m['why'],
            'detail': v and v['detail'], 'violates': bool(v)}
