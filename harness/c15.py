"""C15 — the view lookup cache: correspondence of lean/PyramidModel/Cache.lean with the real protocol
(`pyramid.view._find_views`, `add_view.register` -> `register_view` -> `Registry._clear_view_lookup_cache`),
and the property itself evaluated on the implementation by an oracle written from the statement:

  * every response of the live application equals the response of a FRESHLY BUILT application holding the
    same registrations (no lookup history, cold cache); a request pre-empted by a whole registration must
    equal the fresh response before OR after that registration;
  * miss-only traffic over distinct URLs never grows `registry._view_lookup_cache` after the first miss.

Deterministic pre-emption, all from the harness (nothing in /repo is edited):
  * `registry.adapters.registered` is wrapped: a whole registration (add_view + commit, including the cache
    clear) is injected before the j-th `registered` call of an in-progress `_find_views`;
  * the cache dict is an instrumented dict subclass (installed behind `_clear_view_lookup_cache`, keeping
    whatever object the real method produced): injection right after the reference was read (at `cache.get`);
  * `registry._lock` is wrapped in an instrumented lock: the 'write' injection point is the moment BEFORE the
    lock is acquired for `cache[key] = views` (if the write happens without the lock, the point is the dict
    write itself).  Nothing is ever injected while the lock is held — a registrar that takes the lock would
    simply wait there, so that is not an interleaving.  Acquiring the lock while it is held (same thread, or
    3 s timeout) and any case running longer than 60 s are reported as outcome 'deadlock'/'hang', never a hang;
  * `registry.adapters.register/unregister` are wrapped to LOG the adapter mutations of every registration
    (they are the registrar's `mods` in the model) and to pre-empt the registrar after its m-th mutation with a
    whole request ("split").
`pyramid.view._find_views` is wrapped read-only to record (arguments, returned list, dict afterwards) per call.
"""
import inspect, itertools, json, signal, sys, threading, time

from zope.interface import Interface

from pyramid.config import Configurator
from pyramid.interfaces import (IRequest, IView, ISecuredView, IMultiView, IViewClassifier,
                                IExceptionViewClassifier)
from pyramid.request import Request
from pyramid.response import Response
import pyramid.view as pview

import vfutil

RULE = ('one case = one application (context classes C<B<A, a class E used both as a context and as a raised '
        'exception, two routes /r/*traverse and /g/*traverse (use_global_views) sharing context and view name with plain requests, '
        '0-3 initial views incl. route-bound views and route-bound exception views) and an operation sequence of <= 8 ops over {request, request '
        'pre-empted by a whole registration at a chosen internal step (after the cache reference read / before the '
        'j-th adapter lookup / with the lock held before the dict write) of its first or second _find_views call, '
        'registration (new view, replacement, predicate sibling -> multiview, exception view, notfound view), '
        'registration pre-empted after its m-th adapter mutation by a whole request, burst of distinct missing URLs, burst of 300 distinct odd requests '
        '(URLs / Accept headers / query strings / header values) with a container census}; views carry accept= and request_method predicates, '
        'requests carry Accept headers from a pool and a method, registrations add members to or replace members of existing multiviews; views may be registered for interfaces IFoo/IBar and an '
        'op `ifc` changes what a context class / its instances provide between requests (classImplements, classImplementsOnly, alsoProvides, '
        'noLongerProvides, directlyProvides); '
        'a case is non-trivial when the same (context, view name) is looked up through two request interfaces, a registration lands inside an in-progress lookup or a lookup lands inside a '
        'registration, or a request is served from a warm cache entry, or a registration follows a warm-up of the same '
        'URL; distinct = distinct canonical case JSON')

VIEW_TYPES = (IView, ISecuredView, IMultiView)
CLASSIFIERS = {IViewClassifier: 'V', IExceptionViewClassifier: 'X'}


class A:
    pass


class B(A):
    pass


class C(B):
    pass


class E(Exception):
    """used both as a traversal context (?ctx=E) and as the exception raised by the view `boom`"""


class E2(E):
    """a more specific exception, raised by the view `boom2`"""


class IFoo(Interface):
    """an interface a context class / instance may start or stop providing between two requests"""


class IBar(IFoo):
    pass


CLS = {'A': A, 'B': B, 'C': C, 'E': E, 'E2': E2, 'Exception': Exception, 'IFoo': IFoo, 'IBar': IBar}
IFACES = {'IFoo': IFoo, 'IBar': IBar}
NAMES = ['', 'x', 'y']
IFC_OPS = []              # the interface-change operations applied since the last reset (part of the oracle memo key)
INST = {}                 # class name -> interfaces directly provided by every context instance of that class


def reset_ifaces():
    """back to pristine declarations: new implementedBy specifications for all context classes"""
    # unconditionally: every case starts from specification objects no earlier case has used, so that a case is
    # self-contained (replayable alone) even when the code under test keeps process-wide state keyed on them
    for cls in (C, B, A, E):
        for attr in ('__implemented__', '__providedBy__', '__provides__'):
            if attr in cls.__dict__:
                try:
                    delattr(cls, attr)
                except Exception:
                    pass
    del IFC_OPS[:]
    INST.clear()


def apply_ifc(op):
    """change what a context class / its instances provide (zope.interface declarations API)"""
    from zope.interface import classImplements, classImplementsOnly
    ifs = [IFACES[n] for n in op.get('ifaces', [])]
    how, cls = op['how'], op['cls']
    if how == 'classImplements':
        classImplements(CLS[cls], *ifs)
    elif how == 'classImplementsOnly':
        classImplementsOnly(CLS[cls], *ifs)
    elif how == 'alsoProvides':
        INST[cls] = list(INST.get(cls, [])) + [i for i in ifs if i not in INST.get(cls, [])]
    elif how == 'noLongerProvides':
        INST[cls] = [i for i in INST.get(cls, []) if i not in ifs]
    elif how == 'directlyProvides':
        INST[cls] = list(ifs)
    else:
        raise ValueError(how)
    IFC_OPS.append(json.dumps(op, sort_keys=True))


def _root_factory(request):
    from zope.interface import directlyProvides, alsoProvides, noLongerProvides
    name = request.params.get('ctx', 'C')
    cls = CLS.get(name, C)
    if not isinstance(cls, type):
        cls, name = C, 'C'
    obj = cls()
    ifs = INST.get(name)
    if ifs:
        # the instance-level API, exercised on every context object: directlyProvides, then alsoProvides one by one,
        # then noLongerProvides of nothing (a no-op that still rebuilds the declaration)
        directlyProvides(obj, ifs[0])
        for i in ifs[1:]:
            alsoProvides(obj, i)
    return obj


_VIEWS = {}


def view_for(tag):
    v = _VIEWS.get(tag)
    if v is None:
        def v(context, request, _tag=tag):
            return Response('t:%s' % _tag)
        v.__name__ = 'view_%s' % tag
        _VIEWS[tag] = v
    return v


def boom_view(context, request):
    raise E('boom')


def boom2_view(context, request):
    raise E2('boom2')


def apply_reg(config, r):
    """one registration, committed on its own (a later commit of the same discriminator is a replacement)"""
    kind = r.get('kind', 'view')
    if kind == 'nf':
        config.add_notfound_view(view_for(r['tag']))
    elif kind == 'exc':
        exc = CLS[r.get('context') or 'E']
        if _route(r):
            config.add_exception_view(view_for(r['tag']), context=exc, route_name=_route(r))
        else:
            config.add_exception_view(view_for(r['tag']), context=exc)
    else:
        kw = {'name': r.get('name', '')}
        if r.get('context'):
            kw['context'] = CLS[r['context']]
        if r.get('param'):
            kw['request_param'] = r['param']
        if _route(r):
            kw['route_name'] = _route(r)
        if r.get('accept'):
            kw['accept'] = r['accept']
        if r.get('method'):
            kw['request_method'] = r['method']
        config.add_view(view_for(r['tag']), **kw)
    config.commit()


def _route(d):
    """None (no route) | 'r' (route without global views) | 'g' (route with use_global_views=True)"""
    r = d.get('route')
    return 'r' if r is True else (r or None)


def make_config(regs):
    config = Configurator(root_factory=_root_factory)
    # two routes whose request interfaces share context and view name with plain requests: /r/<name> and /g/<name>
    # traverse to the same root with the same view name; `g` falls back to the global views (its request interface
    # extends IRequest), `r` does not; exception views are looked up through `<route>_combined_IRequest` for both
    config.add_route('r', '/r/*traverse')
    config.add_route('g', '/g/*traverse', use_global_views=True)
    config.add_view(boom_view, name='boom')
    config.add_view(boom_view, name='boom', route_name='r')
    config.add_view(boom2_view, name='boom2')
    config.add_view(boom2_view, name='boom2', route_name='r')
    config.commit()
    for r in regs:
        apply_reg(config, r)
    return config


def req_path(q):
    path = ('/%s/%s' % (_route(q), q.get('name', ''))) if _route(q) else '/' + q.get('name', '')
    qs = ['ctx=' + q.get('ctx', 'C')]
    if q.get('q'):
        qs.append(q['q'] + '=1')
    if q.get('xq'):
        qs.append(q['xq'] + '=1')
    return path + '?' + '&'.join(qs)


def send(app, q):
    try:
        headers = {}
        if q.get('accept') is not None:
            headers['Accept'] = q['accept']
        if q.get('hdr') is not None:
            headers['X-Odd'] = q['hdr']
        req = Request.blank(req_path(q), headers=headers)
        if q.get('method'):
            req.method = q['method']
        resp = req.get_response(app)
        return [resp.status_int, resp.text[:24].split('\n')[0]]
    except Exception as e:                                        # no exception view: propagates to the server
        return ['raise', type(e).__name__]


_FRESH = {}


def fresh_response(regs, q):
    """the oracle: a freshly built application holding the same registrations, first request ever"""
    key = json.dumps([regs, q, IFC_OPS], sort_keys=True)
    r = _FRESH.get(key)
    if r is None:
        if len(_FRESH) > 200000:
            _FRESH.clear()
        app = make_config(regs).make_wsgi_app()
        app.registry._lock = ILock(app.registry._lock, None)        # watchdog only: a self-deadlock becomes an outcome
        r = _FRESH[key] = send(app, q)
    return r


# ------------------------------------------------------------------------------------------------------
# instrumentation of one live application

_LIVE = {}
_orig_find_views = pview._find_views


INSTR_NOTES = {}          # what the instrumentation could not do on this tree (reported in the evidence)


_SIGS = {}


def _note(msg):
    INSTR_NOTES[msg] = INSTR_NOTES.get(msg, 0) + 1


def _bind(func, a, kw, names):
    """the named arguments of a call, whatever way they were passed; None when the callee's signature cannot take
    the call or lacks one of the names (the wrapper then only forwards)"""
    try:
        f = getattr(func, '__func__', func)
        sig = _SIGS.get(f)
        if sig is None:
            sig = _SIGS[f] = inspect.signature(func)
        ba = sig.bind(*a, **kw)
        ba.apply_defaults()
        args = ba.arguments
        return [args[n] for n in names]
    except Exception:
        return None


def _w_find_views(*a, **kw):
    """signature-agnostic, read-only recorder around pyramid.view._find_views"""
    got = _bind(_orig_find_views, a, kw, ['registry', 'request_iface', 'context_iface', 'view_name', 'view_types', 'view_classifier'])
    if got is None:
        _note('_find_views has an unknown signature: lookups are not recorded (no correspondence, oracle continues)')
        return _orig_find_views(*a, **kw)
    registry, request_iface, context_iface, view_name, view_types, view_classifier = got
    live = _LIVE.get(id(registry))
    if live is None or live.in_injection or not live.recording:
        return _orig_find_views(*a, **kw)
    call = {'q': (view_classifier or IViewClassifier, request_iface, context_iface, view_name, view_types or VIEW_TYPES),
            'slots': [], 'inject': None, 'idx': live.req_calls, 'key': None, 'epoch': live.epoch, 'window': live.split is not None}
    call['full'] = slots_of(call['q'])                  # the scan order the CURRENT resolution orders give
    live.req_calls += 1
    live.calls.append(call)
    prev, live.cur_call = live.cur_call, call
    try:
        res = _orig_find_views(*a, **kw)
        call['res'] = list(res)
        call['res_obj'] = res
    finally:
        live.cur_call = prev
        call['dict'] = live.snapshot()
        if call['key'] is not None and call['key'] in call['dict'] and call['slots']:
            live.key_epoch[call['key']] = live.epoch       # (re)written by this call
        call['prechange_spec'] = live.changed_at.get(id(call['q'][2]), 0) > 0
    return res


class HarnessDeadlock(Exception):
    """the code under test tried to take registry._lock while it was held (it would wait forever)"""


class CaseTimeout(BaseException):
    """a case did not finish within the watchdog time"""


class ILock:
    """registry._lock with the 'write' injection point in front of the acquire and a deadlock watchdog"""

    def __init__(self, real, live):
        self.real, self.live, self.holder = real, live, None

    def held_by_me(self):
        return self.holder == threading.get_ident()

    def acquire(self, blocking=True, timeout=-1):
        if self.live is not None:
            self.live.on_point('write')
        if self.held_by_me() or not self.real.acquire(True, 3.0):
            if self.live is not None:
                self.live.deadlock = True
            raise HarnessDeadlock('registry._lock is requested while it is held')
        self.holder = threading.get_ident()
        return True

    def release(self):
        self.holder = None
        self.real.release()

    def locked(self):
        return self.real.locked()

    def __enter__(self):
        self.acquire()
        return self

    def __exit__(self, *a):
        self.release()
        return False


class IDict(dict):
    live = None

    def get(self, k, d=None):
        if self.live is not None:
            self.live.on_point('probe', k)
        return dict.get(self, k, d)

    def __setitem__(self, k, v):
        if self.live is not None and not self.live.ilock.held_by_me():
            self.live.on_point('write')             # a write without the lock: the point is the write itself
        dict.__setitem__(self, k, v)


class Live:
    def __init__(self, init):
        reset_ifaces()
        self.config = make_config(init)
        self.app = self.config.make_wsgi_app()
        self.reg = reg = self.config.registry
        self.applied = list(init)
        self.calls, self.cur_call, self.req_calls = [], None, 0
        self.armed, self.in_injection, self.split = None, False, None
        self.modlog = []
        # every wrapper forwards `*a, **kw` unchanged and only LOOKS at the arguments it can bind by name; a method that
        # is absent or renamed is simply not wrapped (no pre-emption / no log at that point, noted in the evidence)
        ad = getattr(reg, 'adapters', None)
        self.o_registered = getattr(ad, 'registered', None)
        self.o_register = getattr(ad, 'register', None)
        self.o_unregister = getattr(ad, 'unregister', None)
        for nm, orig, wrapper in (('registered', self.o_registered, self.w_registered), ('register', self.o_register, self.w_register),
                                  ('unregister', self.o_unregister, self.w_unregister)):
            if orig is None:
                _note('registry.adapters.%s is absent: not instrumented' % nm)
            else:
                setattr(ad, nm, wrapper)
        if self.o_registered is None:
            self.o_registered = lambda *a, **kw: None
        self.o_clear = getattr(reg, '_clear_view_lookup_cache', None)
        if self.o_clear is None:
            _note('registry._clear_view_lookup_cache is absent: not instrumented')
        else:
            reg._clear_view_lookup_cache = self.w_clear
        self.deadlock = False
        self.recording = True
        self.epoch, self.key_epoch, self.changed_at = 0, {}, {}
        if isinstance(getattr(reg, '_view_lookup_cache', None), dict):
            d = IDict(reg._view_lookup_cache)
            d.live = self
            reg._view_lookup_cache = d
        else:
            _note('registry._view_lookup_cache is absent or not a dict: not instrumented')
        if hasattr(reg, '_lock'):
            self.ilock = ILock(reg._lock, self)
            reg._lock = self.ilock
        else:
            _note('registry._lock is absent: not instrumented')
            self.ilock = ILock(threading.Lock(), self)
        _LIVE[id(reg)] = self
        pview._find_views = _w_find_views

    def close(self):
        reset_ifaces()
        _LIVE.pop(id(self.reg), None)
        if not _LIVE:
            pview._find_views = _orig_find_views

    # -- the cache clear keeps whatever the real method did; a NEW plain dict is re-wrapped for observation
    def w_clear(self, *a, **kw):
        before = getattr(self.reg, '_view_lookup_cache', None)
        r = self.o_clear(*a, **kw)
        after = getattr(self.reg, '_view_lookup_cache', None)
        if after is not before and type(after) is dict:
            d = IDict(after)
            d.live = self
            self.reg._view_lookup_cache = d
        return r

    # -- lookups
    def on_point(self, point, key=None):
        c, a = self.cur_call, self.armed
        if c is not None and point == 'probe' and not self.in_injection:
            if c['key'] is None:
                c['key'] = key                  # the cache key the code really uses for this query (its first probe)
        if c is not None and a is not None and not self.in_injection and a['f'] == c['idx'] and a['at'] == point:
            self.fire()

    def w_registered(self, *a, **kw):
        c = self.cur_call
        if c is not None and not self.in_injection:
            got = _bind(self.o_registered, a, kw, ['required', 'provided', 'name'])
            if got is None:
                _note('adapters.registered has an unknown signature: no pre-emption inside the scan')
            else:
                arm = self.armed
                if arm is not None and arm['f'] == c['idx'] and arm['at'] == len(c['slots']):
                    self.fire()
                c['slots'].append((tuple(got[0]), got[1], got[2]))
        return self.o_registered(*a, **kw)

    def fire(self):
        if self.ilock.held_by_me():
            return                               # never pre-empt inside the critical section
        a, self.armed = self.armed, None
        n0 = len(self.modlog)
        self.in_injection = True
        try:
            apply_reg(self.config, a['reg'])
        except Exception:
            if not self.deadlock:
                raise
        finally:
            self.in_injection = False
        self.applied.append(a['reg'])
        self.cur_call['inject'] = {'at': a['at'], 'mods': self.modlog[n0:], 'deadlock': self.deadlock}

    # -- registrations
    def _mutation(self, required, provided, name, value, do):
        required = tuple(Interface if r is None else r for r in required)
        sp = self.split
        if sp is not None and not sp['fired'] and sp['after'] == 0:
            self._run_split(sp)
        old = self.o_registered(required, provided, name)
        r = do()
        self.modlog.append(((required, provided, name), value, old))
        if sp is not None and not sp['fired']:
            sp['count'] += 1
            if sp['count'] == sp['after']:
                self._run_split(sp)
        return r

    def _run_split(self, sp):
        if self.ilock.held_by_me():
            return
        sp['fired'] = True
        sp['at_mod'] = len(self.modlog) - sp['n0']
        n0 = len(self.calls)
        self.req_calls = 0
        sp['resp'] = send(self.app, sp['get'])
        sp['calls'] = self.calls[n0:]

    def w_register(self, *a, **kw):
        got = _bind(self.o_register, a, kw, ['required', 'provided', 'name', 'value'])
        if got is None:
            _note('adapters.register has an unknown signature: adapter mutations are not logged')
            return self.o_register(*a, **kw)
        return self._mutation(got[0], got[1], got[2], got[3], lambda: self.o_register(*a, **kw))

    def w_unregister(self, *a, **kw):
        got = _bind(self.o_unregister, a, kw, ['required', 'provided', 'name'])
        if got is None:
            _note('adapters.unregister has an unknown signature: adapter mutations are not logged')
            return self.o_unregister(*a, **kw)
        return self._mutation(got[0], got[1], got[2], None, lambda: self.o_unregister(*a, **kw))

    # -- operations
    def do_get(self, q, inject=None):
        n0 = len(self.calls)
        self.req_calls = 0
        self.armed = dict(inject) if inject else None
        try:
            resp = send(self.app, q)
        finally:
            fired = inject is not None and self.armed is None
            self.armed = None
        return resp, self.calls[n0:], fired

    def do_reg(self, r, split=None):
        n0 = len(self.modlog)
        self.split = {'after': split['after'], 'get': split['get'], 'count': 0, 'fired': False, 'n0': n0} if split else None
        try:
            apply_reg(self.config, r)
        finally:
            sp, self.split = self.split, None
        self.applied.append(r)
        return self.modlog[n0:], sp

    def do_ifc(self, op, specs):
        before = {id(s): tuple(s.__sro__) for s in specs}
        apply_ifc(op)
        self.epoch += 1
        for s in specs:
            if tuple(s.__sro__) != before[id(s)]:
                self.changed_at[id(s)] = self.epoch

    def snapshot_raw(self):
        c = getattr(self.reg, '_view_lookup_cache', None)
        return c if isinstance(c, dict) else {}

    def snapshot(self):
        c = getattr(self.reg, '_view_lookup_cache', None)
        return dict((k, list(v)) for k, v in c.items()) if isinstance(c, dict) else {}


# ------------------------------------------------------------------------------------------------------
# one case through the implementation, with the property oracle

def run_impl(case):
    """returns (trace, violations-without-classification); trace feeds the model"""
    live = Live(case.get('init', []))
    trace, viol = [], []
    try:
        for i, op in enumerate(case['ops']):
            if live.deadlock:
                break
            kind = op['op']
            before_regs = list(live.applied)
            try:
                _run_op(live, i, op, kind, before_regs, trace, viol)
            except Exception:
                if not live.deadlock:
                    raise
            if not live.deadlock:
                # at rest after EVERY op: every entry of the current cache dict is the cold scan of the current
                # registrations (no_stale_entry_at_rest on the implementation, over all keys), and no list ever
                # returned by _find_views has been changed behind the caller's back (cached values are not aliased)
                st = stale_entries(live, trace)
                if st:
                    viol.append({'at': i, 'kind': 'stale-entry', 'impl': st, 'expected': 'every cached list equals a cold scan',
                                 'detail': 'after op %d the current cache dict holds entries that differ from a cold scan of the current registrations: %r' % (i, st)})
                mu = mutated_results(live)
                if mu:
                    viol.append({'at': i, 'kind': 'result-mutated', 'impl': mu, 'expected': 'a returned list is never changed by a later lookup',
                                 'detail': 'after op %d a list returned earlier by _find_views has been mutated by a later lookup: %r' % (i, mu)})
            if live.deadlock:
                viol.append({'at': i, 'kind': 'deadlock', 'impl': 'registry._lock requested while it is held', 'expected': 'the operation completes',
                             'detail': 'op %d never completes (a lookup or a registration concurrent with a lookup waits forever): registry._lock is requested while it is held' % i})
    finally:
        live.close()
    for v in viol:
        if v['kind'] in ('response', 'split-response'):
            st = stale_entries(live, trace)
            if st:
                v['detail'] += '; the current cache dict holds entries that differ from a cold scan of the current registrations (%r)' % (st,)
            break
    return trace, viol, live


def _qname(q):
    return '%s/%s/%s/%r' % (CLASSIFIERS.get(q[0], '?'), getattr(q[1], '__name__', q[1]), getattr(q[2], '__name__', q[2]), q[3])


def stale_entries(live, trace):
    """queries whose entry in the CURRENT cache dict is not the cold scan of the current registrations, plus keys
    nobody looked up"""
    seen, out = {}, []
    for t in trace:
        for c in t.get('calls', []):
            seen[c['key']] = (c['q'], c.get('full') or slots_of(c['q']))     # the LATEST lookup that used the key
    cache = live.snapshot_raw()
    for key in list(cache.keys()):
        if key not in seen:
            out.append('entry under a key no lookup used')
            continue
        q, full = seen[key]
        cold = [v for v in (live.o_registered(s[0], s[1], s[2]) for s in full) if v is not None]
        if [id(x) for x in cache[key]] != [id(x) for x in cold]:
            out.append(_qname(q))
    return sorted(set(out))


def check_lists(live, i, calls, viol):
    """the view list found depends only on the registrations in force and the interfaces the request and the context
    provide AT THAT MOMENT: every lookup — scanned or answered from the cache — returns the cold scan computed here
    from the current resolution orders and the adapter registry, independent of any other application in this process"""
    for c in calls:
        if c.get('inject') is not None or c.get('window') or 'res' not in c:
            continue
        cold = [v for v in (live.o_registered(s[0], s[1], s[2]) for s in c['full']) if v is not None]
        if [id(x) for x in c['res']] != [id(x) for x in cold]:
            viol.append({'at': i, 'kind': 'lookup-list', 'impl': [getattr(x, '__name__', '?') for x in c['res']],
                         'expected': [getattr(x, '__name__', '?') for x in cold],
                         'detail': 'op %d: the lookup %s (%s) returns %r; the registrations in force and the interfaces provided at that moment give %r'
                                   % (i, _qname(c['q']), 'scanned' if c['slots'] else 'from the cache',
                                      [getattr(x, '__name__', '?') for x in c['res']], [getattr(x, '__name__', '?') for x in cold])})
            return


def mutated_results(live):
    return sorted({_qname(c['q']) for c in live.calls if 'res_obj' in c and [id(x) for x in c['res_obj']] != [id(x) for x in c['res']]})


def _run_op(live, i, op, kind, before_regs, trace, viol):
    if True:
        if True:
            if kind == 'get':
                resp, calls, fired = live.do_get(op['req'], op.get('inject'))
                ok = [fresh_response(before_regs, op['req'])]
                if fired:
                    ok.append(fresh_response(list(live.applied), op['req']))
                trace.append({'op': 'get', 'calls': calls, 'fired': fired, 'resp': resp, 'armed': op.get('inject')})
                if not fired:
                    check_lists(live, i, calls, viol)
                if resp not in ok:
                    viol.append({'at': i, 'kind': 'response', 'impl': resp, 'expected': ok,
                                 'detail': 'op %d: the live application answers %r, a freshly built application with the same registrations answers %r'
                                           % (i, resp, ok)})
            elif kind == 'ifc':
                specs = {}
                for c in live.calls:
                    specs[id(c['q'][2])] = c['q'][2]
                live.do_ifc(op, list(specs.values()))
                trace.append({'op': 'ifc'})
            elif kind == 'reg':
                mods, _ = live.do_reg(op['reg'])
                trace.append({'op': 'reg', 'mods': mods, 'dict': live.snapshot()})
            elif kind == 'split':
                mods, sp = live.do_reg(op['reg'], {'after': op['after'], 'get': op['req']})
                t = {'op': 'split', 'mods': mods, 'dict': live.snapshot(), 'fired': sp['fired']}
                if sp['fired']:
                    t.update(after=sp['at_mod'], calls=sp['calls'], resp=sp['resp'])
                    ok = [fresh_response(before_regs, op['req']), fresh_response(list(live.applied), op['req'])]
                    if sp['resp'] not in ok:
                        viol.append({'at': i, 'kind': 'split-response', 'impl': sp['resp'], 'expected': ok,
                                     'inside': 0 < sp['at_mod'] < len(mods),
                                     'detail': 'op %d: a request running after adapter mutation %d of %d of a registration answers %r; before/after the registration a fresh application answers %r'
                                               % (i, sp['at_mod'], len(mods), sp['resp'], ok)})
                trace.append(t)
            elif kind == 'misses':
                sizes, allcalls = [], []
                for n in range(op['n']):
                    q = {'name': 'zz%d_%d' % (i, n), 'ctx': op.get('ctx', 'C')}
                    resp, calls, _ = live.do_get(q)
                    allcalls += calls
                    sizes.append(len(live.snapshot_raw()))
                    exp = fresh_response(before_regs, q)
                    if resp != exp:
                        viol.append({'at': i, 'kind': 'response', 'impl': resp, 'expected': [exp],
                                     'detail': 'op %d: missing URL %d answers %r, fresh application %r' % (i, n, resp, exp)})
                trace.append({'op': 'misses', 'calls': allcalls, 'sizes': sizes})
                if len(set(sizes[1:])) > 1 or (len(sizes) > 1 and sizes[-1] > sizes[0]):
                    viol.append({'at': i, 'kind': 'cache-growth', 'impl': sizes, 'expected': 'constant after the first miss',
                                 'detail': 'op %d: len(registry._view_lookup_cache) over %d distinct missing URLs: %r' % (i, op['n'], sizes)})
            elif kind == 'burst':
                # N distinct failing/odd requests: nothing reachable from the view machinery may grow with N
                allcalls, c50 = [], None
                live.recording = True
                for n in range(BURST_LARGE):
                    q = burst_request(op['req'], op['kind'], i, n)
                    if n == 10:
                        live.recording = False              # the model sees the first ten requests only
                    resp, calls, _ = live.do_get(q)
                    allcalls += calls
                    if n < 10 or n % 50 == 0:
                        exp = fresh_response(before_regs, q)
                        if resp != exp:
                            viol.append({'at': i, 'kind': 'response', 'impl': resp, 'expected': [exp],
                                         'detail': 'op %d: odd request %d (%s) answers %r, fresh application %r' % (i, n, op['kind'], resp, exp)})
                    if n + 1 == BURST_SMALL:
                        c50 = census(live.reg)
                live.recording = True
                c300 = census(live.reg)
                trace.append({'op': 'burst', 'calls': allcalls, 'census': [c50, c300]})
                if c300 - c50 > BURST_SLACK:
                    viol.append({'at': i, 'kind': 'growth', 'impl': [c50, c300], 'expected': 'census(300) - census(50) <= %d' % BURST_SLACK,
                                 'detail': 'op %d: the containers reachable from the view machinery hold %d entries after %d and %d after %d distinct odd requests (%s): they grow with the traffic'
                                           % (i, c50, BURST_SMALL, c300, BURST_LARGE, op['kind'])})
            else:
                raise ValueError('bad op %r' % (op,))


def census(registry, max_depth=8):
    """deterministic count of the entries of all plain containers (list, tuple, dict, set, frozenset, deque) reachable
    from the registry's view machinery: the values of `_view_lookup_cache` and every object registered as IView /
    ISecuredView / IMultiView (MultiView instances and derived view functions: their `__dict__` and closure cells),
    each object once, to a bounded depth; leaves (str, numbers, interfaces, classes, modules) are not entered"""
    import collections, types
    seen, total = set(), 0
    roots = [list((getattr(registry, '_view_lookup_cache', None) or {}).values())]
    roots += [a.factory for a in registry.registeredAdapters() if a.provided in VIEW_TYPES]
    stack = [(r, 0) for r in roots]
    while stack:
        o, d = stack.pop()
        if id(o) in seen or d > max_depth:
            continue
        seen.add(id(o))
        if isinstance(o, (str, bytes, int, float, bool, type(None), type, types.ModuleType)) or isinstance(o, Interface.__class__):
            continue
        if isinstance(o, dict):
            total += len(o)
            stack += [(v, d + 1) for v in o.values()] + [(k, d + 1) for k in o.keys()]
        elif isinstance(o, (list, tuple, set, frozenset, collections.deque)):
            total += len(o)
            stack += [(v, d + 1) for v in o]
        else:
            mod = getattr(type(o), '__module__', '') or ''
            if type(o).__name__ in ('Registry', 'Configurator', 'Introspector') or mod.startswith('zope.'):
                continue                                    # not view machinery: the registry itself, zope internals
            dd = getattr(o, '__dict__', None)
            if isinstance(dd, dict) and (isinstance(o, (types.FunctionType, types.MethodType)) or mod.startswith('pyramid.')
                                         or mod.startswith('harness')):
                stack.append((dd, d + 1))
            for cell in (getattr(o, '__closure__', None) or ()):
                try:
                    stack.append((cell.cell_contents, d + 1))
                except ValueError:
                    pass
            f = getattr(o, '__func__', None)
            if f is not None:
                stack.append((f, d + 1))
    return total


BURST_SMALL, BURST_LARGE, BURST_SLACK = 50, 300, 8


def burst_request(base, kind, i, n):
    q = dict(base)
    if kind == 'url':
        q['name'] = 'zb%d_%d' % (i, n)
        q.pop('route', None)
    elif kind == 'accept':
        q['accept'] = 'application/x-odd%d;q=0.%d' % (n, n % 9 + 1)
    elif kind == 'query':
        q['xq'] = 'zq%d' % n
    else:
        q['hdr'] = 'odd-%d' % n
    return q


def collisions(trace):
    """cache keys used by two different queries in this case (the input class of the FIXED finding F-C15a: before
    fc67717 the key omitted classifier and view types; with the key as it is now this set is always empty)"""
    seen, out = {}, set()
    for t in trace:
        for c in t.get('calls', []):
            if seen.setdefault(c['key'], c['q']) != c['q']:
                out.add(c['key'])
    return out


def classify(case, trace, viol):
    """no recorded (known) finding is left for C15: F-C15a (cache key) and F-C15b (multiview conversion unregistered
    before it registered) are both FIXED in /repo, so every deviation is reported as a violation"""
    return [{'case': case, 'impl': v['impl'], 'expected': v['expected'], 'detail': v['detail'], 'kind': v['kind'], 'at': v['at']}
            for v in viol]


# ------------------------------------------------------------------------------------------------------
# trace -> model case, comparison

class Ids:
    def __init__(self):
        self.q, self.k, self.s, self.v, self.keep = {}, {}, {}, {}, []

    def _id(self, tab, key):
        if key not in tab:
            tab[key] = len(tab)
        return tab[key]

    def view(self, obj):
        self.keep.append(obj)
        return self._id(self.v, id(obj))

    def slot(self, t):
        return self._id(self.s, t)

    def key(self, t):
        return self._id(self.k, t)


def slots_of(q):
    cl, riface, ciface, name, vtypes = q
    return [((cl, rt, ct), vt, name) for rt, ct in itertools.product(riface.__sro__, ciface.__sro__) for vt in vtypes]


def to_model(trace, live):
    """(model case, expectations per model op, harness-side problems)"""
    ids = Ids()
    problems = []
    queries = {}

    def qid(q, key=None, full=None):
        # a query is the arguments of _find_views TOGETHER WITH the scan order the resolution orders gave when it
        # ran: after an interface change the same arguments are another query of the model (same cache key)
        full = slots_of(q) if full is None else full
        qk = (q, tuple(full))
        if qk not in queries:
            queries[qk] = (len(queries), ids.key(key), [ids.slot(s) for s in full], full)
        elif ids.key(key) != queries[qk][1]:
            problems.append('one query used two different cache keys')
        return queries[qk][0]

    def mods_json(mods):
        return [[ids.slot(s), None if v is None else ids.view(v)] for s, v, _old in mods]

    def dict_json(d):
        return sorted([ids.key(k), [ids.view(x) for x in v]] for k, v in d.items())

    ops, exp = [], []
    all_mods = []

    def add_calls(calls, armed, fired):
        for c in calls:
            n = qid(c['q'], c['key'], c.get('full'))
            full = c.get('full') or slots_of(c['q'])
            if c['slots'] and c['slots'] != full[:len(c['slots'])]:
                problems.append('observed adapter lookups are not the SRO-product prefix for view name %r' % (c['q'][3],))
            inj = None
            if c['inject'] is not None:
                all_mods.extend(c['inject']['mods'])
                inj = {'at': c['inject']['at'], 'mods': mods_json(c['inject']['mods'])}
            elif armed and not fired and armed['f'] == c['idx']:
                inj = {'at': armed['at'], 'mods': []}
            ops.append({'op': 'lookup', 'q': n, 'inject': inj})
            exp.append({'res': [[ids.view(x) for x in c.get('res', [])]], 'inj': c['inject'] is not None,
                        'cur': dict_json(c['dict'])})

    for t in trace:
        if t['op'] == 'get':
            add_calls(t['calls'], t.get('armed'), t['fired'])
        elif t['op'] in ('misses', 'burst'):
            add_calls(t['calls'], None, False)
        elif t['op'] == 'ifc':
            continue                                        # no step of the machine: later lookups are other queries
        elif t['op'] == 'reg' or (t['op'] == 'split' and not t['fired']):
            all_mods.extend(t['mods'])
            ops.append({'op': 'reg', 'mods': mods_json(t['mods'])})
            exp.append({'res': [], 'inj': False, 'cur': dict_json(t['dict'])})
        else:
            all_mods.extend(t['mods'])
            ops.append({'op': 'split', 'mods': mods_json(t['mods']), 'after': t['after'], 'qs': [qid(c['q'], c['key'], c.get('full')) for c in t['calls']]})
            exp.append({'res': [[ids.view(x) for x in c.get('res', [])] for c in t['calls']], 'inj': True,
                        'cur': dict_json(t['dict'])})
    # initial registrations of every slot any query scans: the old value of its first logged mutation, else
    # its value now
    first_old = {}
    for s, _v, old in all_mods:
        first_old.setdefault(s, old)
    regs = []
    for s, sid in list(ids.s.items()):
        v = first_old[s] if s in first_old else live.o_registered(s[0], s[1], s[2])
        if v is not None:
            regs.append([sid, ids.view(v)])
    mcase = {'queries': [[n, k, sl] for (n, k, sl, _f) in queries.values()], 'regs': sorted(regs), 'ops': ops}
    return mcase, exp, problems


def compare(mout, exp):
    if mout is None:
        return None
    if 'error' in mout:
        return 'model error: %s' % mout['error']
    for i, (m, e) in enumerate(zip(mout['ops'], exp)):
        for f in ('res', 'inj', 'cur'):
            if m[f] != e[f]:
                return 'model op %d field %s: impl %s model %s' % (i, f, json.dumps(e[f]), json.dumps(m[f]))
    return None


def _alarm(signum, frame):
    raise CaseTimeout()


def check_case(case, ctx, want_model=True):
    main = threading.current_thread() is threading.main_thread()
    if main:
        old = signal.signal(signal.SIGALRM, _alarm)
        signal.setitimer(signal.ITIMER_REAL, 30.0)
    try:
        trace, viol, live = run_impl(case)
    except CaseTimeout:
        _LIVE.clear()
        pview._find_views = _orig_find_views
        v = [{'case': case, 'impl': 'no result after 30 s', 'expected': 'the operation sequence completes', 'kind': 'hang', 'at': -1,
              'detail': 'the operation sequence hangs (a registration concurrent with a lookup never completes)'}]
        return v, {'trace': [], 'mcase': {'queries': [], 'regs': [], 'ops': []}, 'exp': [], 'problems': []}
    finally:
        if main:
            signal.setitimer(signal.ITIMER_REAL, 0)
            signal.signal(signal.SIGALRM, old)
    viol = classify(case, trace, viol)
    mcase, exp, problems = to_model(trace, live)
    info = {'trace': trace, 'mcase': mcase, 'exp': exp, 'problems': problems}
    return viol, info


# ------------------------------------------------------------------------------------------------------
# generators

INJ_POINTS = ['probe', 'write'] + list(range(0, 30))


ROUTES = [None, None, None, None, None, 'g', 'g', 'g', 'r']
OFFERS = ['text/html', 'application/json', 'text/plain']
ACCEPTS = [None, None, None, 'application/json', 'application/json', 'text/html', 'text/html, application/json;q=0.5',
           '*/*', 'image/png', 'text/*;q=0.3, application/json;q=0.7']


def gen_reg(rng, tag, allow_e=True):
    r = rng.random()
    if r < 0.05:
        return {'kind': 'nf', 'tag': tag}
    if r < 0.15 and allow_e:
        reg = {'kind': 'exc', 'tag': tag}
        if rng.random() < 0.5:
            reg['context'] = rng.choice(['Exception', 'E2', 'E'])
        if rng.random() < 0.4:
            reg['route'] = rng.choice(['g', 'r'])
        return reg
    if r < 0.22 and allow_e:
        # a PLAIN add_view whose context is an exception class: registers under both classifiers, name '' is the one
        # exception view lookups use
        reg = {'kind': 'view', 'tag': tag, 'context': rng.choice(['E', 'E2', 'E2']), 'name': rng.choice(['', '', '', 'x'])}
        if rng.random() < 0.3:
            reg['route'] = rng.choice(['g', 'r'])
        return reg
    ctxs = [None, None, 'A', 'B', 'B', 'C', 'C', 'IFoo', 'IFoo', 'IBar'] + (['E'] if allow_e else [])
    reg = {'kind': 'view', 'tag': tag, 'context': rng.choice(ctxs), 'name': rng.choice(['', '', 'x', 'x', 'y']),
           'param': rng.choice([None, None, None, 'p', 'q'])}
    rt = rng.choice(ROUTES)
    if rt:
        reg['route'] = rt
    if rng.random() < 0.3:
        reg['accept'] = rng.choice(OFFERS)
    if rng.random() < 0.25:
        reg['method'] = rng.choice(['GET', 'POST'])
    return reg


def gen_req(rng, earlier, allow_e=True):
    r0 = rng.random()
    if earlier and r0 < 0.35:
        q = dict(rng.choice(earlier))
        if rng.random() < 0.3:                            # same URL and the same Accept header string, other method
            q['method'] = 'POST' if q.get('method') != 'POST' else 'GET'
        return q
    if earlier and r0 < 0.65:
        # the same context and view name through another request interface
        q = dict(rng.choice(earlier))
        others = [x for x in (None, 'g', 'r') if x != _route(q)]
        rt = rng.choice(others + ['g'] if _route(q) != 'g' else others)
        q.pop('route', None)
        if rt:
            q['route'] = rt
        return q
    r = rng.random()
    q = {'ctx': rng.choice(['A', 'B', 'C', 'C', 'C'] + (['E'] if allow_e else []))}
    if r < 0.12:
        q['name'] = rng.choice(['boom', 'boom', 'boom2'])
    elif r < 0.20:
        q['name'] = 'nope'
    else:
        q['name'] = rng.choice(['', '', 'x', 'x', 'y'])
    rt = rng.choice(ROUTES)
    if rt:
        q['route'] = rt
    if rng.random() < 0.3:
        q['q'] = rng.choice(['p', 'q'])
    a = rng.choice(ACCEPTS)
    if a:
        q['accept'] = a
    if rng.random() < 0.25:
        q['method'] = 'POST'
    return q


def gen_ifc(rng):
    how = rng.choice(['classImplements', 'classImplements', 'classImplementsOnly', 'alsoProvides', 'alsoProvides',
                      'noLongerProvides', 'directlyProvides'])
    ifs = rng.choice([['IFoo'], ['IFoo'], ['IBar'], ['IFoo', 'IBar'], []]) if how in ('classImplementsOnly', 'directlyProvides') \
        else rng.choice([['IFoo'], ['IFoo'], ['IBar']])
    return {'op': 'ifc', 'how': how, 'cls': rng.choice(['A', 'B', 'C', 'C']), 'ifaces': ifs}


def gen_sibling(rng, tag, regs):
    """a registration for the slot of an earlier registration: a member added to its multiview (other predicates,
    with or without accept) or a replacement of that member (identical predicates: same phash)"""
    views = [r for r in regs if r.get('kind', 'view') == 'view']
    if not views:
        return None
    reg = dict(rng.choice(views))
    reg['tag'] = tag
    r = rng.random()
    if r < 0.35:
        return reg                                        # replacement
    for k in ('param', 'accept', 'method'):
        reg.pop(k, None)
    if r < 0.6:
        reg['method'] = rng.choice(['POST', 'GET'])      # a member without accept
    elif r < 0.85:
        reg['accept'] = rng.choice(OFFERS)
        if rng.random() < 0.5:
            reg['method'] = rng.choice(['POST', 'GET'])
    else:
        reg['param'] = rng.choice(['p', 'q'])
    return reg


def gen_inject(rng, tag, req, allow_e):
    reg = gen_reg(rng, tag, allow_e)
    if rng.random() < 0.6 and reg.get('kind') == 'view' and req.get('name') not in ('boom', 'boom2', 'nope'):
        reg['name'] = req.get('name', '')                      # aim at the URL being looked up
    r = rng.random()
    at = 'probe' if r < 0.12 else 'write' if r < 0.27 else rng.choice([0, 1, 2, 3, 4, 5, 6, 7, 8, 9, 10, 11, 12, 14, 17, 20, 26, 29])
    return {'f': 0 if rng.random() < 0.8 else 1, 'at': at, 'reg': reg}


def gen_case(rng, maxops=8):
    allow_e = rng.random() < 0.35
    tagn = [0]

    def tag():
        tagn[0] += 1
        return 'v%d' % tagn[0]
    init = [gen_reg(rng, tag(), allow_e) for _ in range(rng.choice([0, 1, 1, 2, 2, 3]))]
    if init and rng.random() < 0.5:
        s = gen_sibling(rng, tag(), init)                 # start with a multiview
        if s:
            init.append(s)
    regs_all = list(init)
    ops, earlier = [], []
    n = rng.randint(2, maxops)

    def aimed_reg(q):
        reg = None
        if regs_all and rng.random() < 0.45:
            reg = gen_sibling(rng, tag(), regs_all)
        if reg is None:
            reg = gen_reg(rng, tag(), allow_e)
            if q is not None and reg.get('kind') == 'view' and q.get('name') not in ('boom', 'boom2', 'nope') and rng.random() < 0.7:
                reg['name'] = q.get('name', '')
        regs_all.append(reg)
        return reg

    while len(ops) < n:
        r = rng.random()
        if r < 0.30:
            q = gen_req(rng, earlier, allow_e)
            earlier.append(q)
            ops.append({'op': 'get', 'req': q})
        elif r < 0.52:
            q = gen_req(rng, earlier, allow_e)
            earlier.append(q)
            inj = gen_inject(rng, tag(), q, allow_e)
            if regs_all and rng.random() < 0.35:
                inj['reg'] = gen_sibling(rng, inj['reg']['tag'], regs_all) or inj['reg']
            regs_all.append(inj['reg'])
            ops.append({'op': 'get', 'req': q, 'inject': inj})
            if rng.random() < 0.7 and len(ops) < n:
                ops.append({'op': 'get', 'req': dict(q)})
        elif r < 0.72:
            ops.append({'op': 'reg', 'reg': aimed_reg(rng.choice(earlier) if earlier else None)})
            if earlier and rng.random() < 0.7 and len(ops) < n:
                q = dict(rng.choice(earlier))             # the same request (same Accept string) after the registration
                if rng.random() < 0.3:
                    q['method'] = 'POST' if q.get('method') != 'POST' else 'GET'
                ops.append({'op': 'get', 'req': q})
        elif r < 0.88:
            q = gen_req(rng, earlier, allow_e)
            earlier.append(q)
            ops.append({'op': 'split', 'reg': aimed_reg(q), 'after': rng.choice([0, 0, 1, 1, 2, 3]), 'req': q})
            if rng.random() < 0.7 and len(ops) < n:
                ops.append({'op': 'get', 'req': dict(q)})
        elif r < 0.93:
            # what a context class / its instances provide changes between two requests; the next lookups come after a
            # miss, after a clearing registration, or on a warm entry
            ops.append(gen_ifc(rng))
            if rng.random() < 0.5 and len(ops) < n:
                ops.append({'op': 'reg', 'reg': aimed_reg(None)})
            if earlier and len(ops) < n:
                ops.append({'op': 'get', 'req': dict(rng.choice(earlier))})
        elif r < 0.975:
            ops.append({'op': 'misses', 'n': rng.choice([3, 5, 8]), 'ctx': rng.choice(['A', 'C'])})
        else:
            base = dict(rng.choice(earlier)) if earlier else {'name': 'x', 'ctx': 'C'}
            ops.append({'op': 'burst', 'kind': rng.choice(['url', 'accept', 'accept', 'query', 'header']), 'req': base})
    return {'init': init, 'ops': ops}


def enumerate_replace():
    """warm cache ; replacement at run time ; the same request again — through every request interface: plain, the
    use_global_views route answered by a SITE-WIDE view, routed views that raise answered by a SITE-WIDE exception view
    (both routes), the 404 path; replacements: same discriminator, predicate sibling (multiview), more specific context,
    replaced exception view, notfound view, a plain add_view for an exception class (more specific than / equal to the cached
    exception view's context, unrouted and route-bound); cold variant and a second unrelated request in between"""
    init = [{'kind': 'view', 'tag': 'G0', 'context': None, 'name': ''}, {'kind': 'view', 'tag': 'G1', 'context': None, 'name': 'x'},
            {'kind': 'exc', 'tag': 'X0'}]
    reqs = [{'name': 'x', 'ctx': 'C'}, {'name': 'x', 'ctx': 'C', 'route': 'g'}, {'name': '', 'ctx': 'B', 'route': 'g'},
            {'name': 'boom', 'ctx': 'C'}, {'name': 'boom', 'ctx': 'C', 'route': 'g'}, {'name': 'boom', 'ctx': 'C', 'route': 'r'},
            {'name': 'boom2', 'ctx': 'C'}, {'name': 'boom2', 'ctx': 'C', 'route': 'g'}, {'name': 'boom2', 'ctx': 'C', 'route': 'r'},
            {'name': 'nope', 'ctx': 'C', 'route': 'r'}]
    regs = [{'kind': 'view', 'tag': 'N1', 'context': None, 'name': 'x'}, {'kind': 'view', 'tag': 'N0', 'context': None, 'name': ''},
            {'kind': 'view', 'tag': 'N2', 'context': None, 'name': 'x', 'param': 'p'}, {'kind': 'view', 'tag': 'N3', 'context': 'A', 'name': 'x'},
            {'kind': 'exc', 'tag': 'X1'}, {'kind': 'nf', 'tag': 'F1'},
            # a PLAIN add_view whose context is an exception class (registered under BOTH classifiers): more specific than
            # the cached exception view's context, the same context, and route-bound
            {'kind': 'view', 'tag': 'P2', 'context': 'E2', 'name': ''}, {'kind': 'view', 'tag': 'P0', 'context': 'E', 'name': ''},
            {'kind': 'view', 'tag': 'P3', 'context': 'E2', 'name': '', 'route': 'r'}, {'kind': 'exc', 'tag': 'X2', 'context': 'E2'}]
    for q in reqs:
        for reg in regs:
            yield {'init': init, 'ops': [{'op': 'get', 'req': q}, {'op': 'reg', 'reg': reg}, {'op': 'get', 'req': q}]}
            yield {'init': init, 'ops': [{'op': 'reg', 'reg': reg}, {'op': 'get', 'req': q}]}
            yield {'init': init, 'ops': [{'op': 'get', 'req': q}, {'op': 'get', 'req': reqs[0]}, {'op': 'reg', 'reg': reg},
                                         {'op': 'get', 'req': reqs[0]}, {'op': 'get', 'req': q}]}


def enumerate_ifc():
    """what the context provides changes between two requests, by each of the five declaration calls, at class and
    instance level, adding and removing; lookups before (miss / hit / none) and after, the latter directly (after a
    miss) or after a clearing registration (unrelated or for the same name)"""
    S = {'kind': 'view', 'tag': 'S', 'context': 'IFoo', 'name': 'x'}
    G = {'kind': 'view', 'tag': 'G', 'context': None, 'name': 'x'}
    T = {'kind': 'view', 'tag': 'T', 'context': 'IBar', 'name': 'x'}
    q = {'name': 'x', 'ctx': 'C'}
    adds = [{'op': 'ifc', 'how': 'classImplements', 'cls': 'C', 'ifaces': ['IFoo']},
            {'op': 'ifc', 'how': 'classImplements', 'cls': 'A', 'ifaces': ['IBar']},
            {'op': 'ifc', 'how': 'classImplementsOnly', 'cls': 'C', 'ifaces': ['IFoo']},
            {'op': 'ifc', 'how': 'alsoProvides', 'cls': 'C', 'ifaces': ['IFoo']},
            {'op': 'ifc', 'how': 'directlyProvides', 'cls': 'C', 'ifaces': ['IBar']}]
    removes = [{'op': 'ifc', 'how': 'classImplementsOnly', 'cls': 'C', 'ifaces': []},
               {'op': 'ifc', 'how': 'noLongerProvides', 'cls': 'C', 'ifaces': ['IFoo']},
               {'op': 'ifc', 'how': 'directlyProvides', 'cls': 'C', 'ifaces': []},
               {'op': 'ifc', 'how': 'classImplementsOnly', 'cls': 'B', 'ifaces': []}]
    mids = [[], [{'op': 'reg', 'reg': {'kind': 'view', 'tag': 'U', 'context': 'A', 'name': 'y'}}],
            [{'op': 'reg', 'reg': {'kind': 'view', 'tag': 'V', 'context': 'B', 'name': 'x', 'param': 'p'}}]]
    get = {'op': 'get', 'req': q}
    for init in ([S], [G, S], [G, S, T], [{'kind': 'view', 'tag': 'SB', 'context': 'B', 'name': 'x'}, S]):
        for pre in ([], [get]):
            for a in adds:
                for mid in mids:
                    yield {'init': init, 'ops': pre + [a] + mid + [get, get]}
                    for r in removes:
                        yield {'init': init, 'ops': [a] + pre + [r] + mid + [get]}


def enumerate_multiview():
    """small-scope enumeration on ONE slot (no context, name 'x') holding a multiview with accept= members: (optional
    request with Accept header H, method m) ; a registration that adds a member without accept / with accept, or
    replaces a member (same phash) ; the request with the SAME header string H again, GET and POST ; and one burst of
    distinct odd Accept headers against the multiview"""
    members = {'html': {'kind': 'view', 'tag': 'html', 'context': None, 'name': 'x', 'accept': 'text/html', 'method': 'GET'},
               'json': {'kind': 'view', 'tag': 'json', 'context': None, 'name': 'x', 'accept': 'application/json', 'method': 'GET'},
               'plain': {'kind': 'view', 'tag': 'plain', 'context': None, 'name': 'x', 'param': 'p'}}
    inits = [[members['html'], members['json']], [members['json'], members['plain']], [members['html'], members['json'], members['plain']]]
    regs = [{'kind': 'view', 'tag': 'post', 'context': None, 'name': 'x', 'method': 'POST'},
            {'kind': 'view', 'tag': 'txt', 'context': None, 'name': 'x', 'accept': 'text/plain'},
            {'kind': 'view', 'tag': 'json2', 'context': None, 'name': 'x', 'accept': 'application/json', 'method': 'GET'},
            {'kind': 'view', 'tag': 'any', 'context': None, 'name': 'x'}]
    headers = ['application/json', 'text/html, application/json;q=0.5', 'text/plain', None]
    for init in inits:
        for reg in regs:
            for h in headers:
                for m1 in ('GET', 'POST'):
                    first = {'name': 'x', 'ctx': 'C', 'method': m1}
                    if h:
                        first['accept'] = h
                    for warm in (True, False):
                        ops = [{'op': 'get', 'req': first}] if warm else []
                        ops.append({'op': 'reg', 'reg': reg})
                        for m2 in ('GET', 'POST'):
                            q = dict(first, method=m2)
                            ops.append({'op': 'get', 'req': q})
                        yield {'init': init, 'ops': ops}
        yield {'init': init, 'ops': [{'op': 'get', 'req': {'name': 'x', 'ctx': 'C', 'accept': 'application/json'}},
                                     {'op': 'burst', 'kind': 'accept', 'req': {'name': 'x', 'ctx': 'C'}}]}
        yield {'init': init, 'ops': [{'op': 'burst', 'kind': 'query', 'req': {'name': 'x', 'ctx': 'C', 'accept': 'text/html'}}]}


def enumerate_small(limit_points=None):
    """small-scope enumeration: (optional warm-up) ; request pre-empted by a registration at EVERY internal
    step of its first / second lookup ; the same request again.  Also: registrar pre-empted after every
    mutation; the same request again."""
    inits = [[], [{'kind': 'view', 'tag': 'i1', 'context': 'B', 'name': 'x'}],
             [{'kind': 'view', 'tag': 'i1', 'context': 'A', 'name': 'x'}, {'kind': 'view', 'tag': 'i2', 'context': None, 'name': 'x', 'param': 'p'}]]
    regs = [{'kind': 'view', 'tag': 'n1', 'context': 'B', 'name': 'x'},
            {'kind': 'view', 'tag': 'n2', 'context': 'B', 'name': 'x', 'param': 'p'},
            {'kind': 'view', 'tag': 'n3', 'context': 'C', 'name': 'x'},
            {'kind': 'view', 'tag': 'n4', 'context': None, 'name': 'x'},
            {'kind': 'nf', 'tag': 'n5'}]
    reqs = [{'name': 'x', 'ctx': 'C'}, {'name': 'x', 'ctx': 'B', 'q': 'p'}, {'name': 'nope', 'ctx': 'C'}]
    points = limit_points or (['probe', 'write'] + list(range(0, 30)))
    for init in inits:
        for reg in regs:
            for q in reqs:
                for warm in (False, True):
                    pre = [{'op': 'get', 'req': q}] if warm else []
                    for f in (0, 1):
                        if f == 1 and q['name'] != 'nope':
                            continue
                        for at in points:
                            yield {'init': init, 'ops': pre + [{'op': 'get', 'req': q, 'inject': {'f': f, 'at': at, 'reg': reg}},
                                                              {'op': 'get', 'req': q}]}
                    for m in (0, 1, 2, 3):
                        yield {'init': init, 'ops': pre + [{'op': 'split', 'reg': reg, 'after': m, 'req': q}, {'op': 'get', 'req': q}]}
                    yield {'init': init, 'ops': pre + [{'op': 'reg', 'reg': reg}, {'op': 'get', 'req': q}, {'op': 'misses', 'n': 4, 'ctx': 'C'}]}


def enumerate_ifaces(max_gets=5, max_with_reg=4):
    """small-scope enumeration over 2 request interfaces (plain IRequest, the use_global_views route `g`) x 2 view
    names x {lookups, registrations}: every sequence of <= max_gets lookups on an application that has a global and a
    route-bound view for both names, and every sequence of <= max_with_reg lookups with one registration (a global or
    a route-bound replacement for name '') inserted at every position — all orders, so every warm/cold combination"""
    init = [{'kind': 'view', 'tag': 'G0', 'context': None, 'name': ''}, {'kind': 'view', 'tag': 'G1', 'context': None, 'name': 'x'},
            {'kind': 'view', 'tag': 'R0', 'context': None, 'name': '', 'route': 'g'}, {'kind': 'view', 'tag': 'R1', 'context': 'B', 'name': 'x', 'route': 'g'}]
    gets = [{'op': 'get', 'req': {'name': n, 'ctx': 'C', **({'route': 'g'} if rt else {})}} for n in ('', 'x') for rt in (None, 'g')]
    regs = [{'op': 'reg', 'reg': {'kind': 'view', 'tag': 'N0', 'context': 'A', 'name': ''}},
            {'op': 'reg', 'reg': {'kind': 'view', 'tag': 'N1', 'context': 'A', 'name': '', 'route': 'g'}}]
    for L in range(1, max_gets + 1):
        for seq in itertools.product(gets, repeat=L):
            yield {'init': init, 'ops': [dict(o) for o in seq]}
    for L in range(1, max_with_reg + 1):
        for seq in itertools.product(gets, repeat=L):
            for pos in range(L + 1):
                for r in regs:
                    ops = [dict(o) for o in seq]
                    ops.insert(pos, dict(r))
                    yield {'init': init, 'ops': ops}


# ------------------------------------------------------------------------------------------------------
# non-triviality, distribution

def features(case, info):
    f = set()
    trace = info['trace']
    warmed = set()
    for t in trace:
        for c in t.get('calls', []):
            if not c['slots'] and c.get('res'):
                f.add('warm_hit')
            if c['inject'] is not None:
                f.add('inject_' + ('scan' if isinstance(c['inject']['at'], int) else c['inject']['at']))
                if len(c['inject']['mods']) > 1:
                    f.add('inject_multistep_reg')
            warmed.add(c['q'])
        if t['op'] == 'split' and t['fired']:
            f.add('lookup_inside_registration')
            if 0 < t['after'] < len(t['mods']):
                f.add('lookup_strictly_inside_multistep')
        if t['op'] in ('reg', 'split') and warmed:
            f.add('registration_after_warmup')
        if t['op'] == 'misses':
            f.add('miss_burst')
        if t['op'] == 'burst':
            f.add('odd_burst')
        if t['op'] == 'ifc':
            f.add('interface_change')
        if t['op'] == 'get' and any(c.get('prechange_spec') for c in t.get('calls', [])):
            f.add('lookup_after_interface_change_of_its_context')
        if t['op'] == 'get' and t.get('accept_on_multiview'):
            f.add('accept_header_on_multiview')
    if collisions(trace):
        f.add('key_collision')
    byname = {}
    for tt in trace:
        for c in tt.get('calls', []):
            byname.setdefault((c['q'][0], c['q'][2], c['q'][3]), set()).add(c['q'][1])
    if any(len(v) > 1 for v in byname.values()):
        f.add('same_context_and_name_through_two_request_ifaces')
    return f


NONTRIVIAL = {'interface_change', 'lookup_after_interface_change_of_its_context', 'same_context_and_name_through_two_request_ifaces', 'warm_hit', 'inject_scan', 'inject_probe', 'inject_write', 'lookup_inside_registration', 'registration_after_warmup'}


def mixed_kind(m):
    """before / after / both / mixed, for an injected model lookup"""
    r, b, a = m['res'][0], m['before'][0], m['after'][0]
    if r == b and r == a:
        return 'both'
    if r == b:
        return 'before'
    if r == a:
        return 'after'
    return 'mixed'


def run_cases(ctx, cases, dist, want_samples=0):
    mism, viol, agree, nontriv, seen = [], [], 0, set(), set()
    infos = []
    for n, case in enumerate(cases):
        v, info = check_case(case, ctx)
        infos.append(info)
        viol += v
        if any(w['kind'] == 'hang' for w in v):
            cases = cases[:n + 1]                   # every further case would wait for the watchdog too
            dist['stopped_after_hang'] = True
            break
        for p in info['problems']:
            mism.append({'case': case, 'impl': p, 'model': 'harness-side cross-check'})
    model = ctx.run_model([i['mcase'] for i in infos]) if ctx.driver_path else [None] * len(cases)
    for case, info, mo in zip(cases, infos, model):
        d = compare(mo, info['exp'])
        if d:
            mism.append({'case': case, 'impl': d, 'model': 'see impl field'})
        elif mo is not None:
            agree += 1
        key = vfutil.canon(case)
        fs = features(case, info)
        for x in fs:
            vfutil.bump(dist['features'], x)
        vfutil.bump(dist['ops_per_case'], len(case['ops']))
        vfutil.bump(dist['find_views_calls'], min(len(info['mcase']['ops']), 40) // 5 * 5)
        if mo is not None and 'ops' in mo:
            for m, o in zip(mo['ops'], info['mcase']['ops']):
                if o['op'] == 'lookup' and m['inj']:
                    vfutil.bump(dist['injected_lookup_result'], mixed_kind(m))
                if not m['coh']:
                    vfutil.bump(dist['model_incoherent_points'], 'key_collision' if 'key_collision' in fs else 'other')
        if key not in seen:
            seen.add(key)
            if fs & NONTRIVIAL:
                nontriv.add(key)
    return mism, viol, agree, len(nontriv), len(seen)


def shrink_violation(v, ctx):
    fid = v.get('finding')
    if v.get('kind') == 'hang':
        return v                                    # every probe would cost a watchdog period

    def still(c):
        try:
            if not isinstance(c, dict) or 'ops' not in c or not c['ops']:
                return False
            vs, _ = check_case(c, ctx)
            return any(w.get('finding') == fid and w.get('kind') == v.get('kind') for w in vs)
        except Exception:
            return False
    small = vfutil.shrink(v['case'], still, max_steps=150)
    vs, _ = check_case(small, ctx)
    for w in vs:
        if w.get('finding') == fid and w.get('kind') == v.get('kind'):
            return w
    return v


WITNESS_A = {'init': [{'kind': 'view', 'tag': 'a1', 'context': 'A', 'name': 'x'}, {'kind': 'view', 'tag': 'b1', 'context': 'B', 'name': 'x'}],
             'ops': [{'op': 'split', 'reg': {'kind': 'view', 'tag': 'b2', 'context': 'B', 'name': 'x', 'param': 'p'}, 'after': 1,
                      'req': {'name': 'x', 'ctx': 'C'}}]}
WITNESS_B = {'init': [{'kind': 'view', 'tag': 'any', 'context': None, 'name': ''}, {'kind': 'exc', 'tag': 'exc'}],
             'ops': [{'op': 'get', 'req': {'name': '', 'ctx': 'E'}}, {'op': 'get', 'req': {'name': 'boom', 'ctx': 'C'}}]}


def run(ctx):
    rng = ctx.rng
    dist = {'features': {}, 'ops_per_case': {}, 'find_views_calls': {}, 'injected_lookup_result': {}, 'model_incoherent_points': {}}
    cases = [c for _, c in ctx.corpus()]
    ncorpus = len(cases)
    n = ctx.n(260, 5000)
    cases += [gen_case(rng) for _ in range(n)]
    notes = []
    exhaustive = False
    if ctx.tier == 'thorough':
        small = list(enumerate_small())
        cases += small
        exhaustive = True
        notes.append('small-scope enumeration: %d cases (3 initial apps x 5 registrations x 3 URLs x cold/warm x every injection point of the first/second lookup, every registrar pre-emption point)' % len(small))
        ifcs = list(enumerate_ifc())
        cases += ifcs
        notes.append('interface-change enumeration: %d cases (4 applications x 5 declaration calls adding x 4 removing x lookup before or not x directly / after a clearing registration)' % len(ifcs))
        rpl = list(enumerate_replace())
        cases += rpl
        notes.append('replacement enumeration: %d cases (7 requests through every request interface x 6 run-time replacements x warm / cold / interleaved)' % len(rpl))
        mvc = list(enumerate_multiview())
        cases += mvc
        notes.append('multiview enumeration: %d cases (3 multiviews with accept members x 4 registrations (add without/with accept, replace, catch-all) x 4 Accept headers x methods x warm/cold, + odd-request bursts)' % len(mvc))
        ifc = list(enumerate_ifaces(5, 4))
        cases += ifc
        notes.append('request-interface enumeration: %d cases (2 request ifaces x 2 names: all lookup sequences <= 5, all sequences <= 4 with one registration at every position)' % len(ifc))
    else:
        ifc = list(enumerate_ifaces(3, 2))
        longer = list(enumerate_ifaces(4, 3))
        cases += ifc + [longer[i] for i in sorted(rng.sample(range(len(longer)), 60))]
        mvc = list(enumerate_multiview())
        cases += [mvc[i] for i in sorted(rng.sample(range(len(mvc)), 70))] + mvc[-2:]
        cases += list(enumerate_replace())
        ifcs = list(enumerate_ifc())
        cases += [ifcs[i] for i in sorted(rng.sample(range(len(ifcs)), 150))]
        small = list(enumerate_small(limit_points=['probe', 'write', 0, 4, 7, 8, 13, 29]))
        small = [small[i] for i in sorted(rng.sample(range(len(small)), 120))]
        cases += small
    mism, viol, agree, nontriv, distinct = [], [], 0, 0, 0
    CH = 400
    for i in range(0, len(cases), CH):
        if ctx.time_left() < 120:
            notes.append('stopped early at case %d for time' % i)
            cases = cases[:i]
            exhaustive = False
            break
        m, v, a, nt, ds = run_cases(ctx, cases[i:i + CH], dist)
        mism += m; viol += v; agree += a; nontriv += nt; distinct += ds
        if dist.get('stopped_after_hang'):
            notes.append('stopped after a case that hangs')
            exhaustive = False
            break
    # shrink one representative per class
    by = {}
    for v in viol:
        by.setdefault(v.get('finding'), []).append(v)
    out_viol = []
    for fid, vs in by.items():
        # violations that do not depend on a second application built in the same process are reported first: a
        # process-wide defect (e.g. a module-level memo) can also corrupt the freshly built oracle application
        own = [w for w in vs if w.get('kind') not in ('response', 'split-response')]
        if fid is None and own:
            dist['response_violations_not_listed'] = len(vs) - len(own)
            vs = own
        vs.sort(key=lambda w: len(json.dumps(w['case'])))
        if fid is None:
            out_viol.append(shrink_violation(vs[0], ctx))
            out_viol += vs[1:6]
        else:
            out_viol.append(vs[0])
    dist['violations_by_class'] = dict((str(k), len(v)) for k, v in by.items())
    dist['instrumentation_notes'] = dict(INSTR_NOTES)
    search_info = None
    if (not ctx.build_ok or mism) and out_viol and all(v.get('finding') for v in out_viol):
        # (the runner starts the search itself when there is no violation at all; kept here so that the search
        # also runs if a recorded finding is ever listed again)
        sres = search(ctx)
        out_viol += sres['violations']
        search_info = {k: v for k, v in sres.items() if k != 'violations'}
        notes.append('failing-input search after a broken obligation / correspondence: %s' % json.dumps(search_info))
    if ctx.tier == 'thorough':
        s = soak(ctx, seconds=30, threads=16)
        notes.append('free-running soak (supporting evidence only): %s' % json.dumps(s['summary']))
        out_viol += s['violations']
    return {'evaluations': len(cases), 'distinct_nontrivial': nontriv, 'rule': RULE, 'agreeing': agree,
            'samples': cases[ncorpus:ncorpus + 3] + cases[-2:], 'mismatches': mism[:20], 'violations': out_viol,
            'distribution': dist, 'notes': notes, 'exhaustive': exhaustive,
            'assumptions': ['CPython: attribute loads/stores, dict get/set and the GIL make each modelled step atomic; threading.Lock is a mutex',
                            'zope.interface adapter registry: registered()/register()/unregister() are atomic and read the current registrations; __sro__ is fixed while serving',
                            'one registrar at a time (configuration actions are executed by a single thread)',
                            'the registrations (which adapter mutations a registration performs) are taken from the real register_view, logged at adapters.register/unregister'],
            'trusted_base': ['extract/c15.py (facts probed by running _find_views / Registry / Configurator of the tree under test)']}


# ------------------------------------------------------------------------------------------------------
# thorough: free-running threads (supporting evidence)

def soak(ctx, seconds=30, threads=16):
    """rounds of `_soak_round` (a fresh application each) until the time is used; a round ends early when the
    registrar hits the zope.interface race (see notes/C15.md: `AdapterLookupBase.changed` iterates `_required`
    while lookups on other threads re-subscribe to it), which leaves that application half-registered"""
    t_end = time.time() + seconds
    agg, viol, k = {}, [], 0
    main = threading.current_thread() is threading.main_thread()
    while time.time() < t_end - 3:
        if main:
            old = signal.signal(signal.SIGALRM, _alarm)
            signal.setitimer(signal.ITIMER_REAL, 120.0)
        try:
            r = _soak_round(ctx, min(10.0, t_end - time.time()), threads, k)
        except CaseTimeout:
            viol.append({'case': {'soak': True}, 'impl': 'no progress for 120 s', 'expected': 'the round completes', 'kind': 'hang',
                         'detail': 'free-running soak: registrar and lookup threads stopped making progress (deadlock)'})
            break
        finally:
            if main:
                signal.setitimer(signal.ITIMER_REAL, 0)
                signal.signal(signal.SIGALRM, old)
        k += 1
        viol += r['violations']
        for key, v in r['summary'].items():
            if isinstance(v, list):
                agg.setdefault(key, []).extend(x.split('\n')[0] for x in v)
            elif key in ('threads', 'keys_that_can_hit'):
                agg[key] = v
            elif key == 'max_cache_len':
                agg[key] = max(agg.get(key, 0), v)
            else:
                agg[key] = round(agg.get(key, 0) + v, 1)
    agg['rounds'] = k
    return {'violations': viol[:3], 'summary': agg}


def _soak_round(ctx, seconds, threads, rnd):
    """free-running readers against a registrar thread.  Every response must be the fresh-application response
    of some registration generation between the one completed when the request started and the one started
    when it ended.  Supporting evidence only: nothing here controls the interleaving."""
    import random
    regs = [{'kind': 'view', 'tag': 's%d' % i, 'context': ['A', 'B', 'C', None][i % 4], 'name': ['x', 'y', ''][i % 3],
             'param': [None, None, 'p'][(i // 2) % 3]} for i in range(40)]
    reqs = [{'name': n, 'ctx': c} for n in ('x', 'y', '') for c in ('A', 'B', 'C')] + [{'name': 'x', 'ctx': 'C', 'q': 'p'}]
    init = [{'kind': 'view', 'tag': 's_init', 'context': 'A', 'name': 'x'}]
    expected = []          # expected[g][ri] = fresh response after the first g registrations
    for g in range(len(regs) + 1):
        expected.append([fresh_response(init + regs[:g], q) for q in reqs])
    config = make_config(init)
    app = config.make_wsgi_app()
    reg = config.registry
    # single-threaded warm-up: every kind of request once, so that zope.interface has subscribed all the
    # specifications before threads start (its AdapterLookup.changed() iterates a dict that first-time
    # lookups on other threads extend)
    for q in reqs + [{'name': 'warmup_miss', 'ctx': 'C'}]:
        send(app, q)
    state = {'started': 0, 'done': 0, 'stop': False}
    logs = [[] for _ in range(threads)]
    old = sys.getswitchinterval()
    sys.setswitchinterval(1e-5)

    def reader(k):
        r = random.Random(ctx.seed * 10000 + rnd * 100 + k)
        log, n = logs[k], 0
        while not state['stop']:
            n += 1
            if r.random() < 0.15:
                q = {'name': 'miss%d_%d' % (k, n), 'ctx': 'C'}
                g0 = state['done']; resp = send(app, q); g1 = state['started']
                log.append((-1, resp, g0, g1))
            else:
                ri = r.randrange(len(reqs))
                g0 = state['done']; resp = send(app, reqs[ri]); g1 = state['started']
                log.append((ri, resp, g0, g1))

    ths = [threading.Thread(target=reader, args=(i,)) for i in range(threads)]
    t0 = time.time()
    maxlen, abort_gen, registrar_errors = 0, None, []
    try:
        for t in ths:
            t.start()
        per = max(0.05, seconds / float(len(regs) + 1))
        for g, r in enumerate(regs):
            time.sleep(per)
            maxlen = max(maxlen, len(reg._view_lookup_cache))
            state['started'] = g + 1
            try:
                apply_reg(config, r)
            except Exception as e:                 # zope.interface registry race (trusted base), see notes/C15.md
                abort_gen = g + 1
                registrar_errors.append('%s: %s' % (type(e).__name__, str(e)[:160]))
                break
            state['done'] = g + 1
        if abort_gen is None:
            time.sleep(per)
            maxlen = max(maxlen, len(reg._view_lookup_cache))
    finally:
        state['stop'] = True
        for t in ths:
            t.join(30)
        sys.setswitchinterval(old)
    hard, soft, nreq, nmiss, nover, skipped = [], 0, 0, 0, 0, 0
    for log in logs:
        for ri, resp, g0, g1 in log:
            if abort_gen is not None and g1 >= abort_gen:
                skipped += 1
                continue
            nreq += 1
            if g1 > g0:
                nover += 1
            if ri < 0:
                nmiss += 1
                ok = resp[0] == 404
            else:
                ok = any(resp == expected[g][ri] for g in range(g0, g1 + 1))
            if not ok:
                if g0 == g1:
                    hard.append({'req': reqs[ri] if ri >= 0 else 'miss', 'resp': resp, 'g': [g0, g1],
                                 'expected': [expected[g][ri] for g in range(g0, g1 + 1)] if ri >= 0 else [[404]]})
                else:
                    soft += 1
    viol = []
    hit_keys = len(reqs) + 3
    for b in hard[:3]:
        viol.append({'case': {'soak': True, 'request': b['req'], 'generation': b['g']}, 'impl': b['resp'], 'expected': b.get('expected'),
                     'detail': 'free-running soak: a request that started after registration %d had finished and ended before the next one began got a response no fresh application gives' % b['g'][0]})
    if maxlen > hit_keys:
        viol.append({'case': {'soak': True}, 'impl': maxlen, 'expected': '<= %d' % hit_keys, 'detail': 'free-running soak: the cache grew beyond the number of keys that can hit'})
    return {'violations': viol,
            'summary': {'seconds': round(time.time() - t0, 1), 'threads': threads, 'registrations_done': state['done'], 'requests_checked': nreq,
                        'requests_overlapping_a_registration': nover, 'miss_requests': nmiss,
                        'deviations_outside_any_registration': len(hard), 'deviations_while_a_registration_was_in_flight(inside its window)': soft,
                        'max_cache_len': maxlen, 'keys_that_can_hit': hit_keys,
                        'registrar_errors(zope.interface race, trusted base)': registrar_errors, 'requests_skipped_after_abort': skipped}}


# ------------------------------------------------------------------------------------------------------

def search(ctx):
    """failing-input search on the implementation only (no model): the small-scope enumeration, then random"""
    viol, n = [], 0
    exhaustive = True
    gens = itertools.chain(enumerate_ifc(), enumerate_replace(), enumerate_multiview(), enumerate_ifaces(4, 3), enumerate_small(limit_points=['probe', 'write', 0, 1, 2, 3, 4, 5, 6, 7, 8, 9, 10, 11, 13, 16, 29]),
                           (gen_case(ctx.rng) for _ in range(ctx.n(600, 5000))))
    for case in gens:
        n += 1
        vs, _ = check_case(case, ctx)
        unknown = [v for v in vs if not v.get('finding')]
        if unknown:
            viol.append(shrink_violation(unknown[0], ctx))
            if len(viol) >= 2 or unknown[0].get('kind') == 'hang':
                exhaustive = False
                break
        if ctx.time_left() < 60:
            exhaustive = False
            break
    return {'violations': viol, 'searched': n, 'exhaustive': exhaustive}


def replay(ctx, rep):
    case = rep.get('case')
    if case is None or case.get('soak'):
        return {'violates': False, 'note': 'replay names broken obligations / a soak observation only', 'broken': rep.get('broken_obligations')}
    vs, info = check_case(case, ctx)
    mo = ctx.run_model([info['mcase']])[0] if ctx.driver_path else None
    unknown = [v for v in vs if not v.get('finding')]
    return {'case': case,
            'impl': [{'op': t['op'], 'resp': t.get('resp'), 'sizes': t.get('sizes'), 'fired': t.get('fired')} for t in info['trace']],
            'violations': [{k: v[k] for k in ('kind', 'at', 'impl', 'expected', 'detail') if k in v} | {'finding': v.get('finding')} for v in vs],
            'model_case': info['mcase'], 'model': mo, 'mismatch': compare(mo, info['exp']),
            'violates': bool(unknown), 'known_findings': sorted({v['finding'] for v in vs if v.get('finding')})}
