"""C01 — URL dispatch picks the first declared route whose pattern and predicates match.

Correspondence of lean/PyramidModel/Route.lean (+ Rx.lean) with pyramid.urldispatch, and the property itself
evaluated on the implementation.

A case is a route list plus a handful of requests:
  {"mode": "mapper" | "router" | "include",
   "routes": [{"name": str, "pattern": str, "preds": [PRED…], "static": bool, "intent": INTENT | null, "depth": int}…],
   "reqs":   [{"path": wsgi-str | null, "method": "GET"|"POST", "headers": [name…]}…]}
  PRED   = ["c", bool]            opaque predicate with a pre-drawn outcome (a closure; logs that it was called)
         | ["e", name, text]      info['match'].get(name) == text  (a predicate that reads the match dictionary)
         | ["m", "GET"|"POST"]    the real request_method predicate
         | ["h", header-name]     the real header predicate (header present)
         | ["b", keyword, value]  a built-in predicate keyword of add_route passed with this very value (Router modes):
                                  xhr / request_method / path_info / request_param / header / accept / is_authenticated /
                                  effective_principals with their falsy but meaningful values too (False, "", []); value
                                  null = the keyword passed as None (no predicate)
         | ["w", op, key, value]  a predicate that WRITES into info['match'] and answers True: op "set" (match[key] = value),
                                  "del" (match.pop(key)), "upper" (rewrite the capture in upper case); like the built-in
                                  `traverse=` pseudo-predicate (["b", "traverse", pattern], which injects a 'traverse' key).  The
                                  write belongs to that route's own dictionary: it shows in the result iff that route is selected
         | ["q", [bool…]]         opaque predicate whose outcome differs from request to request (indexed by the position
                                  of the request in "reqs"): the same mapper / application answers all of them
  INTENT = what the author of the pattern meant, token by token (independent of _compile_route's parsing):
           [["lit", text] | ["ph", name, RX | null, "brace"|"colon"] | ["rest", name] …]; null when the pattern text
           was not produced from tokens (malformed stream) or when the documented grammar reads it differently
  RX     = ["eps"] | ["chr", c] | ["any"] | ["all"] (= (?s:.)) | ["set", neg, [["c", c] | ["r", lo, hi] | ["e", "d"|"w"|"s"]…]] | ["esc", k, neg]
         | ["seq", RX, RX] | ["alt", RX, RX] | ["rep", greedy, min, max|null, RX]
         | ["grp", null | name, RX]   a capturing group of the regex's own, `(…)` or `(?P<_gN>…)`: transparent for matching;
                                      an inner *named* group also shows up in the real match dictionary under its own name
                                      (keys `_gN` are dropped before comparing — they are not placeholders)
mode "mapper": RoutesMapper().connect(...) then RoutesMapper.__call__(Request(environ))  (re-connects and static allowed).
               A route may carry "stage": n (non-decreasing along the list): ONE mapper lives through the whole case, every
               request is dispatched after the declarations of stage 0, again after those of stage 1, … — dispatch, connect
               (a name re-declared static / non-static / with another or the same pattern, or a new name), dispatch — and
               after every stage the outcomes are compared with the oracle and the model run on the declarations so far
mode "router": Configurator.add_route(...) flat, Router.__call__(environ, start_response), a catch-all view records
               request.matched_route.name / request.matchdict
mode "include": the same with the routes declared inside nested config.include(...) callables ("depth" per route)

Oracle (Python, independent of the Lean build and of _compile_route): the INTENT tokens are matched against the
decoded path by a list-of-successes enumerator of *all* splits (literal text verbatim, each placeholder a text in the
language of its regex, *rest any text, whole path consumed); the expected route is the first one in declaration order
with at least one split whose predicates hold on the first split; the implementation's match dictionary must be one
of the splits (the statement) and, more precisely, the first in leftmost-greedy order (the documented regex of a
placeholder, `[^/]+` by default).
"""
import itertools, json, os, re, sys, tempfile
from urllib.parse import urlparse

import vfutil
from vfutil import bump

RULE = ('an evaluation is one (route list, request) pair; it is non-trivial when at least two listed routes\' patterns match '
        'the path, or at least one matches and is passed over because a predicate fails; distinct = distinct canonical '
        '(routes without intents, request) JSON')

SPECIAL = set('()[]{}?*+-|^$\\.&~# \t\n\r\x0b\x0c')
DEFAULT_RX = ['rep', True, 1, None, ['set', True, [['c', '/']]]]

# ------------------------------------------------------------------------------------------------ regex trees


def esc_char(c):
    return '\\' + c if c in SPECIAL else c


def item_print(it):
    if it[0] == 'c':
        return esc_char(it[1])
    if it[0] == 'r':
        return esc_char(it[1]) + '-' + esc_char(it[2])
    return '\\' + it[1]


def quant(g, m, n):
    if (m, n) == (0, None):
        q = '*'
    elif (m, n) == (1, None):
        q = '+'
    elif (m, n) == (0, 1):
        q = '?'
    elif n is None:
        q = '{%d,}' % m
    elif m == n:
        q = '{%d}' % m
    else:
        q = '{%d,%d}' % (m, n)
    return q if g else q + '?'


def rx_print(rx):
    """the text handed to `re` (mirrors Rx.print; the driver's text is compared with this on every case)"""
    k = rx[0]
    if k == 'eps':
        return ''
    if k == 'chr':
        return esc_char(rx[1])
    if k == 'any':
        return '.'
    if k == 'all':
        return '(?s:.)'
    if k == 'set':
        return '[' + ('^' if rx[1] else '') + ''.join(item_print(i) for i in rx[2]) + ']'
    if k == 'esc':
        return '\\' + (rx[1].upper() if rx[2] else rx[1])
    if k == 'seq':
        return rx_print(rx[1]) + rx_print(rx[2])
    if k == 'alt':
        return '(?:' + rx_print(rx[1]) + '|' + rx_print(rx[2]) + ')'
    if k == 'grp':
        return ('(' if rx[1] is None else '(?P<' + rx[1] + '>') + rx_print(rx[2]) + ')'
    if k == 'rep':
        body = rx_print(rx[4]) if rx[4][0] in ('chr', 'any', 'all', 'set', 'esc', 'alt', 'grp') else '(?:' + rx_print(rx[4]) + ')'
        return body + quant(rx[1], rx[2], rx[3])
    raise ValueError(rx)


def rx_wire(rx):
    k = rx[0]
    if k == 'chr':
        return ['chr', ord(rx[1])]
    if k == 'set':
        return ['set', rx[1], [[i[0]] + [ord(x) if i[0] != 'e' else x for x in i[1:]] for i in rx[2]]]
    if k in ('seq', 'alt'):
        return [k, rx_wire(rx[1]), rx_wire(rx[2])]
    if k == 'grp':
        return ['grp', None if rx[1] is None else [ord(c) for c in rx[1]], rx_wire(rx[2])]
    if k == 'rep':
        return ['rep', rx[1], rx[2], rx[3], rx_wire(rx[4])]
    return list(rx)


def rx_nullable(rx):
    k = rx[0]
    if k == 'eps':
        return True
    if k in ('chr', 'any', 'all', 'set', 'esc'):
        return False
    if k == 'seq':
        return rx_nullable(rx[1]) and rx_nullable(rx[2])
    if k == 'alt':
        return rx_nullable(rx[1]) or rx_nullable(rx[2])
    if k == 'grp':
        return rx_nullable(rx[2])
    return rx[2] == 0 or rx_nullable(rx[4])


_cls_cache = {}


class TooBig(Exception):
    pass


def cls_test(k, c):
    """\\d \\w \\s on one character — the Unicode database is Python's"""
    key = (k, c)
    if key not in _cls_cache:
        _cls_cache[key] = re.fullmatch('\\' + k, c) is not None
    return _cls_cache[key]


def item_test(it, c):
    if it[0] == 'c':
        return c == it[1]
    if it[0] == 'r':
        return ord(it[1]) <= ord(c) <= ord(it[2])
    return cls_test(it[1], c)


WORK = [0, 10 ** 9]          # [steps so far, limit] of the oracle's matcher


def rx_run(rx, s, i):
    """oracle: end positions of all matches of rx at s[i:], in backtracking (priority) order"""
    WORK[0] += 1
    if WORK[0] > WORK[1]:
        raise TooBig()
    k = rx[0]
    if k == 'eps':
        return [i]
    if k in ('chr', 'any', 'all', 'set', 'esc'):
        if i >= len(s):
            return []
        c = s[i]
        if k == 'chr':
            ok = c == rx[1]
        elif k == 'any':
            ok = c != '\n'
        elif k == 'all':
            ok = True
        elif k == 'set':
            ok = any(item_test(it, c) for it in rx[2]) != rx[1]
        else:
            ok = cls_test(rx[1], c) != rx[2]
        return [i + 1] if ok else []
    if k == 'seq':
        return [e for m in rx_run(rx[1], s, i) for e in rx_run(rx[2], s, m)]
    if k == 'alt':
        return rx_run(rx[1], s, i) + rx_run(rx[2], s, i)
    if k == 'grp':
        return rx_run(rx[2], s, i)
    g, mn, mx, body = rx[1], rx[2], rx[3], rx[4]

    def rep(j, count):
        more = []
        if mx is None or count < mx:
            for m in rx_run(body, s, j):
                if m > j:                       # bodies are never nullable in the fragment
                    more += rep(m, count + 1)
        if count < mn:
            return more
        return more + [j] if g else [j] + more
    return rep(i, 0)


def rx_sample(rng, rx):
    """a random word of the language of rx (best effort; None when unlucky)"""
    k = rx[0]
    if k == 'eps':
        return ''
    if k in ('chr', 'any', 'all', 'set', 'esc'):
        if k == 'chr':
            return rx[1]
        pool = list('ab1/ .-_Zé日\n0x')
        rng.shuffle(pool)
        for c in pool:
            if rx_run(rx, c, 0):
                return c
        return None
    if k == 'seq':
        a, b = rx_sample(rng, rx[1]), rx_sample(rng, rx[2])
        return None if a is None or b is None else a + b
    if k == 'alt':
        return rx_sample(rng, rx[1 + rng.randrange(2)])
    if k == 'grp':
        return rx_sample(rng, rx[2])
    mn, mx = rx[2], rx[3]
    n = rng.randint(mn, mn + 2 if mx is None else mx)
    parts = [rx_sample(rng, rx[4]) for _ in range(n)]
    return None if any(p is None for p in parts) else ''.join(parts)


RX_CHARS = list('abcxyz019') + list('-._~%:,=@/') + list('.+*?()[]|^$\\ ') + ['é', '日']
QUANTS = [(0, None), (1, None), (0, 1), (2, 2), (1, 3), (0, 2), (2, None), (1, 1), (0, 0)]


def gen_item(rng):
    r = rng.random()
    if r < 0.5:
        return ['c', rng.choice(RX_CHARS)]
    if r < 0.8:
        return ['r'] + list(rng.choice([('a', 'c'), ('0', '9'), ('A', 'Z'), ('a', 'z'), ('x', 'x'), ('!', '/'), ('à', 'ÿ')]))
    return ['e', rng.choice('dws')]


INNER = [0]          # counter for the names of inner named groups (unique within a pattern, never a placeholder name)
INNER_KEY = re.compile(r'_g\d+\Z')


def gen_rx(rng, depth=0, inrep=False):
    """a random tree of the fragment (Rx.ok); no unbounded repeat inside a repeat (keeps the number of alternatives
    polynomial)"""
    r = rng.random()
    if depth >= 3 or r < 0.35:
        a = rng.random()
        if a < 0.35:
            return ['chr', rng.choice(RX_CHARS)]
        if a < 0.43:
            return ['any']
        if a < 0.47:
            return ['all']
        if a < 0.8:
            return ['set', rng.random() < 0.4, [gen_item(rng) for _ in range(rng.randint(1, 3))]]
        return ['esc', rng.choice('dws'), rng.random() < 0.3]
    if r < 0.55:
        return ['seq', gen_rx(rng, depth + 1, inrep), gen_rx(rng, depth + 1, inrep)]
    if r < 0.68:
        return ['alt', gen_rx(rng, depth + 1, inrep), gen_rx(rng, depth + 1, inrep) if rng.random() < 0.85 else ['eps']]
    if r < 0.8:
        # a capturing group of the regex's own (nested ones arise from the recursion); one in four is named
        name = None
        if rng.random() < 0.25:
            INNER[0] += 1
            name = '_g%d' % INNER[0]
        return ['grp', name, gen_rx(rng, depth + 1, inrep)]
    for _ in range(5):
        body = gen_rx(rng, depth + 1, True)
        if not rx_nullable(body):
            m, n = rng.choice([q for q in QUANTS if q[1] is not None] if inrep else QUANTS)
            return ['rep', rng.random() < 0.65, m, n, body]
    return ['rep', True, 1, None, ['esc', 'd', False]]


def rx_trees(intent):
    return [t[2] for t in intent if t[0] == 'ph' and t[2] is not None]


# ------------------------------------------------------------------------------------------------ the oracle


def spec_split(text):
    """normalised segments of a remainder (the documented behaviour of split_path_info, written independently)"""
    out = []
    for seg in text.split('/'):
        if seg in ('', '.'):
            continue
        if seg == '..':
            if out:
                out.pop()
            continue
        out.append(seg)
    return out


def all_splits(intent, path, budget=20000):
    """every way the token list reads the whole path, as match dictionaries, in leftmost-greedy backtracking order"""
    WORK[0], WORK[1] = 0, budget

    def go(k, i):
        WORK[0] += 1
        if WORK[0] > WORK[1]:
            raise TooBig()
        if k == len(intent):
            return [[]] if i == len(path) else []
        t = intent[k]
        if t[0] == 'lit':
            return go(k + 1, i + len(t[1])) if path.startswith(t[1], i) else []
        if t[0] == 'ph':
            out = []
            for j in rx_run(t[2] or DEFAULT_RX, path, i):
                for e in go(k + 1, j):
                    out.append([[t[1], 's', path[i:j]]] + e)
            return out
        out = []
        for j in range(i, len(path) + 1):
            for e in go(k + 1, j):
                out.append([[t[1], 't', spec_split(path[i:j])]] + e)
        return out
    try:
        return go(0, 0)
    finally:
        WORK[1] = 10 ** 9


def feasible(case):
    """drop the requests on which some listed pattern has more alternatives than the budget allows (the model, like
    the oracle, enumerates them all); returns the number dropped"""
    keep = []
    for q in case['reqs']:
        p = decode_wsgi(q['path'])
        ok = True
        if p is not None:
            for r in case['routes']:
                if r['intent'] is not None:
                    try:
                        all_splits(effective_intent(case, r), p, budget=4000)
                    except TooBig:
                        ok = False
                        break
        if ok:
            keep.append(q)
    dropped = len(case['reqs']) - len(keep)
    case['reqs'] = keep or [{'path': '/', 'method': 'GET', 'headers': []}]
    return dropped


def decode_wsgi(p):
    """PEP 3333: the bytes the server received, decoded as strict UTF-8; None = not UTF-8"""
    if p is None or p == '':
        return '/'
    try:
        return p.encode('latin-1').decode('utf-8')
    except UnicodeDecodeError:
        return None


def pred_value(p, env, req):
    if p[0] == 'c':
        return p[1]
    if p[0] == 'e':
        d = {n: (v if k == 's' else tuple(v)) for n, k, v in env}
        return d.get(p[1]) == p[2]
    if p[0] == 'm':
        return method_holds(p[1], req['method'])
    if p[0] == 'h':
        return p[1] in req['headers']
    if p[0] == 'a':
        return req.get('accept') is None or req['accept'] == p[1]
    if p[0] == 'q':
        return p[1][req.get('tag', 0) % len(p[1])]
    if p[0] == 'b':
        return True if p[2] is None else builtin_truth(p[1], p[2], req)
    if p[0] == 'w':
        return True
    raise ValueError(p)


def route_writes(r):
    """what the predicates of this route write into ITS match dictionary, in predicate order"""
    ops = []
    for p in r['preds']:
        if p[0] == 'w':
            ops.append((p[1], p[2], p[3]))
        elif p[0] == 'b' and p[1] == 'traverse' and p[2] is not None:
            ops.append(('settuple', 'traverse', spec_split(p[2])))
    return ops


def apply_writes(env, ops):
    """env: canonical [[name, 's'|'t', value]…]"""
    d = {n: [k, v] for n, k, v in env}
    for op, key, val in ops:
        if op == 'set':
            d[key] = ['s', val]
        elif op == 'settuple':
            d[key] = ['t', list(val)]
        elif op == 'del':
            d.pop(key, None)
        elif op == 'upper' and key in d and d[key][0] == 's':
            d[key] = ['s', d[key][1].upper()]
    return sorted([n, kv[0], kv[1]] for n, kv in d.items())


def with_writes(case, out):
    """the dictionary the application sees: the selected route's captures plus what that route's own predicates wrote"""
    if not isinstance(out, dict):
        return out
    ops = route_writes(case['routes'][out['id']]) if 0 <= out['id'] < len(case['routes']) else []
    return {'id': out['id'], 'match': apply_writes(out['match'], ops)} if ops else out


def _seq(v):
    return (v,) if isinstance(v, str) else tuple(v)


def builtin_truth(kw, value, req):
    """what the documented route predicate `kw=value` says about the request (written from the documentation of
    add_route, not from pyramid.predicates); a value that is not None always makes a predicate"""
    if kw == 'xhr':
        return bool(value) == bool(req.get('xhr'))
    if kw == 'request_method':
        return any(method_holds(v, req['method']) for v in _seq(value))
    if kw == 'path_info':                      # a regex matched at the start; the generator uses plain literal values
        p = decode_wsgi_raw(req['path'])
        return p is not None and p.startswith(value)
    if kw == 'request_param':
        params = dict(x.split('=', 1) if '=' in x else (x, '') for x in (req.get('qs') or '').split('&') if x)
        for item in _seq(value):
            k, _, v = item.partition('=')
            if k.strip() not in params or ('=' in item and params[k.strip()] != v.strip()):
                return False
        return True
    if kw == 'header':
        hdrs = {h: '1' for h in req['headers']}
        for item in _seq(value):
            name, sep, rx = item.partition(':')
            if name not in hdrs or (sep and re.match(rx, hdrs[name]) is None):
                return False
        return True
    if kw == 'accept':
        return any(req.get('accept') is None or req['accept'] == v for v in _seq(value))
    if kw == 'is_authenticated':               # no security policy is configured: nobody is authenticated
        return value == False                  # noqa: E712  (0 == False as in the code)
    if kw == 'effective_principals':           # no policy: the principals are [Everyone]
        return len(_seq(value)) == 0
    if kw == 'traverse':                       # a pseudo-predicate: always true (it injects the 'traverse' key)
        return True
    raise ValueError(kw)


def decode_wsgi_raw(p):
    try:
        return (p or '').encode('latin-1').decode('utf-8')
    except UnicodeDecodeError:
        return None


def method_holds(val, method):
    """request_method=val as documented: GET also lets HEAD through"""
    return method == val or (val == 'GET' and method == 'HEAD')


def prefix_segments(case, r):
    """the route prefixes in force where the route is declared (Configurator(route_prefix=…), then one per include
    level), stripped of slashes, the empty ones dropped"""
    stack = [case.get('top_prefix')] + list((case.get('inc_prefixes') or [])[:r.get('depth', 0) if case['mode'] == 'include' else 0])
    return [p.strip('/') for p in stack if p and p.strip('/')]


def effective_intent(case, r):
    """the tokens of the route as mounted: the documented join of the prefixes, one slash, the pattern without its
    leading slashes (prefixes are plain literal text in this generator)"""
    it = r['intent']
    if it is None or case['mode'] == 'mapper':
        return it
    lit0 = it[0][1].lstrip('/')
    depth = r.get('depth', 0) if case['mode'] == 'include' else 0
    if depth == 0:
        # on the configurator that was given the prefix it is prepended as written (only the slashes at the seam are
        # normalised); inside an include it has gone through the stacking, which strips both ends
        top = case.get('top_prefix')
        if not top:
            return it
        if lit0 == '' and len(it) == 1 and r.get('inherit'):
            first = top
        else:
            first = top.rstrip('/') + '/' + lit0
        return [['lit', first if first.startswith('/') else '/' + first]] + it[1:]
    segs = prefix_segments(case, r)
    if not segs:
        return it
    if lit0 == '' and len(it) == 1 and r.get('inherit'):
        first = '/' + '/'.join(segs)
    else:
        first = '/' + '/'.join(segs) + '/' + lit0
    return [['lit', first]] + it[1:]


def declared_order(routes):
    """indices of the routes consulted, in order: declaration order; a static route is never consulted; declaring
    a name again replaces the earlier declaration (and the new one goes to the end)"""
    order, byname = [], {}
    for i, r in enumerate(routes):
        if r['name'] in byname and byname[r['name']] in order:
            order.remove(byname[r['name']])
        byname[r['name']] = i
        if not r['static']:
            order.append(i)
    return order


def canon_env(env):
    return sorted([n, k, v] for n, k, v in env)


def expected(case, req):
    """the property, stated on the intents.  None when the oracle does not apply."""
    if any(r['intent'] is None for r in case['routes']):
        return None
    path = decode_wsgi(req['path'])
    if path is None:
        return {'out': 'urldecode'}
    try:
        for i in declared_order(case['routes']):
            r = case['routes'][i]
            sp = all_splits(effective_intent(case, r), path)
            if sp and all(pred_value(p, sp[0], req) for p in r['preds']):
                ops = route_writes(r)
                return {'out': {'id': i, 'match': apply_writes(canon_env(sp[0]), ops)},
                        'splits': [apply_writes(canon_env(e), ops) for e in sp]}
        return {'out': 'none'}
    except TooBig:
        return None


# ------------------------------------------------------------------------------------------------ the implementation


def err_name(e):
    from pyramid.exceptions import URLDecodeError
    if isinstance(e, URLDecodeError):
        return 'urldecode'
    if isinstance(e, re.error):
        return 'reerror'
    return 'raised:' + type(e).__name__


def canon_match(d):
    out = []
    for k, v in d.items():
        if INNER_KEY.match(k):
            continue                 # a named group written inside a placeholder's regex: not a placeholder
        if isinstance(v, tuple):
            out.append([k, 't', list(v)])
        else:
            out.append([k, 's', v])
    return sorted(out)


def blank_environ(req):
    env = {'REQUEST_METHOD': req['method'], 'SCRIPT_NAME': '', 'SERVER_NAME': 'localhost', 'SERVER_PORT': '80',
           'SERVER_PROTOCOL': 'HTTP/1.0', 'wsgi.url_scheme': 'http', 'wsgi.version': (1, 0), 'wsgi.input': sys.stdin,
           'wsgi.errors': sys.stderr, 'wsgi.multithread': False, 'wsgi.multiprocess': False, 'wsgi.run_once': False,
           'HTTP_HOST': 'localhost:80', 'QUERY_STRING': ''}
    if req['path'] is not None:
        env['PATH_INFO'] = req['path']
    env['vf.tag'] = req.get('tag', 0)
    if req.get('accept') is not None:
        env['HTTP_ACCEPT'] = req['accept']
    if req.get('xhr'):
        env['HTTP_X_REQUESTED_WITH'] = 'XMLHttpRequest'
    if req.get('qs'):
        env['QUERY_STRING'] = req['qs']
    for h in req['headers']:
        env['HTTP_' + h.upper().replace('-', '_')] = '1'
    return env


def gen_template_of(route, rx_text, pattern):
    """the %-template of route.generate, reconstructed from its behaviour on sentinel values (None when not possible)"""
    if rx_text is None:
        return None
    try:
        names = [n for n in re.compile(rx_text).groupindex if not INNER_KEY.match(n)]
        sent = {n: 'ZQ%dQZ' % i for i, n in enumerate(names)}
        if any(x in pattern for x in sent.values()):
            return None
        g = route.generate(dict(sent)).replace('%', '%%')
        for n, x in sent.items():
            if g.count(x) != 1:
                return None
            g = g.replace(x, '%(' + n + ')s')
        return g
    except Exception:
        return None


def impl_mapper(case):
    """RoutesMapper.connect / __call__ directly"""
    from pyramid.urldispatch import RoutesMapper
    from pyramid.request import Request
    from pyramid.predicates import RequestMethodPredicate, HeaderPredicate, AcceptPredicate
    mapper = RoutesMapper()
    log = []
    compile_, regex, gen, ids = [], [], [], {}

    def mk(rid, k, p):
        if p[0] == 'c':
            def f(info, request):
                log.append([rid, k]); return p[1]
        elif p[0] == 'e':
            def f(info, request):
                log.append([rid, k]); return info['match'].get(p[1]) == p[2]
        elif p[0] == 'q':
            def f(info, request):
                log.append([rid, k]); return p[1][request.environ['vf.tag'] % len(p[1])]
        elif p[0] == 'w':
            def f(info, request):
                log.append([rid, k]); write_match(info['match'], p[1], p[2], p[3]); return True
        else:
            real = RequestMethodPredicate(p[1], None) if p[0] == 'm' else AcceptPredicate(p[1], None) if p[0] == 'a' \
                else HeaderPredicate(p[1], None)

            def f(info, request):
                log.append([rid, k]); return real(info, request)
        return f
    import pyramid.urldispatch as UD
    recorded = []

    class ReProxy:                       # records the text handed to re.compile while a pattern is being compiled
        def __getattr__(self, k):
            return getattr(re, k)

        def compile(self, pattern, flags=0):
            recorded.append(pattern)
            return re.compile(pattern, flags)
    real_re = getattr(UD, 're', None)

    def dispatch(req):
        del log[:]
        try:
            info = mapper(Request(blank_environ(req)))
            if info['route'] is None:
                return 'none' if info['match'] is None else 'raised:match-without-route'
            return {'id': ids.get(id(info['route']), -1), 'match': canon_match(info['match'])}
        except Exception as e:
            return err_name(e)
    stage_outs, cur_stage = [], 0
    for rid, r in enumerate(case['routes']):
        if r.get('stage', 0) > cur_stage:
            # the mapper has been answering requests with the declarations so far; now more are made
            stage_outs.append({'n': rid, 'outs': [dispatch(q) for q in case['reqs']]})
            cur_stage = r.get('stage', 0)
        del recorded[:]
        try:
            if real_re is re:
                UD.re = ReProxy()
            try:
                route = mapper.connect(r['name'], r['pattern'], predicates=[mk(rid, k, p) for k, p in enumerate(r['preds'])],
                                       static=r['static'])
            finally:
                if real_re is re:
                    UD.re = real_re
            ids[id(route)] = rid
            compile_.append('ok')
            rx_text = recorded[-1] if recorded and isinstance(recorded[-1], str) else None
            regex.append(rx_text)
            gen.append(gen_template_of(route, rx_text, r['pattern']))
        except Exception as e:
            compile_.append(err_name(e)); regex.append(None); gen.append(None)
    outs = []
    for req in case['reqs']:
        del log[:]
        request = Request(blank_environ(req))
        try:
            info = mapper(request)
            if info['route'] is None:
                out = 'none' if info['match'] is None else 'raised:match-without-route'
            else:
                out = {'id': ids.get(id(info['route']), -1), 'match': canon_match(info['match'])}
        except Exception as e:
            out = err_name(e)
        outs.append({'out': out, 'calls': list(log)})
    # history: the same mapper answers everything again, in reverse order; nothing may have been remembered
    history, history_calls = [], []
    for k in reversed(range(len(case['reqs']))):
        del log[:]
        try:
            info = mapper(Request(blank_environ(case['reqs'][k])))
            out = ('none' if info['match'] is None else 'raised:match-without-route') if info['route'] is None else \
                {'id': ids.get(id(info['route']), -1), 'match': canon_match(info['match'])}
        except Exception as e:
            out = err_name(e)
        if out != outs[k]['out']:
            history.append({'req': k, 'first': outs[k], 'again': {'out': out, 'calls': list(log)}})
        elif list(log) != outs[k]['calls']:
            history_calls.append({'req': k, 'first': outs[k], 'again': {'out': out, 'calls': list(log)}})
    nmatch = []
    for req in case['reqs']:
        p = decode_wsgi(req['path'])
        try:
            nmatch.append(None if p is None else [0 if r.match(p) is None else 1 for r in mapper.routelist])
        except Exception:
            nmatch.append(None)
    return {'compile': compile_, 'regex': regex, 'gen': gen, 'routelist': [ids[id(r)] for r in mapper.routelist],
            'statics': [ids[id(r)] for r in mapper.static_routes], 'outs': outs, 'nmatch': nmatch, 'history': history, 'history_calls': history_calls,
            'stage_outs': stage_outs}


def write_match(m, op, key, val):
    if op == 'set':
        m[key] = val
    elif op == 'del':
        m.pop(key, None)
    elif op == 'upper' and isinstance(m.get(key), str):
        m[key] = m[key].upper()


class VfPred:
    """route predicate factory used for the Router modes: value = (rid, k, kind, a, b)"""
    def __init__(self, val, config):
        self.val = val

    def text(self):
        return 'vf = %r' % (self.val,)

    phash = text

    def __call__(self, info, request):
        rid, k, kind, a, b = self.val
        if kind == 'c':
            return a
        if kind == 'q':
            return a[request.environ['vf.tag'] % len(a)]
        if kind == 'w':
            write_match(info['match'], a[0], a[1], b)
            return True
        return info['match'].get(a) == b


def impl_router(case):
    """Configurator.add_route (flat or through nested includes) + Router.__call__"""
    from pyramid.config import Configurator
    from pyramid.response import Response
    from pyramid.exceptions import ConfigurationExecutionError
    seen = {}

    def rec(context, request):
        mr = getattr(request, 'matched_route', None)
        seen['v'] = 'none' if mr is None else {'name': mr.name, 'match': canon_match(request.matchdict)}
        return Response('ok')

    def declare_one(config, rid, r):
        kw = {}
        for k, p in enumerate(r['preds']):
            if p[0] == 'w':
                kw['vf%d' % k] = (rid, k, 'w', (p[1], p[2]), p[3])
            elif p[0] in ('c', 'e', 'q'):
                kw['vf%d' % k] = (rid, k, p[0], tuple(p[1]) if p[0] == 'q' else p[1], p[2] if len(p) > 2 else None)
            elif p[0] == 'm':
                kw['request_method'] = p[1]
            elif p[0] == 'a':
                kw['accept'] = p[1]
            elif p[0] == 'b':
                kw[p[1]] = tuple(p[2]) if isinstance(p[2], list) else p[2]
            else:
                kw['header'] = p[1]
        # arguments that must not influence dispatch
        ex = r.get('extras') or []
        if 'factory' in ex:
            kw['factory'] = lambda request: holder_root
        if 'global_views' in ex:
            kw['use_global_views'] = True
        if 'pregenerator' in ex:
            kw['pregenerator'] = lambda request, elements, kw_: (elements, kw_)
        if r.get('inherit'):
            kw['inherit_slash'] = True
        if r.get('usepath'):
            config.add_route(r['name'], path=r['pattern'], static=r['static'], **kw)
        else:
            config.add_route(r['name'], r['pattern'], static=r['static'], **kw)
        if not r['static']:
            config.add_view(rec, route_name=r['name'])

    def declare(config, items, depth):
        i = 0
        while i < len(items):
            rid, r = items[i]
            if case['mode'] != 'include' or r.get('depth', 0) <= depth:
                declare_one(config, rid, r)
                i += 1
            else:
                j = i
                while j < len(items) and items[j][1].get('depth', 0) > depth:
                    j += 1
                sub = items[i:j]

                def included(cfg, sub=sub, d=depth + 1):
                    declare(cfg, sub, d)
                counter[0] += 1
                included.__name__ = 'included_%d' % counter[0]      # include() skips a callable it has seen (by module:name)
                ips = case.get('inc_prefixes') or []
                config.include(included, route_prefix=ips[depth] if depth < len(ips) else None)
                i = j
    compile_ = ['ok'] * len(case['routes'])
    counter = [0]

    class Root:
        pass
    holder_root = Root()
    try:
        config = Configurator(route_prefix=case.get('top_prefix'))
        for k in range(6):
            config.add_route_predicate('vf%d' % k, VfPred)
        declare(config, list(enumerate(case['routes'])), 0)
        config.add_view(rec)
        config.add_notfound_view(rec)
        app = config.make_wsgi_app()
    except ConfigurationExecutionError as e:
        return {'config_error': err_name(e.evalue), 'outs': []}
    except Exception as e:
        return {'config_error': 'raised:' + type(e).__name__, 'outs': []}
    names = {}
    for i in declared_order(case['routes']):
        names[case['routes'][i]['name']] = i
    try:
        by_name = {r.name: r.pattern for r in app.routes_mapper.get_routes(include_static=True)}
        connected = [by_name.get(r['name']) for r in case['routes']]
        order = [r.name for r in app.routes_mapper.get_routes()]
    except Exception:
        connected, order = None, None
    outs = []
    for req in case['reqs']:
        seen.clear()
        try:
            body = app(blank_environ(req), lambda status, headers, exc_info=None: None)
            list(body)
            v = seen.get('v', 'raised:no-view-ran')
            out = v if isinstance(v, str) else {'id': names.get(v['name'], -1), 'match': v['match']}
        except Exception as e:
            out = err_name(e)
        outs.append({'out': out})
    history = []
    for k in reversed(range(len(case['reqs']))):
        seen.clear()
        try:
            list(app(blank_environ(case['reqs'][k]), lambda status, headers, exc_info=None: None))
            v = seen.get('v', 'raised:no-view-ran')
            out = v if isinstance(v, str) else {'id': names.get(v['name'], -1), 'match': v['match']}
        except Exception as e:
            out = err_name(e)
        if out != outs[k]['out']:
            history.append({'req': k, 'first': outs[k], 'again': {'out': out}})
    return {'compile': compile_, 'outs': outs, 'history': history, 'connected': connected, 'order': order}


def is_external(pattern):
    try:
        return bool(urlparse(pattern).hostname)
    except Exception:
        return True


def impl(case):
    return impl_mapper(case) if case['mode'] == 'mapper' else impl_router(case)


# ------------------------------------------------------------------------------------------------ the model


def codes(s):
    return [ord(c) for c in s]


def case_ucd(case):
    chars = set()
    for r in case['routes']:
        chars.update(c for c in r['pattern'] if ord(c) > 127)
    for q in case['reqs']:
        p = decode_wsgi(q['path'])
        if p:
            chars.update(c for c in p if ord(c) > 127)
    chars = sorted(chars)
    return {'word': [ord(c) for c in chars if cls_test('w', c)], 'digit': [ord(c) for c in chars if cls_test('d', c)],
            'space': [ord(c) for c in chars if cls_test('s', c)]}


def case_rxlib(case):
    lib, seen = [], set()
    for r in case['routes']:
        for t in (r.get('intent') or []):
            if t[0] == 'ph' and t[2] is not None:
                k = json.dumps(t[2])
                if k not in seen:
                    seen.add(k); lib.append(t[2])
    for rx in case.get('rxlib', []):
        k = json.dumps(rx)
        if k not in seen:
            seen.add(k); lib.append(rx)
    return lib


def wire_pred(p, req):
    if p[0] == 'c':
        return ['c', bool(p[1])]
    if p[0] == 'e':
        return ['e', codes(p[1]), codes(p[2])]
    if p[0] in ('m', 'a', 'w'):
        return ['c', bool(pred_value(p, None, req))]
    if p[0] == 'q':
        return ['c', bool(p[1][req.get('tag', 0) % len(p[1])])]
    return ['c', p[1] in req['headers']]


def model_lines(case):
    """one wire line per request"""
    ucd = case_ucd(case)
    lib = case_rxlib(case)
    wlib = [rx_wire(x) for x in lib]
    lines = []
    for req in case['reqs']:
        routes = [{'name': codes(r['name']), 'pattern': codes(r['pattern']),
                   'preds': [wire_pred(p, req) for p in r['preds'] if p[0] != 'b'],
                   'builtins': [[p[1], None if p[2] is None else bool(builtin_truth(p[1], p[2], req))] for p in r['preds'] if p[0] == 'b'],
                   'static': bool(r['static'])} for r in case['routes']]
        if case['mode'] != 'mapper':
            for w, r in zip(routes, case['routes']):
                tp = case.get('top_prefix')
                w['top'] = None if tp is None else codes(tp)
                w['prefixes'] = [None if p is None else codes(p) for p in
                                 (case.get('inc_prefixes') or [])[:r.get('depth', 0) if case['mode'] == 'include' else 0]]
                w['usepath'] = bool(r.get('usepath'))
                w['inherit'] = bool(r.get('inherit'))
        lines.append({'ucd': ucd, 'rxlib': wlib, 'routes': routes,
                      'path': None if req['path'] is None else [ord(c) for c in req['path']]})
    return lines, lib


def txt(cs):
    return ''.join(chr(c) for c in cs)


def decode_model_out(o):
    if isinstance(o, str):
        return o
    m = []
    for e in o['match']:
        if e[1] == 's':
            m.append([txt(e[0]), 's', txt(e[2])])
        else:
            m.append([txt(e[0]), 't', [txt(s) for s in e[2]]])
    return {'id': o['id'], 'match': sorted(m)}


# ------------------------------------------------------------------------------------------------ checking one case


def stage_subcases(case):
    """the declarations made before each later stage, as cases of their own: [(n, sub-case)…]"""
    out, cur = [], 0
    if case['mode'] != 'mapper':
        return out
    for i, r in enumerate(case['routes']):
        if r.get('stage', 0) > cur:
            out.append((i, dict(case, routes=case['routes'][:i])))
            cur = r.get('stage', 0)
    return out


def check_case(case, replies=None, stage_replies=None):
    """-> (impl result, mismatches, violations, info)"""
    got = impl(case)
    mism, viol, info = [], [], {'per_req': []}
    router = case['mode'] != 'mapper'
    oracle_on = all(r['intent'] is not None for r in case['routes'])
    # a long-lived mapper: what it answered after each earlier stage of declarations
    for si, (n, sub) in enumerate(stage_subcases(case)):
        so = got.get('stage_outs', [])
        if si >= len(so) or so[si]['n'] != n:
            mism.append({'case': case, 'impl': {'stage_outs': so}, 'model': 'one dispatch round before declaration %d' % n}); break
        for k, req in enumerate(case['reqs']):
            g = so[si]['outs'][k]
            exp = expected(sub, req) if oracle_on else None
            if exp is not None and g != exp['out']:
                viol.append({'case': case, 'impl': {'after_declarations': n, 'request': k, 'out': g}, 'expected': exp['out'],
                             'detail': 'after the first %d declarations on this mapper, the selected route is not the first declared '
                                       'route whose pattern matches and whose predicates hold' % n})
                break
            if stage_replies is not None and si < len(stage_replies) and stage_replies[si][k] is not None:
                mo = stage_replies[si][k]
                if 'error' in mo or mo.get('unsupported'):
                    continue
                m_out = with_writes(sub, decode_model_out(mo['outcome']))
                if m_out != g:
                    mism.append({'case': case, 'impl': {'after_declarations': n, 'request': k, 'out': g}, 'model': m_out}); break
    # configuration-time outcome
    if router and 'config_error' in got:
        info['config_error'] = got['config_error']
        if oracle_on:
            viol.append({'case': case, 'impl': got, 'expected': 'routes are declared without error',
                         'detail': 'a route list of well-formed patterns is refused at configuration time'})
        if replies is not None:
            r0 = replies[0] if replies else None
            if r0 is not None and 'reerror' not in r0.get('compile', []) and not r0.get('unsupported'):
                mism.append({'case': case, 'impl': got, 'model': {'compile': r0.get('compile')}})
        return got, mism, viol, info
    if oracle_on and not router and any(c != 'ok' for c in got['compile']):
        viol.append({'case': case, 'impl': {'compile': got['compile']}, 'expected': 'every well-formed pattern compiles',
                     'detail': 'connect() raised for a well-formed pattern'})
    if got.get('history'):
        h = got['history'][0]
        viol.append({'case': case, 'impl': h, 'expected': 'the same outcome whenever the same request is dispatched',
                     'detail': 'the outcome of a request depends on the requests the mapper answered before it'})
    if got.get('history_calls') and replies is not None:
        mism.append({'case': case, 'impl': got['history_calls'][0], 'model': 'the predicates called for a request do not depend on earlier requests'})
    for k, req in enumerate(case['reqs']):
        g = got['outs'][k]['out'] if k < len(got['outs']) else 'raised:no-output'
        exp = expected(case, req) if oracle_on else None
        pi = {'exp': None if exp is None else exp['out'], 'got': g}
        info['per_req'].append(pi)
        if exp is not None:
            bad = None
            if g != exp['out']:
                if isinstance(g, dict) and isinstance(exp['out'], dict) and g['id'] == exp['out']['id']:
                    if g['match'] in exp['splits']:
                        bad = 'the match dictionary is a valid reading of the path but not the one the documented (leftmost, greedy) placeholder regex captures'
                    else:
                        bad = 'the match dictionary is not the text captured by the placeholders'
                elif exp['out'] == 'urldecode' or g == 'urldecode':
                    bad = 'a path is refused with a URL decode error exactly when it is not valid UTF-8'
                else:
                    bad = 'the selected route is not the first declared route whose pattern matches the whole path and whose predicates hold'
            if bad:
                # keep the requests answered before this one: the mapper is long-lived (the shrinker drops the idle ones)
                v = {'case': dict(case, reqs=case['reqs'][:k + 1]), 'impl': g, 'expected': exp['out'], 'detail': bad}
                viol.append(v)
        if replies is not None and replies[k] is not None:
            mo = replies[k]
            if 'error' in mo:
                mism.append({'case': dict(case, reqs=[req]), 'impl': g, 'model': mo}); continue
            pi['unsupported'] = bool(mo.get('unsupported'))
            # compile status is comparable even when part of the list is outside the model
            if not router:
                cm = [(a, b) for a, b in zip(got['compile'], mo['compile']) if b != 'unsupported' and a != b]
                if cm:
                    mism.append({'case': dict(case, reqs=[req]), 'impl': {'compile': got['compile']}, 'model': {'compile': mo['compile']}}); continue
                rg = [(a, b) for a, b, c in zip(got['regex'], mo['regex'], mo['compile'])
                      if c == 'ok' and a is not None and (txt(b) != a)]
                if rg:
                    mism.append({'case': dict(case, reqs=[req]), 'impl': {'regex': got['regex']},
                                 'model': {'regex': [None if b is None else txt(b) for b in mo['regex']]}}); continue
                gg = [(a, b) for a, b, c in zip(got['gen'], mo['gen'], mo['compile'])
                      if c == 'ok' and a is not None and (txt(b) != a)]
                if gg:
                    mism.append({'case': dict(case, reqs=[req]), 'impl': {'gen': got['gen']},
                                 'model': {'gen': [None if b is None else txt(b) for b in mo['gen']]}}); continue
            if mo.get('unsupported'):
                continue
            if router and k == 0 and got.get('connected') is not None and 'connected' in mo:
                mc = [x if isinstance(x, str) else txt(x) for x in mo['connected']]
                if mc != got['connected']:
                    mism.append({'case': dict(case, reqs=[req]), 'impl': {'connected': got['connected']}, 'model': {'connected': mc}}); continue
                morder = [case['routes'][i]['name'] for i in mo['routelist']]
                if got.get('order') is not None and morder != got['order']:
                    mism.append({'case': dict(case, reqs=[req]), 'impl': {'routelist': got['order']}, 'model': {'routelist': morder}}); continue
            if not router and (mo['routelist'] != got['routelist'] or mo['statics'] != got['statics']):
                mism.append({'case': dict(case, reqs=[req]), 'impl': {'routelist': got['routelist'], 'statics': got['statics']},
                             'model': {'routelist': mo['routelist'], 'statics': mo['statics']}}); continue
            m_out = with_writes(case, decode_model_out(mo['outcome']))
            m_spec = with_writes(case, decode_model_out(mo['spec']))
            pi['model'] = m_out
            if m_out != g or m_spec != m_out:
                mism.append({'case': dict(case, reqs=[req]), 'impl': g, 'model': {'outcome': m_out, 'spec': m_spec}}); continue
            if not router and mo['calls'] != got['outs'][k]['calls']:
                mism.append({'case': dict(case, reqs=[req]), 'impl': {'calls': got['outs'][k]['calls']}, 'model': {'calls': mo['calls']}}); continue
            pi['agree'] = True
            pi['nmatch'] = mo.get('nmatch')
    return got, mism, viol, info


# ------------------------------------------------------------------------------------------------ generators

LIT_PLAIN = list('abcxyzABZ019')
LIT_META = list('.^$+?()[]|\\-~#&% :;,=@!\'')
LIT_NONASCII = ['é', 'ß', '日', '😀', 'я', '²']
NAMES = ['x', 'y', 'z', 'id', 'name', 'a1', '_p', 'foo', 'bar_baz', 'X']


def gen_lit(rng, allow_slash=True, minlen=0, maxlen=5):
    n = rng.randint(minlen, maxlen)
    out = []
    for _ in range(n):
        r = rng.random()
        if r < 0.5:
            out.append(rng.choice(LIT_PLAIN))
        elif r < 0.72:
            out.append(rng.choice(LIT_META))
        elif r < 0.82:
            out.append(rng.choice(LIT_NONASCII))
        elif r < 0.97:
            out.append('/' if allow_slash else 'q')
        elif r < 0.985:
            out.append('*')
        else:
            out.append('\n')
    return ''.join(out)


def is_word(c):
    return cls_test('w', c)


def render(intent, drop_lead=False):
    parts = []
    for t in intent:
        if t[0] == 'lit':
            parts.append(t[1])
        elif t[0] == 'ph':
            if t[3] == 'colon':
                parts.append(':' + t[1])
            elif t[2] is None:
                parts.append('{' + t[1] + '}')
            else:
                parts.append('{' + t[1] + ':' + rx_print(t[2]) + '}')
        else:
            parts.append('*' + t[1])
    s = ''.join(parts)
    return s[1:] if drop_lead and s.startswith('/') and not s.startswith('//') else s


def faithful(intent, pattern):
    """does the documented pattern grammar read `pattern` as exactly these tokens?  (decided on the tokens and the
    text, without the implementation)"""
    phs = [t for t in intent if t[0] == 'ph']
    names = [t[1] for t in intent if t[0] != 'lit']
    if len(set(names)) != len(names):
        return False
    if not intent or intent[0][0] != 'lit' or not intent[0][1].startswith('/'):
        return False
    for t in intent:
        if t[0] == 'lit' and ('{' in t[1] or '}' in t[1]):
            return False
    for a, b in zip(intent, intent[1:]):
        if a[0] == 'lit' and b[0] == 'lit':
            return False
    if any(t[0] == 'rest' for t in intent[:-1]):
        return False
    brace = [t for t in phs if t[3] == 'brace']
    colon = [t for t in phs if t[3] == 'colon']
    if colon and brace:
        return False
    if not brace:
        # old-style rewriting is live: every `:` + [_a-zA-Z] in the text starts a placeholder
        for t in intent:
            if t[0] == 'lit' and re.search(':[_a-zA-Z]', t[1]):
                return False
        for k, t in enumerate(intent):
            if t[0] == 'ph':
                if t[2] is not None:
                    return False
                nxt = intent[k + 1] if k + 1 < len(intent) else None
                if nxt is not None and nxt[0] == 'lit' and nxt[1] and is_word(nxt[1][0]):
                    return False
            if t[0] == 'lit' and t[1].endswith(':'):
                nxt = intent[k + 1] if k + 1 < len(intent) else None
                if nxt is not None and nxt[0] == 'rest':
                    pass
    # the remainder marker: a `*` followed by word characters only, at the very end (a final LF is tolerated by `$`)
    i = pattern.rfind('*')
    has_rest = intent[-1][0] == 'rest'
    if i >= 0:
        tail = pattern[i + 1:]
        if tail.endswith('\n'):
            tail = tail[:-1]
        looks = all(is_word(c) for c in tail)
        if looks != has_rest:
            return False
        if has_rest and pattern[i + 1:] != intent[-1][1]:
            return False
    elif has_rest:
        return False
    return True


def gen_intent(rng, p_rest=0.3, custom=True):
    """a token list: literals over an alphabet with every regex metacharacter, placeholders (default / custom regex /
    old style), several placeholders per segment, optional *rest"""
    old = rng.random() < 0.15
    names = rng.sample(NAMES, 5)
    toks = [['lit', '/' + gen_lit(rng, maxlen=3)]]
    nseg = rng.choice([0, 1, 1, 2, 2, 3, 4])
    for _ in range(nseg):
        if toks[-1][0] == 'lit' and rng.random() < 0.3:
            continue
        if not names:
            break
        r = rng.random()
        if old:
            toks.append(['ph', names.pop(), None, 'colon'])
        elif r < 0.6 or not custom:
            toks.append(['ph', names.pop(), None, 'brace'])
        else:
            toks.append(['ph', names.pop(), gen_rx(rng, 1), 'brace'])
        r = rng.random()
        if r < 0.55:
            lit = '/' + gen_lit(rng, maxlen=2)
        elif r < 0.8:
            lit = gen_lit(rng, allow_slash=False, minlen=1, maxlen=2)
        else:
            lit = ''
        if old and lit and is_word(lit[0]):
            lit = '-' + lit
        if lit:
            toks.append(['lit', lit])
    if rng.random() < p_rest and names:
        if toks[-1][0] == 'lit' and rng.random() < 0.7 and not toks[-1][1].endswith('/'):
            toks[-1][1] += '/'
        toks.append(['rest', names.pop()])
    return toks


def gen_segment(rng):
    r = rng.random()
    if r < 0.55:
        return vfutil.rand_text(rng, maxlen=4, allow_empty=False, p_special=0.0, p_nonascii=0.0)
    if r < 0.8:
        return vfutil.rand_text(rng, maxlen=4, allow_empty=False, p_special=0.4, p_nonascii=0.2, forbid='/')
    if r < 0.9:
        return rng.choice(['%41', '%2F', 'a%20b', 'é', '日本', '😀', 'x.y', 'a-b', '12', '007', ' ', 'A'])
    return rng.choice(['.', '..', 'a\nb', '\n', '\t', '\x00', 'a\r'])


def instantiate(rng, intent):
    """a path the token list matches (usually)"""
    out = []
    for t in intent:
        if t[0] == 'lit':
            out.append(t[1])
        elif t[0] == 'ph':
            if t[2] is None:
                out.append(gen_segment(rng).replace('/', '') or 'v')
            else:
                w = rx_sample(rng, t[2])
                out.append('v' if w is None else w)
        else:
            n = rng.choice([0, 1, 2, 3])
            segs = [gen_segment(rng) if rng.random() < 0.85 else rng.choice(['', '.', '..']) for _ in range(n)]
            out.append('/'.join(segs) + ('/' if rng.random() < 0.2 else ''))
    return ''.join(out)


def near_miss(rng, p):
    """one edit: a slash, a character, the case, a trailing LF…"""
    r = rng.random()
    if not p:
        return '/'
    i = rng.randrange(len(p))
    if r < 0.15:
        return p + rng.choice(['/', '\n', 'x', '/x', '.', ' '])
    if r < 0.3:
        return p[:i] + p[i + 1:]
    if r < 0.45:
        return p[:i] + rng.choice(['/', 'X', '.', 'a', '\n', 'é']) + p[i:]
    if r < 0.6:
        return p[:i] + p[i].swapcase() + p[i + 1:]
    if r < 0.75:
        return p[:i] + rng.choice(['X', '/', 'b', '-', '.']) + p[i + 1:]
    if r < 0.85:
        return p.rstrip('/') if p.endswith('/') and len(p) > 1 else p + '/'
    if r < 0.93:
        return p.replace('/', '//', 1) if rng.random() < 0.5 else p[1:]
    return p


INVALID_UTF8 = ['\xff', '\xc3', '\xc0\xaf', '\xed\xa0\x80', '\xf8\x88\x80\x80\x80', '\x80', '\xe2\x82', '\xf4\x90\x80\x80']


def to_wsgi(text):
    return text.encode('utf-8').decode('latin-1')


def gen_reqs(rng, routes, n, intents=None):
    reqs = []
    intents = [r['intent'] for r in routes if r['intent']] if intents is None else [i for i in intents if i]
    for _ in range(n):
        r = rng.random()
        if intents and r < 0.55:
            p = instantiate(rng, rng.choice(intents))
        elif intents and r < 0.85:
            p = near_miss(rng, instantiate(rng, rng.choice(intents)))
        elif r < 0.93:
            p = '/' + '/'.join(gen_segment(rng) for _ in range(rng.randint(0, 3)))
        else:
            p = rng.choice(['', '/', '//', '/\n', '\n'])
        w = to_wsgi(p)
        r = rng.random()
        if r < 0.06:
            i = rng.randrange(len(w) + 1)
            w = w[:i] + rng.choice(INVALID_UTF8) + w[i:]
        elif r < 0.075:
            w = None
        reqs.append({'path': w, 'method': rng.choice(['GET', 'GET', 'POST', 'HEAD']),
                     'headers': ['X-A'] if rng.random() < 0.3 else [],
                     'accept': rng.choice([None, None, 'text/html', 'application/json']),
                     'xhr': rng.random() < 0.4, 'qs': rng.choice(['', '', 'a=1', 'a=2&b=', 'b=x'])})
    # the same path again, later, with other predicate outcomes (a long-lived mapper must not remember)
    for _ in range(rng.choice([0, 1, 2, 3])):
        q = dict(rng.choice(reqs))
        q['method'] = rng.choice(['GET', 'POST', 'HEAD'])
        q['accept'] = rng.choice([None, 'text/html', 'application/json'])
        q['xhr'] = rng.random() < 0.5
        q['qs'] = rng.choice(['', 'a=1', 'a=2&b=', 'b=x'])
        q['headers'] = ['X-A'] if rng.random() < 0.5 else []
        reqs.append(q)
    for i, q in enumerate(reqs):
        q['tag'] = i
    return reqs


BUILTIN_VALUES = {
    'xhr': [None, False, True, 0, 1, ''],
    'request_method': [None, [], '', 'GET', 'POST', ['GET', 'POST'], 'HEAD'],
    'path_info': [None, '', '/a', '/zz'],
    'request_param': [None, '', [], 'a', 'a=1', ['a', 'b'], 'b='],
    'header': [None, '', [], 'X-A', 'X-A:1', 'X-A:2', ['X-A', 'X-B']],
    'accept': [None, [], 'text/html', ['text/html', 'application/json']],
    'is_authenticated': [None, False, True, 0],
    'effective_principals': [None, [], 'a', ['a']],
    'traverse': [None, '', '/t', '/t/fixed'],
}


def gen_preds(rng, intent, router):
    preds = []
    if rng.random() < 0.45:
        n = rng.choice([1, 1, 2, 3])
        for _ in range(n):
            r = rng.random()
            names = [t[1] for t in (intent or []) if t[0] == 'ph']
            if r < 0.3:
                preds.append(['c', rng.random() < 0.55])
            elif r < 0.55:
                preds.append(['q', [rng.random() < 0.55 for _ in range(rng.choice([2, 3, 5]))]])
            elif r < 0.75 and names:
                preds.append(['e', rng.choice(names), rng.choice(['a', 'v', '12', 'x', 'A'])])
            elif r < 0.86 and not any(p[0] == 'm' for p in preds):
                preds.append(['m', rng.choice(['GET', 'POST'])])
            elif r < 0.92 and not any(p[0] == 'a' for p in preds):
                preds.append(['a', rng.choice(['text/html', 'application/json'])])
            elif not any(p[0] == 'h' for p in preds):
                preds.append(['h', 'X-A'])
    preds = preds[:3]
    if router and rng.random() < 0.35:
        # a built-in keyword with a value from its whole range, the falsy ones included
        taken = {'m': 'request_method', 'h': 'header', 'a': 'accept'}
        used = {taken[p[0]] for p in preds if p[0] in taken}
        kw = rng.choice([k for k in BUILTIN_VALUES if k not in used])
        preds.append(['b', kw, rng.choice(BUILTIN_VALUES[kw])])
    return preds


def variant(rng, intent):
    """a relative of a token list that tends to match the same paths: generalise a literal, cut to *rest, copy"""
    t = json.loads(json.dumps(intent))
    r = rng.random()
    names = [n for n in NAMES if n not in [x[1] for x in t if x[0] != 'lit']]
    if r < 0.3:
        return t
    if r < 0.6 and names:
        k = rng.randrange(len(t))
        head = [x for x in t[:k + 1]]
        if head[-1][0] == 'rest':
            return t
        if head[-1][0] == 'ph':
            head.append(['lit', '/'])
        elif not head[-1][1].endswith('/'):
            head[-1][1] += '/'
        return head + [['rest', names[0]]]
    if r < 0.85 and names:
        # turn the last path segment of some literal into a placeholder
        lits = [k for k, x in enumerate(t) if x[0] == 'lit' and x[1].count('/') >= 1 and not x[1].endswith('/')]
        if lits and all(x[0] != 'ph' or x[3] == 'brace' for x in t):
            k = rng.choice(lits)
            i = t[k][1].rfind('/')
            nxt = t[k + 1] if k + 1 < len(t) else None
            if nxt is None or nxt[0] != 'ph':
                return t[:k] + [['lit', t[k][1][:i + 1]], ['ph', names[0], None, 'brace']] + t[k + 1:]
        return t
    if any(x[0] == 'ph' and x[2] is not None for x in t):
        return [x if not (x[0] == 'ph' and x[2] is not None) else ['ph', x[1], None, 'brace'] for x in t]
    return t


def mk_route(rng, name, intent, router, static_ok=True):
    pattern = render(intent, drop_lead=rng.random() < 0.2)
    it = intent if faithful(intent, pattern if pattern.startswith('/') else '/' + pattern) else None
    if router and is_external(pattern):
        pattern, it = '/' + pattern.lstrip('/'), None
        if is_external(pattern):
            pattern, it = '/ext', [['lit', '/ext']]
    return {'name': name, 'pattern': pattern, 'preds': gen_preds(rng, intent, router),
            'static': static_ok and rng.random() < 0.07, 'intent': it, 'depth': 0}


MAL_ALPHA = list('{}{}::**//ab1_x.\\+') + ['\n', 'é', '-', ' ', '[', ')']


def gen_malformed_route(rng, name):
    """pattern text straight from an alphabet of the grammar's own special characters (no intent, no oracle)"""
    s = ''.join(rng.choice(MAL_ALPHA) for _ in range(rng.randint(0, 9)))
    return {'name': name, 'pattern': s, 'preds': [], 'static': False, 'intent': None, 'depth': 0}


def gen_case(rng, mode=None, malformed=False):
    mode = mode or rng.choice(['mapper', 'mapper', 'mapper', 'router', 'include'])
    router = mode != 'mapper'
    n = rng.choice([1, 2, 2, 3, 3, 4, 5, 6])
    routes = []
    base = gen_intent(rng)
    for k in range(n):
        if malformed and rng.random() < 0.5:
            mr = gen_malformed_route(rng, 'r%d' % k)
            if router and is_external(mr['pattern']):        # add_route would make it an external static route (or
                mr['pattern'] = '/' + mr['pattern'].lstrip('/')   # urlparse raises): outside this property
                if is_external(mr['pattern']):
                    mr['pattern'] = '/ext'
            routes.append(mr); continue
        r = rng.random()
        if k and r < 0.55:
            src = rng.choice([x['intent'] for x in routes if x['intent']] or [base])
            intent = variant(rng, src)
        else:
            intent = gen_intent(rng)
        routes.append(mk_route(rng, 'r%d' % k, intent, router))
    if rng.random() < 0.3:
        # several routes with the IDENTICAL pattern string: the earlier ones write into their match dictionary (custom
        # predicate, or the built-in traverse= in Router modes) and are then passed over by a failing predicate — the later,
        # selected route must still see only its own captures
        cands = [x for x in routes if x['intent'] is not None and not x['static']]
        if cands:
            base_r = rng.choice(cands)
            at = routes.index(base_r)
            phs = [t[1] for t in base_r['intent'] if t[0] != 'lit']
            for c in range(rng.choice([1, 1, 2])):
                r = rng.random()
                if r < 0.3 or not phs:
                    w = ['w', 'set', rng.choice(['_added', 'traverse'] if not router else ['_added']), 'leak']
                elif r < 0.5:
                    w = ['w', 'set', rng.choice(phs), 'leak']
                elif r < 0.7:
                    w = ['w', 'del', rng.choice(phs), None]
                elif r < 0.85 or not router:
                    w = ['w', 'upper', rng.choice(phs), None]
                else:
                    w = ['b', 'traverse', rng.choice(['/t', '/t/fixed', ''])]
                fail = rng.choice([['c', False], ['c', False], ['q', [False, True]], ['c', True]])
                clone = json.loads(json.dumps(base_r))
                clone['name'] = 'k%d_%s' % (c, base_r['name'])
                clone['preds'] = [w, fail]
                clone.pop('extras', None)
                routes.insert(at, clone)
            n = len(routes)
    if mode == 'mapper' and n >= 2 and rng.random() < 0.15:
        routes[-1]['name'] = routes[rng.randrange(n - 1)]['name']      # re-connect an existing name
    if mode == 'mapper' and rng.random() < 0.35:
        # dispatch -> connect -> dispatch on ONE mapper: later stages re-declare existing names (static, non-static, with the
        # same or another pattern) or add new ones, after the mapper has already answered every request
        stage = 0
        for _ in range(rng.choice([1, 1, 2])):
            stage += 1
            for _ in range(rng.choice([1, 1, 2])):
                live = [x for x in routes if not x['static']]
                r = rng.random()
                if live and r < 0.85:
                    old = rng.choice(live)
                    new = json.loads(json.dumps(old))
                    k = rng.random()
                    if k < 0.4:
                        new['static'] = True                      # the name becomes a generation-only route
                    elif k < 0.6:
                        pass                                      # same pattern again: moves to the end
                    else:
                        other = mk_route(rng, old['name'], variant(rng, rng.choice([x['intent'] for x in routes if x['intent']] or [base])), False, static_ok=False)
                        new['pattern'], new['intent'] = other['pattern'], other['intent']
                    if rng.random() < 0.3:
                        new['preds'] = gen_preds(rng, new['intent'], False)
                else:
                    new = mk_route(rng, 'n%d_%d' % (stage, len(routes)), gen_intent(rng), False)
                new['stage'] = stage
                routes.append(new)
        n = len(routes)
    if mode == 'include':
        d = 0
        for r in routes:
            d = max(0, min(3, d + rng.choice([-1, 0, 0, 1, 1])))
            r['depth'] = d
    if router:
        for r in routes:
            if any(t[0] != 'lit' and t[1] in ('traverse', 'subpath') for t in (r['intent'] or [])):
                r['intent'] = None
    case = {'mode': mode, 'routes': routes}
    if router:
        # the add_route layer: route prefixes (plain literal text, slashes at either end or not), path= for pattern=,
        # the empty pattern with and without inherit_slash, arguments that must not influence dispatch
        def gen_prefix():
            r = rng.random()
            if r < 0.35:
                return None
            body = '/'.join(rng.choice(['api', 'v1', 'a', 'x.y', 'A-b', '_', '~u']) for _ in range(rng.choice([1, 1, 2])))
            return rng.choice(['', '/', '//']) + body + rng.choice(['', '/', '//']) if r < 0.9 else rng.choice(['', '/', '//'])
        case['top_prefix'] = gen_prefix() if rng.random() < 0.3 else None
        if mode == 'include':
            case['inc_prefixes'] = [gen_prefix() if rng.random() < 0.7 else None for _ in range(3)]
        for r in routes:
            if rng.random() < 0.12:
                r['usepath'] = True
            if rng.random() < 0.06 and r['intent'] is not None:
                r['pattern'], r['intent'] = '', [['lit', '/']]
                r['inherit'] = rng.random() < 0.5
            ex = [x for x in ('factory', 'global_views', 'pregenerator') if rng.random() < 0.15]
            if ex:
                r['extras'] = ex
    case['reqs'] = gen_reqs(rng, routes, rng.choice([4, 6, 8]), [effective_intent(case, r) for r in routes])
    if any(p[0] == 'b' and p[1] in ('path_info', 'traverse') and p[2] is not None for r in routes for p in r['preds']):
        for q in case['reqs']:
            if q['path'] is None:                # the path_info predicate, and traversal under a 'traverse' key, read PATH_INFO
                q['path'] = ''
    feasible(case)
    return case


def permuted(rng, case, k):
    out = []
    for _ in range(k):
        c = json.loads(json.dumps(case))
        rng.shuffle(c['routes'])
        c['routes'].sort(key=lambda r: r.get('stage', 0))          # stages stay in order (stable)
        if c['mode'] == 'include':
            for r, r0 in zip(c['routes'], case['routes']):
                r['depth'] = r0['depth']
        out.append(c)
    return out


def strip_case(case):
    out = {'mode': case['mode'], 'routes': [{k: v for k, v in r.items() if k != 'intent'} for r in case['routes']], 'reqs': case['reqs']}
    for k in ('top_prefix', 'inc_prefixes'):
        if k in case:
            out[k] = case[k]
    return out


# ------------------------------------------------------------------------------------------------ run / search / replay

WITNESS_REST_NL = {'mode': 'mapper', 'routes': [
    {'name': 'r0', 'pattern': '/a/*rest', 'preds': [], 'static': False, 'depth': 0,
     'intent': [['lit', '/a/'], ['rest', 'rest']]}], 'reqs': [{'path': '/a/b\nc', 'method': 'GET', 'headers': []}]}


def check_tables(ctx, notes):
    """the model's ASCII tables for \\d \\w \\s and re.escape against the real `re`"""
    t = ctx.run_model([{'op': 'tables'}])[0]
    real = {'word': [i for i in range(128) if re.fullmatch(r'\w', chr(i))],
            'digit': [i for i in range(128) if re.fullmatch(r'\d', chr(i))],
            'space': [i for i in range(128) if re.fullmatch(r'\s', chr(i))],
            'special': [i for i in range(128) if re.escape(chr(i)) != chr(i)]}
    bad = [k for k in real if real[k] != t.get(k)]
    notes.append('ASCII tables (\\w \\d \\s, re.escape) of the model equal those of `re`: %s' % (not bad))
    return [{'case': {'op': 'tables'}, 'impl': {k: real[k] for k in bad}, 'model': {k: t.get(k) for k in bad}}] if bad else []


def shrink_violation(v):
    case = v['case']

    def still(c):
        try:
            if not isinstance(c, dict) or not c.get('routes') or not c.get('reqs') or c.get('mode') != case['mode']:
                return False
            for r in c['routes']:
                if r['intent'] is not None and not faithful(r['intent'], r['pattern'] if r['pattern'].startswith('/') else '/' + r['pattern']):
                    return False
                if r['intent'] is not None and render(r['intent']) not in (r['pattern'], '/' + r['pattern']):
                    return False
            _, _, vs, _ = check_case(c)
            return any(bool(x.get('finding')) == bool(v.get('finding')) for x in vs)
        except Exception:
            return False
    # structural shrinking only: drop routes / requests / predicates (pattern text and intent must stay in step)
    cur = case
    progress = True
    while progress:
        progress = False
        for key in ('routes', 'reqs'):
            for i in range(len(cur[key])):
                c = dict(cur); c[key] = cur[key][:i] + cur[key][i + 1:]
                if still(c):
                    cur, progress = c, True
                    break
            if progress:
                break
        if progress:
            continue
        for i, r in enumerate(cur['routes']):
            for j in range(len(r['preds'])):
                r2 = dict(r); r2['preds'] = r['preds'][:j] + r['preds'][j + 1:]
                c = dict(cur); c['routes'] = cur['routes'][:i] + [r2] + cur['routes'][i + 1:]
                if still(c):
                    cur, progress = c, True
                    break
            if progress:
                break
        if progress:
            continue
        # shorten the request path
        for qi, q in enumerate(cur['reqs']):
            p = q['path'] or ''
            for i in range(len(p)):
                q2 = dict(q); q2['path'] = p[:i] + p[i + 1:]
                c = dict(cur); c['reqs'] = cur['reqs'][:qi] + [q2] + cur['reqs'][qi + 1:]
                if still(c):
                    cur, progress = c, True
                    break
            if progress:
                break
    _, _, vs, _ = check_case(cur)
    for x in vs:
        if bool(x.get('finding')) == bool(v.get('finding')):
            return x
    return v


def run_cases(ctx, cases, dist, seen, nontriv, use_model=True):
    mism, viol, agree, evals = [], [], 0, 0
    replies_all = None
    if use_model and ctx.driver_path:
        lines, spans = [], []
        stage_spans = []
        for c in cases:
            ls, lib = model_lines(c)
            spans.append((len(lines), len(ls), lib))
            lines += ls
            ss = []
            for _, sub in stage_subcases(c):
                sl, _ = model_lines(sub)
                ss.append((len(lines), len(sl)))
                lines += sl
            stage_spans.append(ss)
        out = ctx.run_model(lines)
        replies_all, stage_all = [], []
        for (a, n, lib), c, ss in zip(spans, cases, stage_spans):
            stage_all.append([out[x:x + y] for x, y in ss])
            reps = out[a:a + n]
            # printer cross-check: the driver's text of every tree equals the text this harness gave to add_route
            if reps and 'rxtext' in reps[0]:
                mine = [rx_print(x) for x in lib]
                theirs = [txt(t) for t in reps[0]['rxtext']]
                if mine != theirs:
                    mism.append({'case': c, 'impl': {'rx_print': mine}, 'model': {'rx_print': theirs}})
                if not all(reps[0]['rxok']):
                    bump(dist, 'rx_outside_fragment')
            replies_all.append(reps)
    for ci, case in enumerate(cases):
        reps = replies_all[ci] if replies_all is not None else None
        got, m, v, info = check_case(case, reps, stage_all[ci] if replies_all is not None else None)
        if case['mode'] == 'mapper' and any(r.get('stage', 0) for r in case['routes']):
            bump(dist['features'], 'dispatch / connect / dispatch on one mapper')
        mism += m
        viol += v
        bump(dist['mode'], case['mode'])
        bump(dist['routes_per_list'], len(case['routes']))
        if 'config_error' in info:
            bump(dist['config_errors'], info['config_error'])
        for r in case['routes']:
            bump(dist['intent'], 'with' if r['intent'] is not None else 'without')
            for t in (r['intent'] or []):
                bump(dist['tokens'], t[0] if t[0] != 'ph' else 'ph:' + ('old' if t[3] == 'colon' else 'default' if t[2] is None else 'regex'))
            if r['static']:
                bump(dist['features'], 'static')
            for p in r['preds']:
                bump(dist['preds'], p[0])
        if len({r['name'] for r in case['routes']}) < len(case['routes']):
            bump(dist['features'], 'reconnect')
        if case['mode'] == 'mapper':
            for c in got['compile']:
                bump(dist['compile'], c)
        sc = strip_case(case)
        for k, req in enumerate(case['reqs']):
            evals += 1
            pi = info['per_req'][k] if k < len(info['per_req']) else {}
            g = pi.get('got')
            bump(dist['outcome'], g if isinstance(g, str) else 'hit')
            if pi.get('unsupported'):
                bump(dist, 'outside_model')
            if pi.get('agree'):
                agree += 1
            if pi.get('exp') is None:
                bump(dist, 'oracle_skipped')
            p = decode_wsgi(req['path'])
            if p is not None:
                if '\n' in p:
                    bump(dist['path'], 'has LF')
                if any(ord(c) > 127 for c in p):
                    bump(dist['path'], 'non-ASCII')
                if '%' in p:
                    bump(dist['path'], 'percent')
            else:
                bump(dist['path'], 'invalid UTF-8')
            if req['path'] is None:
                bump(dist['path'], 'PATH_INFO missing')
            nm = pi.get('nmatch')
            if nm is None and case['mode'] == 'mapper' and got.get('nmatch') and got['nmatch'][k] is not None:
                nm = got['nmatch'][k]
            if nm is not None:
                matching = sum(1 for x in nm if x)
                bump(dist['routes_matching_path'], min(matching, 4))
                if any(x > 1 for x in nm):
                    bump(dist['features'], 'several splits of one pattern')
                hit_idx = None
                if isinstance(g, dict):
                    order = declared_order(case['routes'])
                    hit_idx = order.index(g['id']) if g['id'] in order else None
                skipped = (hit_idx is not None and any(nm[:hit_idx])) or (g == 'none' and matching > 0)
                if skipped:
                    bump(dist['features'], 'matching route passed over (predicate)')
                key = vfutil.canon([sc['mode'], sc['routes'], req])
                if key not in seen:
                    seen.add(key)
                    if matching >= 2 or skipped:
                        nontriv.add(key)
    return mism, viol, agree, evals


def new_dist():
    return {'mode': {}, 'routes_per_list': {}, 'intent': {}, 'tokens': {}, 'preds': {}, 'features': {}, 'compile': {},
            'outcome': {}, 'path': {}, 'routes_matching_path': {}, 'config_errors': {}}


def exhaustive_cases(max_routes, max_segs):
    """small scope: route lists over 8 patterns x all paths over a 5-symbol segment alphabet"""
    pats = [
        ('/a', [['lit', '/a']]),
        ('/{x}', [['lit', '/'], ['ph', 'x', None, 'brace']]),
        ('/a/{x}', [['lit', '/a/'], ['ph', 'x', None, 'brace']]),
        ('/a.b', [['lit', '/a.b']]),
        ('/{x}/{y}', [['lit', '/'], ['ph', 'x', None, 'brace'], ['lit', '/'], ['ph', 'y', None, 'brace']]),
        ('/a/*r', [['lit', '/a/'], ['rest', 'r']]),
        ('/{x}.{y}', [['lit', '/'], ['ph', 'x', None, 'brace'], ['lit', '.'], ['ph', 'y', None, 'brace']]),
        ('/:x/b', [['lit', '/'], ['ph', 'x', None, 'colon'], ['lit', '/b']]),
    ]
    segs = ['a', 'b', 'a.b', 'aXb', 'é']
    paths = []
    for n in range(max_segs + 1):
        for combo in itertools.product(segs, repeat=n):
            base = '/' + '/'.join(combo)
            paths += [base, base + '/', base + '\n']
    reqs = [{'path': to_wsgi(p), 'method': 'GET', 'headers': []} for p in paths]
    cases = []
    for n in range(1, max_routes + 1):
        for combo in itertools.permutations(range(len(pats)), n):
            for mask in range(1 << n) if n <= 2 else (0, (1 << n) - 2):
                routes = [{'name': 'r%d' % k, 'pattern': pats[i][0], 'intent': pats[i][1], 'static': False, 'depth': 0,
                           'preds': [['c', False]] if (mask >> k) & 1 else []} for k, i in enumerate(combo)]
                cases.append({'mode': 'mapper', 'routes': routes, 'reqs': reqs})
    return cases


def predicate_cube_cases():
    """small scope for the add_route predicate keywords: two routes with the same pattern, the first carrying ONE built-in
    keyword with a value from the whole cube (falsy and truthy), the second none; requests on every side of every such
    predicate (xhr x method x header x accept x query string), through Router.__call__"""
    reqs = []
    tag = 0
    for xhr in (False, True):
        for method in ('GET', 'POST', 'HEAD'):
            for headers in ([], ['X-A']):
                for accept in (None, 'text/html', 'application/json'):
                    for qs in ('', 'a=1', 'a=2&b='):
                        reqs.append({'path': '/data/7', 'method': method, 'headers': headers, 'accept': accept, 'xhr': xhr,
                                     'qs': qs, 'tag': tag})
                        tag += 1
    reqs += [dict(reqs[0], path='/a/data', tag=tag), dict(reqs[0], path='/other', tag=tag + 1)]
    it = [['lit', '/data/'], ['ph', 'id', None, 'brace']]
    cases = []
    for kw, values in BUILTIN_VALUES.items():
        for v in values:
            for mode in (('router', 'include') if v in (False, '', [], 0) else ('router',)):
                cases.append({'mode': mode, 'routes': [
                    {'name': 'plain', 'pattern': '/data/{id}', 'preds': [['b', kw, v]], 'static': False, 'intent': it, 'depth': 1},
                    {'name': 'other', 'pattern': '/data/{id}', 'preds': [], 'static': False, 'intent': it, 'depth': 0}],
                    'reqs': reqs})
    return cases


def run(ctx):
    rng = ctx.rng
    notes = []
    dist = new_dist()
    seen, nontriv = set(), set()
    corpus = [c for _, c in ctx.corpus()]
    mism = check_tables(ctx, notes) if ctx.driver_path else []
    n_lists = ctx.n(1200, 9000)
    cases = list(corpus)
    base_cases = []
    for i in range(n_lists):
        c = gen_case(rng, malformed=(i % 8 == 7))
        base_cases.append(c)
        cases.append(c)
        if len(c['routes']) >= 2:
            nperm = 2 if ctx.tier == 'quick' else 3
            if ctx.tier == 'thorough' and len(c['routes']) <= 4 and c['mode'] == 'mapper' and i % 10 == 0:
                for perm in itertools.permutations(c['routes']):
                    c2 = json.loads(json.dumps(c)); c2['routes'] = json.loads(json.dumps(list(perm)))
                    c2['routes'].sort(key=lambda r: r.get('stage', 0))
                    cases.append(c2)
            else:
                cases += permuted(rng, c, nperm)
    viol, agree, evals = [], 0, 0
    chunk = 400
    for a in range(0, len(cases), chunk):
        if ctx.time_left() < 120:
            notes.append('time budget: stopped after %d of %d route lists' % (a, len(cases)))
            break
        m, v, ag, ev = run_cases(ctx, cases[a:a + chunk], dist, seen, nontriv)
        mism += m; viol += v; agree += ag; evals += ev
    # small-scope exhaustive part (mapper mode, impl vs oracle vs model)
    ex = exhaustive_cases(2, 2) if ctx.tier == 'quick' else exhaustive_cases(2, 3)
    exd = new_dist()
    m, v, ag, ev = run_cases(ctx, ex, exd, set(), set())
    mism += m; viol += v; agree += ag; evals += ev
    dist['exhaustive_scope'] = {'route_lists': len(ex), 'evaluations': ev,
                                'what': 'all ordered lists of <= 2 of 8 patterns (literal, {x}, literal+{x}, literal with ".", two '
                                        'placeholders, *rest, two placeholders in one segment, old-style) x each route with/without a '
                                        'failing predicate x all paths of <= %d segments over {a,b,a.b,aXb,é}, each also with a trailing '
                                        '"/" and a trailing LF' % (2 if ctx.tier == 'quick' else 3)}
    pc = predicate_cube_cases()
    m, v, ag, ev = run_cases(ctx, pc, exd, set(), set())
    mism += m; viol += v; agree += ag; evals += ev
    dist['predicate_cube'] = {'applications': len(pc), 'evaluations': ev,
                              'what': 'two same-pattern routes, the first with one built-in add_route predicate keyword from the value '
                                      'cube %s, x 110 requests (xhr x method x header x accept x query string, two other paths)'
                                      % json.dumps(BUILTIN_VALUES)}
    # the witness of the repaired finding F-C01b, kept as a regression case (must pass now)
    _, _, wv, _ = check_case(WITNESS_REST_NL)
    notes.append('regression F-C01b, repaired by fc43a19 (/a/*rest vs /a/b\\nc): %s' % (['%s' % (x['impl'],) for x in wv] or 'matches, no violation'))
    viol += wv
    # shrink, dedupe known
    out_viol, known_seen = [], set()
    for v in viol:
        if v.get('finding'):
            if v['finding'] in known_seen:
                continue
            known_seen.add(v['finding'])
            out_viol.append(v)
        elif len(out_viol) < 8:
            out_viol.append(shrink_violation(v))
    dist['known_finding_cases'] = sum(1 for v in viol if v.get('finding'))
    samples = [strip_case(c) for c in base_cases[:3]]
    for s in samples:
        s['reqs'] = s['reqs'][:2]
    return {'evaluations': evals, 'distinct_nontrivial': len(nontriv), 'rule': RULE, 'agreeing': agree, 'samples': samples,
            'mismatches': mism[:40], 'violations': out_viol, 'distribution': dist, 'notes': notes, 'exhaustive': True,
            'assumptions': [
                'route predicates are opaque truth values, tests of the match dictionary, or the real request_method/header predicates',
                'placeholder regexes are drawn from the Rx fragment (no back-references, look-around, flags, nested named groups, '
                'repeat bodies that can match the empty string); patterns outside it are counted (outside_model) and only their '
                'compile status is compared',
                'group names are ASCII; patterns whose names are not are outside the model',
                'Router modes avoid patterns that urlparse() reads as having a host (add_route turns those into external static routes)'],
            'trusted_base': [
                'Python `re` for the Rx fragment (the model\'s backtracking matcher is tied to it only by this run), re.escape, '
                'str methods, the utf-8/latin-1 codecs, WebOb Request.path_info',
                'the Unicode database: membership of non-ASCII characters in \\w \\d \\s is supplied to the model by the harness',
                'core Lean UTF-8 codec stands for Python\'s strict utf-8 codec']}


def search(ctx):
    """bounded exhaustive search on the implementation alone (oracle = intents): lists of <= 3 of the 8 patterns x paths of
    <= 3 segments; used only after a proof / translator / correspondence break"""
    viol, n, exhaustive = [], 0, True
    for case in itertools.chain(exhaustive_cases(2, 3), exhaustive_cases(3, 2)[::1]):
        if ctx.time_left() < 60:
            exhaustive = False
            break
        _, _, v, _ = check_case(case)
        n += len(case['reqs'])
        v = [x for x in v if not x.get('finding')]
        if v:
            viol.append(shrink_violation(v[0]))
            if len(viol) >= 3:
                exhaustive = False
                break
    if not viol:
        rng = ctx.rng
        for i in range(ctx.n(1500, 6000)):
            if ctx.time_left() < 45:
                break
            case = gen_case(rng)
            _, _, v, _ = check_case(case)
            n += len(case['reqs'])
            v = [x for x in v if not x.get('finding')]
            if v:
                viol.append(shrink_violation(v[0]))
                if len(viol) >= 3:
                    break
    return {'violations': viol, 'searched': n, 'exhaustive': exhaustive}


def replay(ctx, rep):
    case = rep.get('case')
    if case is None:
        return {'violates': False, 'note': 'replay names broken obligations only', 'broken': rep.get('broken_obligations')}
    reps = None
    sreps = None
    if ctx.driver_path:
        lines, _ = model_lines(case)
        reps = ctx.run_model(lines)
        sreps = [ctx.run_model(model_lines(sub)[0]) for _, sub in stage_subcases(case)]
    got, m, v, info = check_case(case, reps, sreps)
    exp = [expected(case, q) for q in case['reqs']]
    return {'case': case, 'impl': got, 'model': [None if r is None or r.get('unsupported') else decode_model_out(r['outcome']) for r in (reps or [])],
            'spec': [None if e is None else e['out'] for e in exp], 'mismatch': m, 'violations': v,
            'violates': any(not x.get('finding') for x in v), 'known_finding': sorted({x['finding'] for x in v if x.get('finding')})}
