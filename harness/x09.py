"""X09 — dotted-name resolution (pyramid.path.DottedNameResolver, Resolver.get_package*, Configurator.maybe_dotted):
correspondence harness, property oracle (an independent Python reading of the statement + metamorphic clauses), search, replay.

Case (JSON):
 {"mods":  [[dotted, "pkg"|"module"|"bad"], ...]      files written below a fresh directory on sys.path ("bad" raises ImportError)
  "attrs": [[owner, name, id], ...]                   owner = ["m", dotted] | ["o", id]: an object with identity `id` bound as
                                                      attribute `name` by the body of the owning module (may shadow a submodule)
  "pre":   [dotted, ...]                              imported beforehand (failures ignored)
  "mode":  "dnr" | "cfg"                              DottedNameResolver(pkg) | Configurator(package=pkg).maybe_dotted
  "pkg":   {"k":"none"} | {"k":"caller","v":dotted} | {"k":"name","v":str} | {"k":"obj","v":dotted}
  "ops":   [{"m":"resolve"|"maybe"|"name"|"package", "s": str} | {"m":…, "o": int}, ...]   run in order on ONE resolver}
Observation: {"init": "ok"|"ValueError"|"invalid"|…, "init_calls", "init_finds", "ops":[{"out":O,"calls":[…],"finds":[…]}…], "loaded":[…]}
 O = {"ok":["mod",dotted]} | {"ok":["att",id]} | {"ok":["same",n]} | {"ok":["str",text]} | {"err": kind}
 calls = the arguments of path.py's own __import__ / import_module calls; finds = modules looked for by the import system
 (names that were not in sys.modules), both in order.
"""
import atexit, importlib, json, os, shutil, sys, tempfile, warnings
import vfutil

RULE = ('distinct cases (canonical JSON) in which at least one operation on a string argument made the import system look for a module '
        '(>= 1 find) or returned an object reached through >= 2 segments; cases whose every operation fails before any import, or '
        'works on an already imported single name, are trivial')

TOPS = ['qa', 'qb', 'qtop']
SEGS = ['m', 'n', 'k', 'sub', 'é']
ANAMES = ['x', 'y', 'm', 'n', 'sub', 'k']
NONSTR = 4          # number of distinct non-string arguments

_ROOT = [None]
_SEQ = [0]


def _root():
    if _ROOT[0] is None:
        _ROOT[0] = tempfile.mkdtemp(prefix='vx09_')
        atexit.register(lambda: shutil.rmtree(_ROOT[0], ignore_errors=True))
    return _ROOT[0]


class _Rec:
    def __init__(self):
        self.on = False
        self.calls = []
        self.finds = []

    def find_spec(self, name, path=None, target=None):
        if self.on:
            self.finds.append(name)
        return None

    def take(self):
        c, f = self.calls, self.finds
        self.calls, self.finds = [], []
        return c, f


def mods(ctx):
    src = ctx.src
    if src not in sys.path or sys.path[0] != src:
        sys.path.insert(0, src)
    sys.dont_write_bytecode = True
    warnings.simplefilter('ignore')
    import pyramid.path as P
    import pyramid.config as C
    for m in (P, C):
        if not os.path.realpath(m.__file__).startswith(os.path.realpath(src)):
            raise RuntimeError('pyramid imported from %s, not from the tree under test %s' % (m.__file__, src))
    rec = _Rec()
    import builtins

    def rec_import(name, *a, **k):
        if rec.on:
            rec.calls.append(name)
        return builtins.__import__(name, *a, **k)

    def rec_import_module(name, *a, **k):
        if rec.on:
            rec.calls.append(name)
        return importlib.import_module(name, *a, **k)
    P.__dict__['__import__'] = rec_import          # module globals are looked up before builtins
    P.import_module = rec_import_module
    sys.meta_path[:] = [f for f in sys.meta_path if not isinstance(f, _Rec)]
    sys.meta_path.insert(0, rec)
    return {'P': P, 'Configurator': C.Configurator, 'rec': rec}


# ------------------------------------------------------------------------------------------------------------------
# implementation side
MOD_HEAD = ("class _O:\n    def __init__(self, i):\n        self._vid = i\n"
            "def _vx_call(f, *a, **k):\n    return f(*a, **k)\n_objs = {}\n")


def _materialise(case, d):
    kinds = {m: k for m, k in case['mods']}
    body = {m: [] for m in kinds}
    home = {}                                             # att id -> module that creates it
    pending = list(case['attrs'])
    progress = True
    while pending and progress:
        progress = False
        for a in list(pending):
            owner, name, i = a
            if owner[0] == 'm':
                if owner[1] in body:
                    body[owner[1]].append('_objs[%d] = _O(%d)\nglobals()[%r] = _objs[%d]\n' % (i, i, name, i))
                    home[i] = owner[1]
                pending.remove(a); progress = True
            elif owner[1] in home:
                h = home[owner[1]]
                body[h].append('_objs[%d] = _O(%d)\nsetattr(_objs[%d], %r, _objs[%d])\n' % (i, i, owner[1], name, i))
                home[i] = h
                pending.remove(a); progress = True
    for m, k in case['mods']:
        segs = m.split('.')
        if k == 'pkg':
            p = os.path.join(d, *segs)
            os.makedirs(p, exist_ok=True)
            f = os.path.join(p, '__init__.py')
        else:
            os.makedirs(os.path.join(d, *segs[:-1]), exist_ok=True)
            f = os.path.join(d, *segs[:-1], segs[-1] + '.py')
        with open(f, 'w', encoding='utf-8') as fh:
            if k == 'bad':
                fh.write("raise ImportError('boom')\n")
            else:
                fh.write(MOD_HEAD + ''.join(body[m]))


def _purge(d):
    root = _root()
    for k in [k for k, v in list(sys.modules.items()) if (getattr(v, '__file__', None) or '').startswith(root)]:
        del sys.modules[k]
    for k in [k for k in sys.path_importer_cache if k.startswith(root)]:
        del sys.path_importer_cache[k]
    while d in sys.path:
        sys.path.remove(d)
    importlib.invalidate_caches()
    shutil.rmtree(d, ignore_errors=True)


def _err(e):
    if isinstance(e, ImportError):
        return 'ImportError'
    if isinstance(e, ValueError):
        return 'ValueErrorRel' if 'irresolveable without package' in str(e) else 'ValueError'
    return type(e).__name__


def _obj(M, v, nonstr):
    root = _root()
    if isinstance(v, type(sys)):
        if (getattr(v, '__file__', None) or '').startswith(root):
            return ['mod', v.__name__]
        return ['other', 'module ' + v.__name__]
    if hasattr(v, '_vid') and type(v).__name__ == '_O':
        return ['att', v._vid]
    for i, o in enumerate(nonstr):
        if v is o:
            return ['same', i]
    if isinstance(v, str):
        return ['str', v]
    return ['other', type(v).__name__]


def impl(M, case):
    rec = M['rec']
    P = M['P']
    _SEQ[0] += 1
    d = os.path.join(_root(), 'c%d' % _SEQ[0])
    os.makedirs(d)
    out = {'init': 'ok', 'init_calls': [], 'init_finds': [], 'ops': [], 'loaded': []}
    nonstr = [None, 7, ('qa', 'm'), b'qa.m'][:NONSTR]
    try:
        _materialise(case, d)
        sys.path.insert(0, d)
        importlib.invalidate_caches()
        pk = case['pkg']
        pre = list(case['pre'])
        for m in pre:
            try:
                importlib.import_module(m)
            except Exception:  # noqa
                pass
        caller = None
        if pk['k'] in ('caller', 'obj'):
            try:
                target = importlib.import_module(pk['v'])
            except Exception:  # noqa
                out['init'] = 'invalid'
                return out
            if pk['k'] == 'caller':
                caller = target
        arg = None if pk['k'] == 'none' else P.CALLER_PACKAGE if pk['k'] == 'caller' else pk['v'] if pk['k'] == 'name' else target
        cfg = None
        try:
            if case['mode'] == 'cfg':
                if pk['k'] == 'caller':
                    cfg = caller._vx_call(M['Configurator'])
                else:
                    cfg = M['Configurator'](package=arg)
                r = cfg.name_resolver
            else:
                rec.on = True
                try:
                    r = P.DottedNameResolver(arg)
                finally:
                    rec.on = False
                out['init_calls'], out['init_finds'] = rec.take()
        except Exception as e:  # noqa
            rec.on = False
            c, f = rec.take()
            if case['mode'] != 'cfg':
                out['init_calls'], out['init_finds'] = c, f
            out['init'] = _err(e)
            return out
        for op in case['ops']:
            a = op['s'] if 's' in op else nonstr[op['o'] % len(nonstr)]
            if case['mode'] == 'cfg' and op['m'] in ('resolve', 'maybe'):
                f = cfg.maybe_dotted if op['m'] == 'maybe' else r.resolve
                args = (a,)
            else:
                f, args = {'resolve': (r.resolve, (a,)), 'maybe': (r.maybe_resolve, (a,)), 'name': (r.get_package_name, ()),
                           'package': (r.get_package, ())}[op['m']]
            rec.on = True
            try:
                if caller is not None and not (case['mode'] == 'cfg' and op['m'] == 'maybe'):
                    v = caller._vx_call(f, *args)
                else:
                    v = f(*args)
                o = {'ok': _obj(M, v, nonstr)}
            except Exception as e:  # noqa
                o = {'err': _err(e)}
            finally:
                rec.on = False
            c, fi = rec.take()
            out['ops'].append({'out': o, 'calls': c, 'finds': fi})
        return out
    finally:
        rec.on = False
        root = _root()
        out['loaded'] = sorted(k for k, v in list(sys.modules.items()) if (getattr(v, '__file__', None) or '').startswith(root))
        _purge(d)


# ------------------------------------------------------------------------------------------------------------------
# the reading of the statement: an independent Python reference over the module universe (no import system, no pyramid)
class Ref:
    def __init__(self, case):
        self.kind = {tuple(m.split('.')): k for m, k in case['mods']}
        self.attr = {}
        for owner, name, i in case['attrs']:
            key = ('m', tuple(owner[1].split('.'))) if owner[0] == 'm' else ('o', owner[1])
            self.attr.setdefault((key, name), i)
        # an attribute whose owner chain does not end in an existing non-bad module is never created
        self.loaded = []
        self.calls, self.finds = [], []

    def alive(self, key):
        seen = set()
        while key[0] == 'o':
            if key in seen:
                return False
            seen.add(key)
            ks = [k for (k, n), i in self.attr.items() if i == key[1]]
            if not ks:
                return False
            key = ks[0]
        return self.kind.get(key[1]) in ('pkg', 'module')

    def imp(self, path):
        """the import system on a dotted path: None or an error kind"""
        if path and path[0] == '':
            return 'ValueError'
        done = ()
        for s in path:
            cur = done + (s,)
            if cur in self.loaded:
                done = cur
                continue
            if done and self.kind.get(done) != 'pkg':
                return 'ImportError'
            self.finds.append('.'.join(cur))
            if self.kind.get(cur) not in ('pkg', 'module'):
                return 'ImportError'
            self.loaded.append(cur)
            done = cur
        return None

    def call(self, path):
        self.calls.append('.'.join(path))
        return self.imp(path)

    def getattr(self, obj, n):
        if obj[0] == 'm':
            if obj[1] + (n,) in self.loaded:
                return ('m', obj[1] + (n,))
        i = self.attr.get((obj, n))
        return None if i is None else ('o', i)

    def package_of(self, p):
        return p if self.kind.get(p) == 'pkg' or len(p) == 1 else p[:-1]

    def resolve(self, pkg, value):
        """pkg: path of the package or None"""
        if ':' in value:
            if value[0] in '.:':
                if pkg is None:
                    return {'err': 'ValueErrorRel'}
                value = '.'.join(pkg) + ('' if value in ('.', ':') else value)
            module, _, rest = value.partition(':')
            attrs = rest.split('.') if ':' in value else []
            path = tuple(module.split('.'))
            e = self.call(path)
            if e:
                return {'err': e}
            found = ('m', path)
            for a in attrs:
                found = self.getattr(found, a)
                if found is None:
                    return {'err': 'ImportError'}
            return {'ok': found}
        if value == '.':
            if pkg is None:
                return {'err': 'ValueErrorRel'}
            name = list(pkg)
        else:
            name = value.split('.')
            if name[0] == '':
                if pkg is None:
                    return {'err': 'ValueErrorRel'}
                dots = len(value) - len(value.lstrip('.'))
                rest = value[dots:]
                if rest == '' or dots - 1 > len(pkg):
                    return {'err': 'IndexError'}
                name = list(pkg[:len(pkg) - (dots - 1)]) + rest.split('.')
        used = (name[0],)
        e = self.call(used)
        if e:
            return {'err': e}
        found = ('m', used)
        for n in name[1:]:
            used = used + (n,)
            nxt = self.getattr(found, n)
            if nxt is None:
                e = self.call(used)
                if e:
                    return {'err': e}
                nxt = self.getattr(found, n)
                if nxt is None:
                    return {'err': 'AttributeError'}
            found = nxt
        return {'ok': found}

    def take(self):
        c, f = self.calls, self.finds
        self.calls, self.finds = [], []
        return c, f


def _show(o):
    if 'ok' in o and isinstance(o['ok'], tuple):
        k, v = o['ok']
        return {'ok': ['mod', '.'.join(v)] if k == 'm' else ['att', v]}
    return o


def reference(case):
    R = Ref(case)
    out = {'init': 'ok', 'init_calls': [], 'init_finds': [], 'ops': [], 'loaded': []}

    def fin():
        out['loaded'] = sorted('.'.join(p) for p in R.loaded)
        return out
    for m in case['pre']:
        R.imp(tuple(m.split('.')))
    pk = case['pkg']
    caller = None
    if pk['k'] in ('caller', 'obj'):
        p = tuple(pk['v'].split('.'))
        if R.imp(p):
            out['init'] = 'invalid'
            return fin()
    R.take()
    pkg = None
    if pk['k'] == 'caller':
        caller = R.package_of(p)
        if case['mode'] == 'cfg':
            R.call(caller)
            pkg, caller = caller, None
    elif pk['k'] == 'name' or pk['k'] == 'obj':
        if pk['k'] == 'name':
            p = tuple(pk['v'].split('.'))
            e = R.call(p)
            if e:
                out['init'] = 'ValueError'
                if case['mode'] != 'cfg':
                    out['init_calls'], out['init_finds'] = R.take()
                return fin()
        pkg = R.package_of(p)
        R.call(pkg)
    c, f = R.take()
    if case['mode'] != 'cfg':
        out['init_calls'], out['init_finds'] = c, f
    for op in case['ops']:
        here = caller if caller is not None else pkg
        if op['m'] == 'name':
            o = {'ok': ['str', '.'.join(here)]} if here is not None else {'err': 'AttributeError'}
        elif op['m'] == 'package':
            o = {'ok': ['mod', '.'.join(here)]} if here is not None else {'ok': ['same', 0]}
        elif 'o' in op:
            o = {'ok': ['same', op['o'] % NONSTR]} if op['m'] == 'maybe' else {'err': 'ValueError'}
        else:
            o = _show(R.resolve(here, op['s']))
        c, f = R.take()
        out['ops'].append({'out': o, 'calls': c, 'finds': f})
    return fin()


def is_relative(s):
    return s[:1] in ('.', ':') if ':' in s else (s == '' or s[0] == '.')


def oracle(M, case, got):
    """(detail, expected, finding).  Clause 0: the reference reading; then the clauses of the statement that can be read off the
    observation alone (they hold whatever the reference says)."""
    exp = reference(case)
    if got != exp:
        for k in ('init', 'init_calls', 'init_finds', 'loaded'):
            if got.get(k) != exp.get(k):
                return 'X09: %s differs from the reading of the statement: got %r, expected %r' % (k, got.get(k), exp.get(k)), exp, None
        for i, (a, b) in enumerate(zip(got['ops'], exp['ops'])):
            if a != b:
                return 'X09: operation %d (%r): got %r, the statement gives %r' % (i, case['ops'][i], a, b), exp, None
        return 'X09: observation differs from the reading of the statement', exp, None
    if got['init'] != 'ok':
        return None, exp, None
    nopkg = case['pkg']['k'] == 'none'
    for i, (op, g) in enumerate(zip(case['ops'], got['ops'])):
        o = g['out']
        if 'o' in op and op['m'] == 'maybe' and o != {'ok': ['same', op['o'] % NONSTR]}:
            return 'X09(5): maybe_resolve is not the identity on a non-string', exp, None
        if 'o' in op and op['m'] == 'resolve' and o != {'err': 'ValueError'}:
            return 'X09(5): resolve of a non-string must raise ValueError', exp, None
        if 's' in op and op['m'] in ('resolve', 'maybe'):
            s = op['s']
            if nopkg and is_relative(s) and (o != {'err': 'ValueErrorRel'} or g['calls'] or g['finds']):
                return 'X09(3): a relative name without a package must raise ValueError and import nothing', exp, None
            if ':' in s and 'err' in o and o['err'] == 'AttributeError':
                return 'X09(7): pkg_resources style reports a missing attribute as ImportError', exp, None
            if ':' in s and len(g['calls']) > 1:
                return 'X09(7): pkg_resources style imports the module part once and nothing after the colon', exp, None
            if i and case['ops'][i - 1] == op and 'ok' in got['ops'][i - 1]['out']:
                prev = got['ops'][i - 1]
                it = iter(prev['calls'])
                if prev['out'] != o or g['finds'] or not all(c in it for c in g['calls']):
                    return 'X09(8): resolving twice must give the same object without a new import', exp, None
    return None, exp, None


# ------------------------------------------------------------------------------------------------------------------
# model side
def enc_case(case):
    return case


def compare_model(case, got, mo):
    if mo is None:
        return None
    if 'error' in mo:
        return 'driver error: %s' % mo['error']
    for k in ('init', 'init_calls', 'init_finds', 'loaded'):
        if got.get(k) != mo.get(k):
            return '%s: impl %r, model %r' % (k, got.get(k), mo.get(k))
    if len(got['ops']) != len(mo.get('ops', [])):
        return 'number of operations'
    for i, (a, b) in enumerate(zip(got['ops'], mo['ops'])):
        if a != b:
            return 'operation %d: impl %r, model %r' % (i, a, b)
    return None


# ------------------------------------------------------------------------------------------------------------------
# generators
def gen_universe(rng):
    mods, attrs = [], []
    nid = [0]

    def add_attrs(owner, depth):
        for nm in rng.sample(ANAMES, rng.choice([0, 0, 1, 1, 2, 3])):
            nid[0] += 1
            i = nid[0]
            attrs.append([owner, nm, i])
            if depth < 2 and rng.random() < 0.5:
                add_attrs(['o', i], depth + 1)

    def add(path, depth, force_pkg=False):
        r = rng.random()
        kind = 'pkg' if force_pkg or (r < 0.5 and depth < 3) else 'bad' if r > 0.88 and path != ['qa'] else 'module'
        name = '.'.join(path)
        mods.append([name, kind])
        if kind == 'bad':
            return
        add_attrs(['m', name], 0)
        if kind == 'pkg':
            for s in SEGS:
                if rng.random() < (0.45 if s != 'é' else 0.15):
                    add(path + [s], depth + 1)
    add(['qa'], 1, force_pkg=rng.random() < 0.85)
    if rng.random() < 0.5:
        add(['qb'], 1)
    if rng.random() < 0.4:
        add(['qtop'], 3)
    return mods, attrs


def targets(mods, attrs):
    """all (module path, attribute chain) pairs that exist on paper"""
    kinds = dict((m, k) for m, k in mods)
    out = []
    kids = {}
    for owner, name, i in attrs:
        kids.setdefault((owner[0], owner[1]), []).append((name, i))

    def walk(key, mod, chain, depth):
        for name, i in kids.get(key, []):
            out.append((mod, chain + [name]))
            if depth < 3:
                walk(('o', i), mod, chain + [name], depth + 1)
    for m in kinds:
        out.append((m, []))
        walk(('m', m), m, [], 0)
    return out


MALFORMED = ['', '.', '..', '...', ':', '::', '.:', ':.', 'qa:', ':m', 'qa..m', 'qa.', '.m.', 'qa.m.', 'qa:m:x', 'qa::x', 'qa:.x', 'qa:x.',
             ' qa', 'qa ', 'qa. m', 'é', 'qa.é', 'QA', 'qa.M', '....m', 'qa.:x', '.:x', '..:x', 'nope', 'nope.m', 'nope:x', 'qa.nope',
             'qa:nope', 'qa.m.nope', 'qa-m', '*', 'qa.*']


def gen_name(rng, mods, attrs, pkgpath):
    r = rng.random()
    if r < 0.12:
        return rng.choice(MALFORMED)
    tg = targets(mods, attrs)
    mod, chain = rng.choice(tg)
    if rng.random() < 0.25:                              # a path that leaves the paper universe
        chain = chain + [rng.choice(ANAMES + SEGS)]
    segs = mod.split('.')
    style = rng.random()
    rel = pkgpath is not None and rng.random() < 0.55
    if rng.random() < 0.08:
        rel = not rel
    prefix = ''
    if rel:
        pp = pkgpath or ['qa']
        k = 0
        while k < len(pp) and k < len(segs) and pp[k] == segs[k]:
            k += 1
        up = len(pp) - k
        if rng.random() < 0.15:
            up += rng.choice([-1, 1, 2])
        up = max(0, up)
        segs = segs[k:]
        prefix = '.' * (up + 1)
    if style < 0.4 and chain:                            # pkg_resources style
        cut = len(segs) if rng.random() < 0.8 else rng.randint(0, len(segs))
        whole = segs + chain
        left, right = whole[:cut], whole[cut:]
        s = prefix + '.'.join(left) + ':' + '.'.join(right)
        if prefix and not left and rng.random() < 0.5:
            s = ':' + '.'.join(right)
    elif style < 0.5:
        s = prefix + '.'.join(segs) + ':' + '.'.join(chain)
    else:
        s = prefix + '.'.join(segs + chain)
    if rng.random() < 0.1:                               # a small mutation
        i = rng.randint(0, len(s))
        m = rng.choice(['ins.', 'ins:', 'del', 'trail', 'uni', 'sp'])
        if m == 'ins.':
            s = s[:i] + '.' + s[i:]
        elif m == 'ins:':
            s = s[:i] + ':' + s[i:]
        elif m == 'del' and s:
            i = min(i, len(s) - 1)
            s = s[:i] + s[i + 1:]
        elif m == 'trail':
            s = s + '.'
        elif m == 'uni':
            s = s[:i] + 'é' + s[i:]
        else:
            s = s[:i] + ' ' + s[i:]
    return s.replace('\x00', '')


def gen_case(rng):
    mods, attrs = gen_universe(rng)
    good = [m for m, k in mods if k != 'bad']
    allm = [m for m, k in mods]
    pre = [rng.choice(allm) for _ in range(rng.choice([0, 0, 0, 1, 1, 2]))]
    mode = 'cfg' if rng.random() < 0.12 else 'dnr'
    r = rng.random()
    if mode == 'cfg':
        pk = {'k': 'caller', 'v': rng.choice(good)} if r < 0.3 else {'k': 'name', 'v': rng.choice(good)} if r < 0.65 else {'k': 'obj', 'v': rng.choice(good)}
    elif r < 0.15:
        pk = {'k': 'none'}
    elif r < 0.35:
        pk = {'k': 'caller', 'v': rng.choice(good)}
    elif r < 0.75:
        v = rng.choice(allm if rng.random() < 0.9 else ['nope', 'qa.nope', 'qa.', '', 'qa..m', 'é'])
        pk = {'k': 'name', 'v': v}
    else:
        pk = {'k': 'obj', 'v': rng.choice(allm)}
    kinds = dict(mods)
    pkgpath = None
    if pk['k'] != 'none' and pk.get('v') in kinds:
        p = pk['v'].split('.')
        pkgpath = p if kinds[pk['v']] == 'pkg' or len(p) == 1 else p[:-1]
    ops = []
    for _ in range(rng.choice([1, 1, 2, 2, 3, 4])):
        r = rng.random()
        if r < 0.06:
            ops.append({'m': rng.choice(['name', 'package']), 'o': 0})
        elif r < 0.14:
            ops.append({'m': rng.choice(['resolve', 'maybe']), 'o': rng.randint(0, NONSTR - 1)})
        else:
            ops.append({'m': rng.choice(['resolve', 'maybe']), 's': gen_name(rng, mods, attrs, pkgpath)})
        if rng.random() < 0.25:
            ops.append(dict(ops[-1]))
    return {'mods': mods, 'attrs': attrs, 'pre': pre, 'mode': mode, 'pkg': pk, 'ops': ops}


U0 = {'mods': [['qa', 'pkg'], ['qa.m', 'module'], ['qa.sub', 'pkg'], ['qa.sub.k', 'module'], ['qa.bad', 'bad'], ['qa.n', 'pkg'], ['qa.n.y', 'module'],
               ['qtop', 'module']],
      'attrs': [[['m', 'qa'], 'm', 1], [['o', 1], 'z', 2], [['m', 'qa.m'], 'v', 3], [['m', 'qa.sub.k'], 'w', 4], [['m', 'qtop'], 't', 5],
                [['m', 'qa'], 'n', 6], [['o', 3], 'deep', 7], [['m', 'qa.sub'], 'x', 8]]}
FIXED_NAMES = ['', '.', '..', '...', '.m', '..m', '...m', 'qa.', 'qa..m', ':', ':m', 'qa:', 'qa:m.z', 'qa:m.q', '.:m', '.sub:k', 'qa.:m', 'a:b:c', 'qa:m:z',
               '.m.z', 'qa.m.v', 'qa.bad', 'qa.sub.k.w', '..qa', 'qa.m.', 'qa:.m', 'qa:m.', 'qa::m', '::', '.:', ':.', 'é', 'qa.é', 'qa m', ' qa',
               'qa.m.v.deep', '.sub', 'qtop.t', '.t', 'qa.sub:', '..:m', '..sub:k', 'qa.nope:x', 'qa.n.y', 'qa.n.y.q', '.n.y', 'qa', 'qtop', 'qa.sub.k:w',
               '.sub.k:w', '.k', '.k.w', '..sub.k', '..m.v', 'qa.sub:x', '.:x', 'qa.m:v.deep', ':m.z']
FIXED_PKGS = [{'k': 'none'}, {'k': 'name', 'v': 'qa'}, {'k': 'name', 'v': 'qa.m'}, {'k': 'name', 'v': 'qtop'}, {'k': 'name', 'v': 'qa.sub'},
              {'k': 'name', 'v': 'qa.sub.k'}, {'k': 'name', 'v': 'qa.bad'}, {'k': 'name', 'v': 'nope'}, {'k': 'name', 'v': 'qa.'}, {'k': 'name', 'v': ''},
              {'k': 'obj', 'v': 'qa.sub.k'}, {'k': 'obj', 'v': 'qa'}, {'k': 'caller', 'v': 'qa.sub.k'}, {'k': 'caller', 'v': 'qa.n'}, {'k': 'caller', 'v': 'qtop'}]


def fixed_cases():
    out = []
    for pk in FIXED_PKGS:
        for i in range(0, len(FIXED_NAMES), 4):
            ops = []
            for s in FIXED_NAMES[i:i + 4]:
                ops += [{'m': 'resolve', 's': s}, {'m': 'maybe', 's': s}]
            out.append(dict(U0, pre=[], mode='dnr', pkg=pk, ops=ops))
        out.append(dict(U0, pre=['qa.m'], mode='dnr', pkg=pk, ops=[{'m': 'name', 'o': 0}, {'m': 'package', 'o': 0}, {'m': 'maybe', 'o': 1},
                                                                   {'m': 'resolve', 'o': 2}, {'m': 'resolve', 's': '.m'}, {'m': 'resolve', 's': 'qa.m.v'}]))
    for pk in FIXED_PKGS[1:6] + FIXED_PKGS[10:]:
        out.append(dict(U0, pre=[], mode='cfg', pkg=pk, ops=[{'m': 'maybe', 's': s} for s in ('.m', '.sub.k:w', 'qa.n.y', '.', ':', '..m', 'qa:m.z')] +
                        [{'m': 'maybe', 'o': 1}, {'m': 'name', 'o': 0}, {'m': 'package', 'o': 0}]))
    return out


# ------------------------------------------------------------------------------------------------------------------
def well_formed(c):
    try:
        if not isinstance(c, dict) or c.get('mode') not in ('dnr', 'cfg'):
            return False
        kinds = {}
        for m, k in c['mods']:
            if not isinstance(m, str) or k not in ('pkg', 'module', 'bad') or m in kinds:
                return False
            segs = m.split('.')
            if any((not s) or s.startswith('_') or ':' in s or '/' in s or '\x00' in s or s != s.strip() for s in segs):
                return False
            if segs[0] not in TOPS:
                return False
            if len(segs) > 1 and kinds.get('.'.join(segs[:-1])) != 'pkg':
                return False
            kinds[m] = k
        ids = set()
        for owner, name, i in c['attrs']:
            if not isinstance(name, str) or not name.isidentifier() or name.startswith('_') or not isinstance(i, int) or i in ids or i <= 0:
                return False
            if owner[0] == 'm':
                if kinds.get(owner[1]) not in ('pkg', 'module'):
                    return False
            elif owner[0] != 'o' or owner[1] not in ids:
                return False
            ids.add(i)
        seen = set()
        for owner, name, i in c['attrs']:
            if (tuple(owner), name) in seen:
                return False
            seen.add((tuple(owner), name))
        if not all(m in kinds for m in c['pre']):
            return False
        pk = c['pkg']
        if pk['k'] not in ('none', 'caller', 'name', 'obj') or (c['mode'] == 'cfg' and pk['k'] == 'none'):
            return False
        if pk['k'] in ('caller', 'obj') and pk['v'] not in kinds:
            return False
        if pk['k'] == 'caller' and kinds[pk['v']] == 'bad':
            return False
        if pk['k'] == 'name' and (not isinstance(pk['v'], str) or pk['v'].startswith('.') or '\x00' in pk['v'] or '/' in pk['v']):
            return False
        if not isinstance(c['ops'], list) or not c['ops']:
            return False
        for op in c['ops']:
            if op['m'] not in ('resolve', 'maybe', 'name', 'package'):
                return False
            if 's' in op:
                s = op['s']
                if not isinstance(s, str) or '\x00' in s or '_' in s or '/' in s:
                    return False
                try:
                    s.encode('utf-8')
                except UnicodeError:
                    return False
            elif not isinstance(op.get('o'), int) or op['o'] < 0:
                return False
        return True
    except Exception:  # noqa
        return False


def strip(x):
    return json.loads(json.dumps(x, default=str))


def check_case(M, case, mo):
    got = impl(M, case)
    detail, exp, finding = oracle(M, case, got)
    m = None
    if mo is not None:
        why = compare_model(case, got, mo)
        if why:
            m = {'case': case, 'impl': strip(got), 'model': mo, 'why': why}
    v = None
    if detail:
        v = {'case': case, 'impl': strip(got), 'expected': exp, 'detail': detail}
        if finding:
            v['finding'] = finding
    return m, v, got


def shrink_violation(M, v):
    def fails(c):
        try:
            if not well_formed(c):
                return False
            d, _, f = oracle(M, c, impl(M, c))
            return bool(d) and f == v.get('finding')
        except Exception:  # noqa
            return False
    small = vfutil.shrink(v['case'], fails, max_steps=300)
    if small != v['case']:
        g = impl(M, small)
        d, e, f = oracle(M, small, g)
        out = {'case': small, 'impl': strip(g), 'expected': e, 'detail': d}
        if f:
            out['finding'] = f
        return out
    return v


def is_trivial(case, got):
    for op, g in zip(case['ops'], got.get('ops', [])):
        if 's' in op and (g['finds'] or ('ok' in g['out'] and len(op['s'].replace(':', '.').strip('.').split('.')) >= 2)):
            return False
    return True


def classify(case, got, dist):
    vfutil.bump(dist['mode'], case['mode'])
    vfutil.bump(dist['pkg'], case['pkg']['k'])
    vfutil.bump(dist['init'], got['init'])
    vfutil.bump(dist['universe_modules'], str(min(len(case['mods']), 12)))
    vfutil.bump(dist['universe_attrs'], str(min(len(case['attrs']), 10)))
    kinds = dict(case['mods'])
    shadow = any(o[0] == 'm' and (o[1] + '.' + n) in kinds for o, n, i in case['attrs'])
    if shadow:
        vfutil.bump(dist['features'], 'attribute shadows a submodule')
    if any(k == 'bad' for k in kinds.values()):
        vfutil.bump(dist['features'], 'module raising ImportError')
    if case['pre']:
        vfutil.bump(dist['features'], 'pre-imported modules')
    for op, g in zip(case['ops'], got.get('ops', [])):
        vfutil.bump(dist['op'], op['m'] + ('/str' if 's' in op else '/nonstr'))
        o = g['out']
        vfutil.bump(dist['outcome'], o['ok'][0] if 'ok' in o else o['err'])
        if 's' in op:
            s = op['s']
            vfutil.bump(dist['style'], ('pkg_resources' if ':' in s else 'zope') + ('/relative' if is_relative(s) else '/absolute'))
            vfutil.bump(dist['imports_per_op'], str(min(len(g['finds']), 5)))
            vfutil.bump(dist['calls_per_op'], str(min(len(g['calls']), 5)))
            if s[:2] == '..':
                vfutil.bump(dist['features'], 'two or more leading dots')
            if any(ord(ch) > 127 for ch in s):
                vfutil.bump(dist['features'], 'unicode in the name')


def new_dist():
    return {'mode': {}, 'pkg': {}, 'init': {}, 'op': {}, 'outcome': {}, 'style': {}, 'imports_per_op': {}, 'calls_per_op': {}, 'features': {},
            'universe_modules': {}, 'universe_attrs': {}}


ASSUME = ['module and attribute names do not start with "_" (no dunder attributes of modules / objects) and contain no NUL, "/" or ":"',
          'every module of the universe is a source file below one directory on sys.path; a module body only binds attributes (or raises ImportError); '
          'attributes are plain objects (never modules); nothing is removed from sys.modules while a case runs',
          'package strings given to the constructor do not start with "."; module objects handed over are imported modules of the universe']
TRUSTED = ['extract/x09.py probes the running DottedNameResolver over a fixed synthetic package tree (Gen/X09.lean)',
           "CPython's import system (importlib: sys.modules first, parent must be a package, binding of a loaded submodule on its parent, "
           "removal of a module whose body raises) and str.split are modelled (Univ / importFrom / splitOn) and tied by the probe table and the correspondence run, not by proof"]


def run(ctx):
    M = mods(ctx)
    rng = ctx.rng
    n = ctx.n(3000, 20000)
    cases = [c for _, c in ctx.corpus()]
    ncorpus = len(cases)
    cases += fixed_cases()
    nfixed = len(cases) - ncorpus
    cases += [gen_case(rng) for _ in range(n)]
    bad = [c for c in cases if not well_formed(c)]
    if bad:
        raise RuntimeError('generator produced an ill-formed case: %r' % (bad[0],))
    model = [None] * len(cases)
    if ctx.driver_path:
        model = ctx.run_model([enc_case(c) for c in cases])
    mism, viol, agree = [], [], 0
    dist = new_dist()
    seen, nontriv = set(), set()
    done = 0
    for case, mo in zip(cases, model):
        m, v, got = check_case(M, case, mo)
        done += 1
        if m: mism.append(m)
        elif mo is not None: agree += 1
        if v: viol.append(v)
        classify(case, got, dist)
        key = vfutil.canon(case)
        if key not in seen:
            seen.add(key)
            if not is_trivial(case, got): nontriv.add(key)
        if ctx.time_left() < 60:
            break
    viol.sort(key=lambda v: len(vfutil.canon(v['case'])))
    viol = [shrink_violation(M, v) for v in viol[:3]] + viol[3:30]
    return {'evaluations': done, 'distinct_nontrivial': len(nontriv), 'rule': RULE, 'agreeing': agree,
            'samples': cases[ncorpus + nfixed:ncorpus + nfixed + 4] + cases[-2:], 'mismatches': mism[:20], 'violations': viol,
            'distribution': dist,
            'notes': ['%d corpus + %d fixed + %d random cases; every case writes its module universe as real files into a fresh directory on sys.path, '
                      'purges sys.modules / importer caches afterwards, and records path.py\'s own __import__ / import_module calls and the import '
                      'system\'s find_spec requests' % (ncorpus, nfixed, n)],
            'assumptions': ASSUME, 'trusted_base': TRUSTED}


def search(ctx):
    """implementation-only search: corpus + fixed cube, then a small-scope exhaustive cube of names over one universe, then random cases"""
    import itertools
    M = mods(ctx)
    viol, n = [], [0]

    def push(case):
        n[0] += 1
        try:
            got = impl(M, case)
            d, e, f = oracle(M, case, got)
        except Exception as ex:  # noqa
            d, e, f, got = 'harness error: %r' % (ex,), None, None, {}
        if d and not f and len(viol) < 40:
            viol.append({'case': case, 'impl': strip(got), 'expected': e, 'detail': d})
    for _, c in ctx.corpus():
        push(c)
    for c in fixed_cases():
        push(c)
    alpha = ['.', ':', 'qa', 'm', 'sub', 'k', 'z', 'w']
    done_cube = True
    for L in (1, 2, 3, 4):
        names = [''.join(t) for t in itertools.product(alpha, repeat=L)]
        for pk in FIXED_PKGS[:5]:
            for i in range(0, len(names), 16):
                push(dict(U0, pre=[], mode='dnr', pkg=pk, ops=[{'m': 'resolve', 's': s} for s in names[i:i + 16]]))
            if len(viol) >= 5 or ctx.time_left() < 150:
                break
        if len(viol) >= 5 or ctx.time_left() < 150:
            done_cube = L == 4 and len(viol) < 5
            break
    k = 0
    while ctx.time_left() > 120 and k < ctx.n(2000, 20000) and len(viol) < 5:
        push(gen_case(ctx.rng)); k += 1
    viol.sort(key=lambda v: len(vfutil.canon(v['case'])))
    viol = [shrink_violation(M, v) for v in viol[:3]] + viol[3:]
    return {'violations': viol[:5], 'searched': n[0], 'exhaustive': bool(done_cube and not viol),
            'scope': 'corpus + fixed cube (15 package arguments x 58 names, resolve and maybe_resolve, Configurator.maybe_dotted); all names of <= 4 tokens over '
                     '{. : qa m sub k z w} against 5 package arguments on the fixed universe; then %d random cases' % k}


def replay(ctx, rep):
    case = rep.get('case') or (rep if 'ops' in rep else None)
    if case is None:
        return {'violates': False, 'note': 'replay names broken obligations only', 'broken': rep.get('broken_obligations')}
    M = mods(ctx)
    mo = ctx.run_model([enc_case(case)])[0] if ctx.driver_path else None
    m, v, got = check_case(M, case, mo)
    return {'case': case, 'impl': strip(got), 'model': mo, 'expected': v and v['expected'], 'mismatch': m and m['why'],
            'detail': v and v['detail'], 'finding': v and v.get('finding'), 'violates': bool(v)}
