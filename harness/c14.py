"""C14 — an exception in request handling is rendered by the most specific exception view.

Correspondence of lean/PyramidModel/ExcView.lean (on top of C03's ViewLookup model) with the real code
(add_view / add_exception_view / add_notfound_view / add_forbidden_view, the default exception-response view,
excview_tween / _error_handler, Request.invoke_exception_view, hide_attrs, Router.handle_request), reached through
Router.__call__, and the property itself evaluated on the implementation by an oracle written from the statement.

A *case* is a self-contained JSON description of one application (exception class hierarchy, routes, security set-up,
view-family statements in statement order), a raising site and one request.  Observed: the response (tag / the
exception object itself / status) or the identity of the exception leaving the router, what the exception view saw
(context, request.exception, request.exc_info), and the request's attributes in a finished callback.
"""
import importlib.util, json, os, sys

from zope.interface import Interface, providedBy, implementedBy
from zope.interface.interface import InterfaceClass

import webob.exc
from pyramid.config import Configurator
from pyramid.events import NewRequest, BeforeTraversal, ContextFound, NewResponse
from pyramid.exceptions import PredicateMismatch
from pyramid import httpexceptions as hx
from pyramid.interfaces import IRequest, IRouteRequest, IExceptionResponse, IResponse, IException
from pyramid.request import Request
from pyramid.response import Response
from pyramid.traversal import ResourceTreeTraverser
from pyramid.tweens import EXCVIEW
from pyramid.registry import predvalseq
from webob.acceptparse import Accept

import vfutil

sys.modules.setdefault('harness_c14', sys.modules[__name__])      # tween factories are given by dotted name


def _load_c03():
    name = 'harness_c03'
    if name in sys.modules:
        return sys.modules[name]
    path = os.path.join(os.path.dirname(os.path.abspath(__file__)), 'c03.py')
    spec = importlib.util.spec_from_file_location(name, path)
    m = importlib.util.module_from_spec(spec)
    sys.modules[name] = m
    spec.loader.exec_module(m)
    return m


c03 = _load_c03()        # read-only reuse: environ builder, predicate keyword arguments, documented predicate conditions

RULE = ('one case = one application (2-5 user exception classes with single/multiple inheritance over Exception, '
        'ValueError, KeyError, HTTP exceptions and PredicateMismatch; 0-2 routes; security policy / default permission '
        'present or not; default exception-response view kept or removed; 2-7 statements of add_view(context=exception '
        'type, exception_only or not) / add_exception_view / add_notfound_view / add_forbidden_view / ordinary add_view, '
        'route-bound or global, with subsets of the request predicates, accept=, permission) x one raising site (tween '
        'under excview, NewRequest / BeforeTraversal / ContextFound subscriber, root factory, traverser, view body, '
        'renderer, or none: the router itself raises 404/403/PredicateMismatch) x one request through Router.__call__; a '
        'case is non-trivial when the excview tween caught an exception and either at least two exception views are '
        'applicable by class, route and name, or an applicable one fails a predicate; distinct = distinct canonical case JSON')

# ------------------------------------------------------------------------------------------------------
# vocabulary: built-in exception types and the ids the model uses for classes / interfaces

BUILTINS = {
    'Exception': Exception, 'ValueError': ValueError, 'KeyError': KeyError, 'LookupError': LookupError,
    'HTTPException': hx.HTTPException, 'HTTPError': hx.HTTPError, 'HTTPClientError': hx.HTTPClientError,
    'HTTPNotFound': hx.HTTPNotFound, 'HTTPForbidden': hx.HTTPForbidden, 'HTTPBadRequest': hx.HTTPBadRequest,
    'HTTPFound': hx.HTTPFound, 'PredicateMismatch': PredicateMismatch, 'WebobNotFound': webob.exc.HTTPNotFound,
    'WebobHTTPException': webob.exc.WSGIHTTPException,
}
BUILTIN_IDS = {n: 40 + i for i, n in enumerate(sorted(BUILTINS))}
IFACE_IDS = {'IExceptionResponse': 80, 'IResponse': 81, 'IException': 82}
IFACES = {'IExceptionResponse': IExceptionResponse, 'IResponse': IResponse, 'IException': IException}
ID_OTHER = 90
ID_SITE, ID_PRIOR, ID_ROOT, ID_RESPONSE = 500, 600, 700, 900
ID_ABOVE, ID_OTHEREXC, ID_VIEWRESP = 550, 800, 901
ABOVE_SITES = ['over_before', 'over_after', 'respcb', 'newresponse']
ID_NF, ID_MM, ID_FB, ID_XNF, ID_XMM, ID_XFB = 1000, 1001, 1002, 1003, 1004, 1005
ID_VIEWEXC = 2000            # + tag: raised by that statement's body on the normal path; + 1000 more on the exception path
ID_AGAIN = 1000
TAG_DEFAULT, TAG_DEFAULT_WEBOB = 9000, 9001
VIEW_KINDS = ['fn2', 'fn1', 'cls2', 'cls2c', 'cls1', 'inst2', 'inst1']
CTX_KINDS = ('fn2', 'cls2', 'cls2c', 'inst2')          # kinds whose callable is handed a context by the view mapper
NOCTX = object()                                      # what a request-only callable reports as its context argument
EARLY_SITES = ['tween', 'newrequest', 'beforetraversal', 'rootfactory', 'traverser', 'contextfound']


class Node(dict):
    pass


class World:
    pass


def make_xclasses(spec):
    out = []
    for k, c in enumerate(spec):
        bases = tuple(out[b[1]] if b[0] == 'u' else BUILTINS[b[1]] for b in c['bases'])
        cls = type('X%d' % k, bases, {})
        inst = cls()
        if isinstance(inst, Response):
            inst.status_int            # must be an initialised response
        out.append(cls)
    return out


def ref_class(w, ref):
    if ref[0] == 'u':
        return w.xclasses[ref[1]]
    if ref[0] == 'i':
        return IFACES[ref[1]]
    return BUILTINS[ref[1]]


def ref_id(ref):
    if ref is None:
        return 0
    if ref[0] == 'u':
        return 100 + ref[1]
    if ref[0] == 'i':
        return IFACE_IDS[ref[1]]
    return BUILTIN_IDS[ref[1]]


def spec_id(w, spec):
    if spec is Interface:
        return 0
    for n, i in IFACES.items():
        if spec is i:
            return IFACE_IDS[n]
    for k, cls in enumerate(w.xclasses):
        if spec is implementedBy(cls):
            return 100 + k
    for n, cls in BUILTINS.items():
        if spec is implementedBy(cls):
            return BUILTIN_IDS[n]
    return ID_OTHER


def stmt_context(w, st):
    """(context argument, registered context class/interface or None) of a statement"""
    kind = st['kind']
    if kind == 'notfound':
        return None, hx.HTTPNotFound
    if kind == 'forbidden':
        return None, hx.HTTPForbidden
    if kind == 'exc':
        return (None, Exception) if st['ctx'] is None else (ref_class(w, st['ctx']), ref_class(w, st['ctx']))
    c = None if st['ctx'] is None else ref_class(w, st['ctx'])
    return c, c


def stmt_ctx_id(st):
    kind = st['kind']
    if kind == 'notfound':
        return BUILTIN_IDS['HTTPNotFound']
    if kind == 'forbidden':
        return BUILTIN_IDS['HTTPForbidden']
    if kind == 'exc' and st['ctx'] is None:
        return BUILTIN_IDS['Exception']
    return ref_id(st['ctx'])


def stmt_isexc(st):
    return st['kind'] != 'view' or st['ctx'] is not None      # every ctx reference of this vocabulary is an exception type


def stmt_xonly(st):
    return st['kind'] != 'view' or bool(st.get('xonly'))


def stmt_perm(st):
    return st.get('perm') if st['kind'] == 'view' else 'npr'


# ------------------------------------------------------------------------------------------------------
# tweens (dotted names): state lives on the registry

def outer_factory(handler, registry):
    def outer(request):
        w = registry.verif_world
        w.log['request'] = request
        request.add_finished_callback(lambda req: w.log.__setitem__('after', snapshot(req)))
        maybe_raise_above(w, 'over_before')
        try:
            resp = handler(request)
        except Exception as e:
            w.log['left'] = ('exc', e)
            raise
        w.log['left'] = ('resp', resp)
        maybe_raise_above(w, 'over_after')
        return resp
    return outer


def maybe_raise_above(w, at):
    ab = w.above
    if ab and ab.get('at') == at:
        e = w.log['above_exc'] = make_exc(w, ab['exc'])
        raise e


def snapshot(req):
    d = req.__dict__
    ei = d.get('exc_info')
    return (d.get('exception'), ei[1] if ei else None, d.get('response'), getattr(req, 'exception', None))


def execution_policy(environ, router):
    """`default_execution_policy` itself, or the documented pattern around it: try … except Exception:
    return request.invoke_exception_view(…)"""
    from pyramid.router import default_execution_policy
    w = router.registry.verif_world
    pol = w.policy
    if not pol:
        return default_execution_policy(environ, router)
    with router.request_context(environ) as request:
        try:
            return router.invoke_request(request)
        except Exception as e:
            w.log['policy_caught'] = e
            w.log['before_policy'] = snapshot(request)
            w.log['policy_request'] = request
            kw = {'secure': pol['secure'], 'reraise': pol['reraise']}
            ei = pol.get('excinfo')
            if ei == 'current':
                kw['exc_info'] = sys.exc_info()
            elif ei is not None:
                o = w.log['other_exc'] = make_exc(w, ei)
                kw['exc_info'] = (type(o), o, None)
            try:
                resp = request.invoke_exception_view(**kw)
                w.log['policy_resp'] = resp
                return resp
            finally:
                w.log['after_policy'] = snapshot(request)


def inner_factory(handler, registry):
    def inner(request):
        w = registry.verif_world
        w.log['request'] = request
        site = w.site

        w.log['inner_ran'] = True
        request.add_response_callback(lambda req, resp: maybe_raise_above(w, 'respcb'))
        if site.get('prior'):
            p = w.log['prior'] = RuntimeError('prior')
            request.exception = p
            request.exc_info = (RuntimeError, p, None)
        if site.get('touch'):
            w.log['touched'] = request.response
            request.response.headers['X-Touched'] = '1'
            request.response.status_int = 201
            request.response.headers['Cache-Control'] = 'max-age=3600'
            request.response.set_cookie('pre', 'failure')
        try:
            maybe_raise(w, 'tween')
            return handler(request)
        except Exception as e:
            w.log['passing'] = e
            w.log['ctx_at_exc'] = 'context' in request.__dict__
            raise
    return inner


def make_exc(w, ref):
    return ref_class(w, ref)()


def maybe_raise(w, at):
    if w.site.get('at') == at:
        e = w.log['site_exc'] = make_exc(w, w.site['exc'])
        raise e


class TraverserFactory:
    def __init__(self, root):
        self.root = root

    def __call__(self, request):
        maybe_raise(request.registry.verif_world, 'traverser')
        return ResourceTreeTraverser(self.root)(request)


class RaisingRendererFactory:
    def __init__(self, info):
        self.info = info

    def __call__(self, value, system):
        w = system['request'].registry.verif_world
        tag = value['tag']
        e = w.log['view_exc'][(tag, on_exc_path(w))] = make_exc(w, value['exc'])
        w.log['view_exc_all'].append((tag, on_exc_path(w), e))
        raise e


def on_exc_path(w):
    return w.log.get('passing') is not None or w.log.get('policy_caught') is not None


def my_pred_kwargs(w, st):
    """keyword arguments of the predicates (c03's encoder knows every predicate but this vocabulary's containment references)"""
    from pyramid.config import not_
    o = dict(st['opts'])
    cont = o.pop('containment', None)
    pk = c03.pred_kwargs(w.classes, dict(st, opts=o))
    if cont is not None:
        cls = ref_class(w, cont)
        pk['containment'] = not_(cls) if 'containment' in st.get('not', []) else cls
    return pk


class _Policy(c03._Policy):
    pass


def build_app(case):
    w = World()
    w.xclasses = make_xclasses(case['xclasses'])
    w.classes = []                       # c03.pred_kwargs wants it (containment is never generated here)
    if case.get('root') is None:
        root = Node()
    elif case.get('root_same'):
        root = w.xclasses[case['root']]()          # the resource provides exactly what an exception of that class provides
    else:
        root = type('Root', (w.xclasses[case['root']],), {})()     # a resource whose class derives from an exception class
    root.__name__ = None
    root.__parent__ = None
    w.root = root
    w.log = {}
    w.site = {}
    w.above = None
    w.policy = None
    auto = case.get('commit', 'auto') == 'auto'
    kw = {}
    if not case.get('default_excview', True):
        kw['exceptionresponse_view'] = None
    if case.get('defperm'):
        kw['default_permission'] = 'dp'

    def root_factory(request):
        maybe_raise(w, 'rootfactory')
        return root
    config = Configurator(root_factory=root_factory, autocommit=auto, **kw)
    config.registry.verif_world = w
    if case.get('policy', True):
        config.set_security_policy(_Policy())
    config.set_execution_policy(execution_policy)
    config.add_subscriber((lambda event: maybe_raise_above(w, 'newresponse')), NewResponse)
    config.add_tween('harness_c14.outer_factory', over=EXCVIEW)
    config.add_tween('harness_c14.inner_factory', under=EXCVIEW)
    config.add_traverser(TraverserFactory)
    config.add_renderer('verifraise', RaisingRendererFactory)
    for ev, at in ((NewRequest, 'newrequest'), (BeforeTraversal, 'beforetraversal'), (ContextFound, 'contextfound')):
        config.add_subscriber((lambda event, at=at: maybe_raise(w, at)), ev)
    if not auto:
        config.commit()
    for r in case['routes']:
        config.add_route(r['name'], r['pattern'], use_global_views=r.get('ugv', False))
    if not auto:
        config.commit()
    class Pages2:
        """ONE class behind every `cls2` statement of the application (ordinary and exception views alike), each through its own attr"""
        def __init__(self, context, request):
            self.context = context
            self.request = request

    class Pages1:
        def __init__(self, request):
            self.request = request
    w.shared = {'cls2': Pages2, 'cls1': Pages1}
    for st in case['stmts']:
        tag = st['tag']
        body = st['body']
        renderer = None
        via = st.get('via') if (body[0] == 'respond' and stmt_xonly(st) and stmt_isexc(st)) else None
        if via:
            # an exception view that builds on request.response: returns it ('reqresp') or lets the string renderer fill it
            if via == 'renderer':
                renderer = 'string'

            def view(context, request, tag=tag, via=via):
                record_seen(w, tag, context, request)
                if on_exc_path(w):
                    w.log['view_resp'] = request.response
                request.response.headers['X-Tag'] = 'V%d' % tag
                return request.response if via == 'reqresp' else 'V%d' % tag
        elif body[0] == 'respond':
            def view(context, request, tag=tag, touch=bool(st.get('touch'))):
                record_seen(w, tag, context, request)
                if touch and on_exc_path(w):
                    w.log['view_resp'] = request.response
                    request.response.headers['X-Exc-Touched'] = '1'
                resp = Response('V%d' % tag)
                resp.headers['X-Tag'] = 'V%d' % tag
                return resp
        elif body[0] == 'raise' and body[2] == 'renderer':
            renderer = 'verifraise'

            def view(context, request, tag=tag, ref=body[1], touch=bool(st.get('touch'))):
                record_seen(w, tag, context, request)
                if touch and on_exc_path(w):
                    w.log['view_resp'] = request.response
                return {'tag': tag, 'exc': ref}
        elif body[0] == 'raise':
            def view(context, request, tag=tag, ref=body[1], touch=bool(st.get('touch'))):
                record_seen(w, tag, context, request)
                if touch and on_exc_path(w):
                    w.log['view_resp'] = request.response
                e = w.log['view_exc'][(tag, on_exc_path(w))] = make_exc(w, ref)
                w.log['view_exc_all'].append((tag, on_exc_path(w), e))
                raise e
        else:                                               # 'default': the real default_exceptionresponse_view
            view = None if st['kind'] in ('notfound', 'forbidden') else hx.default_exceptionresponse_view
        pk = my_pred_kwargs(w, st)
        if view is not None and body[0] != 'default':
            view.__name__ = 'v%d' % tag
            view, attr = wrap_kind(w, st.get('vk', 'fn2'), tag, view)
            if attr:
                pk['attr'] = attr
        if st.get('route'):
            pk['route_name'] = st['route']
        if renderer:
            pk['renderer'] = renderer
        kind = st['kind']
        if kind == 'notfound':
            config.add_notfound_view(view, **pk)
        elif kind == 'forbidden':
            config.add_forbidden_view(view, **pk)
        elif kind == 'exc':
            ctx_arg, _ = stmt_context(w, st)
            config.add_exception_view(view, context=ctx_arg, **pk)
        else:
            ctx_arg, _ = stmt_context(w, st)
            perm = st.get('perm')
            from pyramid.security import NO_PERMISSION_REQUIRED
            config.add_view(view, context=ctx_arg, name=st['name'], exception_only=bool(st.get('xonly')),
                            permission=(NO_PERMISSION_REQUIRED if perm == 'npr' else perm), **pk)
        if not auto:
            config.commit()
    if not auto:
        config.commit()
    w.config = config
    w.app = config.make_wsgi_app()
    return w


def wrap_kind(w, vk, tag, bodyfn):
    """the statement's callable in the form `vk` asks for; -> (view argument, attr argument)"""
    if vk == 'fn2':
        return bodyfn, None
    if vk == 'fn1':
        def v1(request):
            return bodyfn(NOCTX, request)
        v1.__name__ = 'v%d' % tag
        return v1, None
    if vk == 'cls2':
        setattr(w.shared['cls2'], 'm%d' % tag, lambda self: bodyfn(self.context, self.request))
        return w.shared['cls2'], 'm%d' % tag
    if vk == 'cls1':
        setattr(w.shared['cls1'], 'm%d' % tag, lambda self: bodyfn(NOCTX, self.request))
        return w.shared['cls1'], 'm%d' % tag
    if vk == 'cls2c':
        class Own:
            def __init__(self, context, request):
                self.context = context
                self.request = request

            def __call__(self):
                return bodyfn(self.context, self.request)
        Own.__name__ = 'Own%d' % tag
        return Own, None
    if vk == 'inst2':
        class Obj2:
            def __call__(self, context, request):
                return bodyfn(context, request)
        return Obj2(), None
    if vk == 'inst1':
        class Obj1:
            def __call__(self, request):
                return bodyfn(NOCTX, request)
        return Obj1(), None
    raise ValueError(vk)


def record_seen(w, tag, context, request):
    d = request.__dict__
    ei = d.get('exc_info')
    w.log['seen'].append({'tag': tag, 'excpath': on_exc_path(w), 'level': 'policy' if w.log.get('policy_caught') is not None else 'tween',
                          'context': context, 'req_context': d.get('context'),
                          'exception': d.get('exception'), 'exc_info': ei[1] if ei else None,
                          'exc_info_ok': (ei is None) or (len(ei) == 3 and ei[0] is type(ei[1])),
                          'response': d.get('response'), 'prop_exception': request.exception})


_APP_CACHE = {}
APP_KEYS = ('xclasses', 'root', 'root_same', 'routes', 'stmts', 'commit', 'policy', 'defperm', 'default_excview')


def get_world(case):
    key = json.dumps({k: case.get(k) for k in APP_KEYS}, sort_keys=True)
    w = _APP_CACHE.get(key)
    if w is None:
        if len(_APP_CACHE) > 64:
            _APP_CACHE.clear()
        w = _APP_CACHE[key] = build_app(case)
    return w


def run_request(w, case):
    env = c03.make_environ(case['req'])
    w.site = case['site']
    w.above = case.get('above')
    w.policy = case.get('xpolicy')
    w.log.clear()
    w.log.update({'seen': [], 'view_exc': {}, 'view_exc_all': []})
    sh = {}

    def start_response(status, headers, exc_info=None):
        sh['status'] = status
        sh['headers'] = headers
    raised = None
    try:
        b''.join(w.app(env, start_response))
    except Exception as e:
        raised = e
    return env, sh, raised


def oid(w, x):
    """identity of an object as the number the model uses"""
    lg = w.log
    if x is None:
        return None
    if x is lg.get('site_exc'):
        return ID_SITE
    if x is lg.get('prior'):
        return ID_PRIOR
    if x is lg.get('touched'):
        return ID_RESPONSE
    if x is lg.get('above_exc'):
        return ID_ABOVE
    if x is lg.get('other_exc'):
        return ID_OTHEREXC
    if x is lg.get('view_resp'):
        return ID_VIEWRESP
    if x is w.root:
        return ID_ROOT
    p = lg.get('passing')
    for tag, excpath, e in lg['view_exc_all']:
        if x is e:
            return ID_VIEWEXC + tag + (ID_AGAIN if excpath else 0)
    if p is not None and x is p:
        if type(x) is PredicateMismatch:
            return ID_MM
        if type(x) is hx.HTTPForbidden:
            return ID_FB
        if type(x) is hx.HTTPNotFound:
            return ID_NF
        return 'passing:' + type(x).__name__
    if isinstance(x, BaseException):
        if type(x) is PredicateMismatch:
            return ID_XMM
        if type(x) is hx.HTTPForbidden:
            return ID_XFB
        if type(x) is hx.HTTPNotFound:
            return ID_XNF
    return 'other:' + type(x).__name__


def canon_out(w, kind, obj, sh=None):
    if kind == 'exc':
        return ['raise', oid(w, obj)]
    hdrs = dict(getattr(obj, 'headerlist', None) or [])
    tag = hdrs.get('X-Tag')
    if tag is not None and tag.startswith('V'):
        return ['resp', 'view', int(tag[1:])]
    if isinstance(obj, BaseException):
        return ['resp', 'self', oid(w, obj), obj.status_int]
    return ['resp', 'other', getattr(obj, 'status', None)]


def observe(w, case):
    env, sh, raised = run_request(w, case)
    lg = w.log
    left = lg.get('left')
    tout = canon_out(w, left[0], left[1]) if left else None             # what left the excview tween
    if raised is not None:
        out = ['raise', oid(w, raised)]
    elif lg.get('policy_caught') is not None:
        out = canon_out(w, 'resp', lg.get('policy_resp'))
    elif left and left[0] == 'resp':
        out = canon_out(w, 'resp', left[1])
        if out[0] == 'resp' and out[1] in ('view', 'self') and int(sh['status'][:3]) != left[1].status_int:
            out.append('status-changed')
    else:
        out = ['resp', 'other', sh.get('status')]
    level = 'policy' if lg.get('policy_caught') is not None else 'tween'
    seen = None
    exc_seen = [s for s in lg['seen'] if s['excpath']]
    lvl_seen = [s for s in exc_seen if s['level'] == level]
    if lvl_seen:
        s = lvl_seen[-1]
        seen = [None if s['context'] is NOCTX else oid(w, s['context']), oid(w, s['exception']), oid(w, s['exc_info']), oid(w, s['response'])]
    after = lg.get('after_policy') if level == 'policy' else lg.get('after')
    attrs = None if after is None else [oid(w, after[0]), oid(w, after[1]), oid(w, after[2])]
    hl = sh.get('headers') or []
    marks = None
    if raised is None and sh.get('status'):
        marks = {'status': int(sh['status'][:3]), 'pre_failure_headers': sorted(k for k, v in hl if k in ('X-Touched', 'Cache-Control') or (k == 'Set-Cookie' and v.startswith('pre=')))}
    return {'out': out, 'tout': tout, 'seen': seen, 'attrs': attrs, 'marks': marks, 'caught': oid(w, lg.get('passing')),
            'n_exc_view_calls': len(exc_seen), 'env': env, 'raised': raised}


# ------------------------------------------------------------------------------------------------------
# the model's input, computed from the real objects

def req_iface_id(w, case, iface):
    if iface is IRequest:
        return 0
    if iface is Interface:
        return 50
    q = w.config.registry.queryUtility
    for i, r in enumerate(case['routes']):
        ri = q(IRouteRequest, name=r['name'])
        if iface is ri:
            return 1 + i
        if iface is getattr(ri, 'combined', None):
            return 20 + i
    return 60


def exc_record(w, inst, ident):
    return {'id': ident, 'sro': [spec_id(w, s) for s in providedBy(inst).__sro__],
            'nf': isinstance(inst, hx.HTTPNotFound),
            'status': inst.status_int if isinstance(inst, webob.Response) else None}


def model_preds(w, st):
    o = st['opts']
    notted = set(st.get('not', []))
    preds = []

    def add(name, v):
        preds.append({'n': name, 'not': name in notted, 'v': dict(v, k=v.get('k', name))})
    if 'xhr' in o:
        add('xhr', {'b': bool(o['xhr'])})
    for name in ('request_method', 'request_param', 'header', 'match_param'):
        if name in o:
            v = o[name]
            add(name, {'l': list(v) if isinstance(v, list) else [v]})
    if 'path_info' in o:
        add('path_info', {'s': o['path_info']})
    if 'containment' in o:
        add('containment', {'i': ref_id(o['containment']), 'r': str(ref_class(w, o['containment']))})
    if 'physical_path' in o:
        v = o['physical_path']
        from pyramid.predicates import PhysicalPathPredicate
        rep_ = PhysicalPathPredicate(tuple(v) if isinstance(v, list) else v, None).text()[len('physical_path = '):]
        add('physical_path', {'k': 'pp_seq', 'l': v, 'r': rep_} if isinstance(v, list) else {'k': 'pp_str', 's': v, 'r': rep_})
    if 'is_authenticated' in o:
        add('is_authenticated', {'b': bool(o['is_authenticated'])})
    for i in o.get('custom', []):
        from pyramid.predicates import CustomPredicate
        preds.append({'n': 'custom', 'not': False, 'v': {'k': 'custom', 'i': i, 'r': CustomPredicate(c03.CUSTOMS[i], None).phash()}})
    return preds


def real_phash(w, st):
    kw = my_pred_kwargs(w, st)
    if 'custom_predicates' in kw:
        kw['custom'] = predvalseq(kw.pop('custom_predicates'))
    if 'accept' in kw:
        kw['accept'] = str(Accept.parse_offer(kw['accept']))
    order, ps, phash = w.config.get_predlist('view').make(w.config, **kw)
    return order, phash, len(ps)


def body_json(w, st):
    b = st['body']
    if b[0] == 'respond':
        return ['respond']
    if b[0] == 'default':
        return ['ctx']
    return ['raise', exc_record(w, make_exc(w, b[1]), ID_VIEWEXC + st['tag'])]


def model_input(w, case, obs):
    ids = {}
    routes = [r['name'] for r in case['routes']]
    stmts = []
    if case.get('default_excview', True):
        for ctx, tag in ((IFACE_IDS['IExceptionResponse'], TAG_DEFAULT), (BUILTIN_IDS['WebobHTTPException'], TAG_DEFAULT_WEBOB)):
            stmts.append({'req': 0, 'ctx': ctx, 'name': '', 'preds': [], 'accept': None, 'perm': 'unset', 'isexc': True,
                          'xonly': False, 'tag': tag, 'body': ['ctx'], 'touch': False, 'vk': 'fn2'})
    for st in case['stmts']:
        perm = stmt_perm(st)
        stmts.append({'req': 0 if not st.get('route') else 1 + routes.index(st['route']), 'ctx': stmt_ctx_id(st),
                      'name': st['name'] if st['kind'] == 'view' else '', 'preds': model_preds(w, st),
                      'accept': c03.offer_data(w, st['accept'], ids) if st.get('accept') is not None else None,
                      'perm': 'unset' if perm is None else ('npr' if perm == 'npr' else 'named'),
                      'isexc': stmt_isexc(st), 'xonly': stmt_xonly(st), 'tag': st['tag'], 'body': body_json(w, st),
                      'touch': (bool(st.get('touch')) or bool(st.get('via') and st['body'][0] == 'respond' and stmt_xonly(st) and stmt_isexc(st)))
                               and st['body'][0] != 'default',
                      'vk': st.get('vk', 'fn2') if st['body'][0] != 'default' else 'fn2'})
    world = {'policy': bool(case.get('policy', True)), 'defperm': bool(case.get('defperm')),
             'nf': exc_record(w, hx.HTTPNotFound(), ID_NF), 'mm': exc_record(w, PredicateMismatch(), ID_MM),
             'fb': exc_record(w, hx.HTTPForbidden(), ID_FB), 'xnf': exc_record(w, hx.HTTPNotFound(), ID_XNF),
             'xmm': exc_record(w, PredicateMismatch(), ID_XMM), 'xfb': exc_record(w, hx.HTTPForbidden(), ID_XFB), 'vresp': ID_VIEWRESP}
    ab = case.get('above') or {}
    above = {'before': None, 'after': None}
    if ab.get('at') == 'over_before':
        above['before'] = exc_record(w, make_exc(w, ab['exc']), ID_ABOVE)
    elif ab.get('at') in ABOVE_SITES:
        above['after'] = exc_record(w, make_exc(w, ab['exc']), ID_ABOVE)
    pol = case.get('xpolicy')
    mpol = None
    if pol:
        ei = pol.get('excinfo')
        mpol = {'excinfo': (None if ei is None else 'current' if ei == 'current' else exc_record(w, make_exc(w, ei), ID_OTHEREXC)),
                'secure': bool(pol['secure']), 'reraise': bool(pol['reraise'])}
    site = case['site']
    request = w.log.get('request')
    if site.get('at') in EARLY_SITES:
        msite = ['early', exc_record(w, make_exc(w, site['exc']), ID_SITE)]
    else:
        msite = ['lookup']
    d = request.__dict__ if request is not None else {}
    riface = d.get('request_iface', IRequest)
    rsro = [req_iface_id(w, case, i) for i in riface.__sro__]
    comb = [req_iface_id(w, case, i) for i in riface.combined.__sro__]
    csro = [spec_id(w, s) for s in providedBy(w.root).__sro__]
    areq = abstract_request(w, effective(case), obs['env'], ids, d.get('matchdict'), d.get('view_name', ''), rsro, csro)
    # request.context as the exception-view lookup of the tween finds it: the root once traversal has run, absent before
    has_ctx = w.log.get('ctx_at_exc', True) if w.log.get('passing') is not None else True
    areq['lineage'] = [sorted(set(csro))] if has_ctx else []
    areq['phys'] = ['']
    attrs = []
    if w.log.get('inner_ran'):
        if site.get('prior'):
            attrs += [['exception', ID_PRIOR], ['exc_info', ID_PRIOR]]
        if site.get('touch'):
            attrs += [['response', ID_RESPONSE]]
    return {'stmts': stmts, 'world': world, 'site': msite, 'req': areq, 'comb': comb, 'ctxobj': ID_ROOT, 'attrs': attrs,
            'above': above, 'policy': mpol}


def abstract_request(w, case, env, ids, md, view_name, rsro, csro):
    import re
    rq = case['req']
    wr = Request(dict(env))
    patterns, hdr_specs = set(), set()
    for st in case['stmts']:
        o = st['opts']
        if 'path_info' in o:
            patterns.add(o['path_info'])
        if 'header' in o:
            for h in (o['header'] if isinstance(o['header'], list) else [o['header']]):
                if ':' in h:
                    hdr_specs.add(tuple(h.split(':', 1)))
    table = []
    for p in sorted(patterns):
        table.append([p, wr.upath_info, re.compile(p).match(wr.upath_info) is not None])
    for name, rx in sorted(hdr_specs):
        val = wr.headers.get(name)
        if val is not None:
            table.append([rx, val, re.compile(rx).match(val) is not None])
    accq = []
    for text, o in sorted(ids.items(), key=lambda kv: kv[1]):
        got = wr.accept.acceptable_offers([text])
        accq.append([o, int(round(got[0][1] * 1000)) if got else 0])
    envl = sorted([k, v] for k, v in env.items() if isinstance(v, str) and (k.startswith('HTTP_') or k in ('CONTENT_TYPE', 'CONTENT_LENGTH')))
    if md is not None:
        md = [[k, v if isinstance(v, str) else '<%s>' % type(v).__name__] for k, v in md.items()]
    return {'method': wr.method, 'get': [[k, v] for k, v in wr.GET.items()], 'post': [[k, v] for k, v in wr.POST.items()],
            'env': envl, 'path': wr.upath_info, 'md': md, 'auth': bool(rq.get('auth')), 'custom': list(rq.get('custom', [])),
            're': table, 'accq': accq, 'lineage': [], 'phys': None, 'permitted': bool(rq.get('permitted', True)),
            'rsro': rsro, 'csro': csro, 'vn': view_name}


# ------------------------------------------------------------------------------------------------------
# the property, stated directly on the implementation's observations (independent of the Lean model)

def stmt_holds(w, st, wr, md, case, ctx_of):
    """documented truth conditions of the statement's predicates (c03.doc_pred); `ctx_of(name)` = the object the predicate
    called `name` is documented to look at"""
    o = st['opts']
    notted = set(st.get('not', []))
    for name, val in o.items():
        ctxinfo = (wr, ctx_of(name), md, case)
        if name == 'custom':
            if not all(i in case['req'].get('custom', []) for i in val):
                return False
        elif name == 'containment':
            if not c03.doc_pred(name, ref_class(w, val), name in notted, ctxinfo):
                return False
        elif not c03.doc_pred(name, val, name in notted, ctxinfo):
            return False
    if st.get('accept') is not None and not c03.doc_pred('accept', st['accept'], False, (wr, None, md, case)):
        return False
    return True


def effective(case):
    """request.is_authenticated is False without a security policy"""
    return dict(case, req=dict(case['req'], auth=bool(case['req'].get('auth')) and bool(case.get('policy', True))))


def exception_view_candidates(w, case, E, wr, md, matched, cont_ctx):
    """the exception views that apply to E, ranked.  `cont_ctx` = what `containment` looks at: request.context when the
    request has one (the ORIGINAL context), else the exception; `physical_path` is asked about the view's context argument,
    the exception."""
    ecase = effective(case)
    esro = list(providedBy(E).__sro__)
    last = {}
    infos = []
    for i, st in enumerate(case['stmts']):
        if not stmt_isexc(st):
            continue
        _, cls = stmt_context(w, st)
        name = st['name'] if st['kind'] == 'view' else ''
        ph = real_phash(w, st)[1]
        slot = (st.get('route'), stmt_ctx_id(st), name)
        perm = stmt_perm(st)
        protected = bool(case.get('policy', True) and perm == 'p')
        infos.append({'i': i, 'st': st, 'cls': cls, 'name': name, 'slot': slot, 'ph': ph, 'protected': protected})
    if case.get('default_excview', True):
        for cls, tag, cid in ((IExceptionResponse, TAG_DEFAULT, IFACE_IDS['IExceptionResponse']),
                              (webob.exc.WSGIHTTPException, TAG_DEFAULT_WEBOB, BUILTIN_IDS['WebobHTTPException'])):
            dst = {'kind': 'view', 'ctx': None, 'name': '', 'route': None, 'opts': {}, 'not': [], 'accept': None, 'perm': None,
                   'tag': tag, 'body': ['default']}
            infos.insert(0, {'i': -1, 'st': dst, 'cls': cls, 'name': '', 'slot': (None, cid, ''), 'ph': real_phash(w, dst)[1],
                             'protected': False})
    for k, inf in enumerate(infos):
        last.setdefault((inf['slot'], inf['ph']), []).append(k)
    cands = []
    for key, ks in last.items():
        # in force: the last statement of the slot/phash; statements of one slot/phash that differ in protectedness are kept
        # side by side by register_view (a tie for the statement, see C03), so all of those stay candidates
        final = infos[ks[-1]]
        keep = [infos[k] for k in ks if infos[k]['protected'] != final['protected']] + [final]
        for inf in keep:
            cls = inf['cls']
            spec = cls if isinstance(cls, InterfaceClass) else implementedBy(cls)
            if inf['name'] != '' or spec not in esro:
                continue
            route = inf['st'].get('route')
            if route is not None and route != matched:
                continue
            inf = dict(inf, rank=(0 if route is not None else 1, esro.index(spec)),
                       holds=stmt_holds(w, inf['st'], wr, md, ecase, lambda n: cont_ctx if n == 'containment' else E))
            cands.append(inf)
    qual = [c for c in cands if c['holds']]
    minimal = [c for c in qual if not any(q['rank'] < c['rank'] for q in qual)]
    return cands, qual, minimal


def judge(w, case, obs, stats, V, E, out, obj, seen_entries, before, after, wr, md, matched, cont_ctx, mode, secure=True, reraise=False):
    """the statement applied to ONE rendering of exception E (by the excview tween: mode 'tween'; by an explicit
    invoke_exception_view: mode 'invoke').  `out`/`obj` = canonical outcome and the object that left; `before`/`after` =
    (request.__dict__ exception, exc_info[1], response, request.exception) before / after."""
    cands, qual, minimal = exception_view_candidates(w, case, E, wr, md, matched, cont_ctx)
    if mode == 'tween' or 'applicable' not in stats or not stats.get('caught'):
        stats.update({'applicable': len(cands), 'qualifying': len(qual), 'minimal': len(minimal),
                      'winner_rank': (minimal[0]['rank'] if minimal else None),
                      'nearer_failed': any(c['rank'] < minimal[0]['rank'] for c in cands) if minimal else False})
    V0 = V

    def V(detail, expected=None):
        v = V0(detail, expected)
        if mode == 'invoke' and not secure and out[:2] == ['resp', 'view']:
            ran = [c for c in cands if c['st']['tag'] == out[2]]
            if ran and ran[0]['protected'] and not ran[0]['holds']:
                # F-C14d: _call_view(secure=False) calls __call_permissive__, which for a single protected view is the callable
                # below secured_view AND below predicated_view: its predicates are not checked
                v['finding'] = 'F-C14d'
                v['detail'] = ('invoke_exception_view(secure=False): a protected exception view answered although one of its predicates is '
                               'false (__call_permissive__ bypasses the predicate wrapper of a single view)')
        return v
    if mode == 'invoke' and not secure:
        for s_ in seen_entries:
            ran = [c for c in cands if c['st']['tag'] == s_['tag']]
            if ran and ran[0]['protected'] and not ran[0]['holds']:
                v = V0('a protected exception view ran although one of its predicates is false')
                v['finding'] = 'F-C14d'
                v['detail'] = ('invoke_exception_view(secure=False): a protected exception view ran although one of its predicates is '
                               'false (__call_permissive__ bypasses the predicate wrapper of a single view)')
                return v
    exp = {'rendering': mode, 'caught': type(E).__name__, 'best': sorted(c['st']['tag'] for c in minimal),
           'qualifying': sorted(c['st']['tag'] for c in qual)}
    if not qual:
        # no exception view applies: the original object propagates, attributes as before
        if out[0] != 'raise':
            return V('no exception view applies but a response was produced', exp)
        if mode == 'invoke' and not reraise:
            if not isinstance(obj, hx.HTTPNotFound) or obj is E:
                return V('invoke_exception_view(reraise=False) found no view but did not raise HTTPNotFound', exp)
        elif obj is not E:
            return V('no exception view applies but the exception leaving is not the original object', exp)
        if after is None or after[0] is not before[0] or after[1] is not before[1] or after[3] is not before[3]:
            return V('no exception view applies but request.exception / exc_info are not as before', exp)
        return None
    if any(c['st']['body'][0] == 'raise' for c in minimal):
        stats['silent'] = 'best exception view raises'
        return None                  # the statement says nothing about exception views that raise
    permitted = bool(case['req'].get('permitted', True)) or not secure
    refused = [c for c in minimal if c['protected'] and not permitted]
    if out[0] == 'raise':
        if refused and mode == 'invoke':
            stats['silent'] = 'explicit invocation refused'
            return None
        v = V('an exception view applies but no response was produced', exp)
        if refused and out[1] == ID_XFB:
            v['finding'] = 'F-C14a'
            v['detail'] = ('the best applicable exception view is protected and refused: a new HTTPForbidden leaves the router '
                           'instead of a response (neither the view\'s response nor the original exception)')
        return v
    ok_tags = {c['st']['tag']: c for c in minimal}
    if out[1] == 'view':
        if out[2] not in ok_tags:
            return V('the response was not produced by a best-ranked applicable exception view', exp)
        win = ok_tags[out[2]]
        if win in refused:
            return V('a protected exception view ran although the policy refused', exp)
    elif out[1] == 'self':
        defaults = [c for c in minimal if c['st']['body'][0] == 'default' and c not in refused]
        if not defaults or obj is not E:
            return V('the exception object was returned as the response although no best-ranked view is the exception-response view', exp)
        want = getattr(type(E), 'code', None)
        if want is not None and out[3] != want:
            return V('an HTTP exception returned as the response does not carry its own status', dict(exp, status=want))
        if type(E) in (hx.HTTPNotFound, PredicateMismatch) and out[3] != 404 or type(E) is hx.HTTPForbidden and out[3] != 403:
            return V('404 / 403 expected', exp)
    else:
        return V('unexpected response %r' % (out,), exp)
    # the view saw the exception; the attributes persist
    if out[1] == 'view':
        if not seen_entries:
            return V('the winning exception view did not run on the exception path', exp)
        s = seen_entries[-1]
        if s['tag'] != out[2] or (s['context'] is not NOCTX and s['context'] is not E) or s['exception'] is not E or s['exc_info'] is not E or not s['exc_info_ok'] \
                or s['prop_exception'] is not E:
            return V('the exception view did not see the exception as context / request.exception / request.exc_info', exp)
        if s['response'] is not None:
            return V('inside the exception view request.response is not a fresh one: the pre-failure response object was still on the request', exp)
        wst = ok_tags[out[2]]['st']
        if wst.get('vk', 'fn2') in CTX_KINDS and wst['body'][0] != 'default' and s['context'] is NOCTX:
            return V('a view callable that takes a context was not handed one', exp)
    if after is None or after[0] is not E or after[3] is not E:
        return V('request.exception is not the rendered exception afterwards', exp)
    if after[2] is not before[2]:
        return V('request.response is not the pre-failure object afterwards', exp)
    marks = obs.get('marks')
    if out[1] == 'view' and marks and out == obs['out'] and ok_tags[out[2]]['st']['body'][0] == 'respond':
        if marks['status'] != 200 or marks['pre_failure_headers']:
            return V('the response produced by the exception view carries the pre-failure status / headers of request.response',
                     dict(exp, status=200, pre_failure_headers=[]))
    if after[1] is not E:
        return V('request.exc_info does not hold the rendered exception afterwards', exp)
    return None


def oracle(w, case, obs):
    """C14's statement.  E = the exception the excview tween caught (the original).
    * the exception views that apply to E: statements whose context is an exception type / interface E is an instance of,
      registered under the view name '' (exception lookup uses no view name), global or bound to the matched route, in
      force (same route, context, name and predicates: the later statement replaces the earlier), predicates all true
      (evaluated on the original request; containment on the original context when there is one);
    * ranked by (route-bound before global, position of the registered class in E's resolution order);
    * some applies  => the response is produced by one of the best-ranked ones; its body saw E as context, as
      request.exception and in request.exc_info; request.exception is E afterwards;
    * none applies  => the very object E leaves and request.exception / exc_info are as before — also when the request
      already carries the attributes of an earlier, handled exception;
    * an HTTP exception for which only the default exception-response view applies is itself the response (so an
      unmatched URL gives 404 and a refused permission 403);
    * an exception raised ABOVE the excview tween (a tween over it, a response callback, a NewResponse subscriber) is outside
      the tween: under the default execution policy the same object reaches the server; an execution policy that calls
      request.invoke_exception_view renders it by the same rules."""
    lg = w.log
    E = lg.get('passing')
    stats = {'caught': E is not None, 'applicable': 0, 'qualifying': 0, 'minimal': 0}
    request = lg.get('request')
    out = obs['out']

    def V(detail, expected=None, finding=None):
        v = {'detail': detail, 'case': case, 'impl': obs_public(obs), 'expected': expected}
        if finding:
            v['finding'] = finding
        return v
    if request is None:
        return V('request never reached the tween over excview'), stats
    d = request.__dict__
    wr = Request(c03.make_environ(case['req']))
    md = d.get('matchdict')
    ecase = effective(case)
    site = case['site']
    above = case.get('above') or {}
    pol = case.get('xpolicy')
    A = lg.get('above_exc')
    matched = getattr(d.get('matched_route'), 'name', None)
    tout = obs['tout']
    left = lg.get('left')
    viol = None
    if above.get('at') == 'over_before':
        if A is None or lg.get('inner_ran') or [s_ for s_ in lg['seen'] if s_['level'] == 'tween']:
            return V('a tween over the excview tween raised before calling its handler, yet the pipeline below ran'), stats
    else:
        viol = _tween_level(w, case, obs, stats, V, E, tout, left, wr, md, ecase, matched)
        if viol and not viol.get('finding'):
            return viol, stats
    first = viol        # a known finding at the tween level: the levels above are still judged
    # -- above the tween / the execution policy
    X = lg.get('policy_caught')
    final_exc = obs['raised']
    if not pol:
        if A is not None:
            if final_exc is not A:
                return first or V('an exception raised above the excview tween did not reach the server as the same object',
                                  {'raised_above': type(A).__name__}), stats
        elif left is not None and (final_exc is not None) != (left[0] == 'exc') or (final_exc is not None and left and final_exc is not left[1]):
            return first or V('what left the excview tween is not what left the router although nothing above raised'), stats
        return first, stats
    # an execution policy that invokes the exception view itself
    if X is None:
        return first, stats
    ei = pol.get('excinfo')
    R = lg.get('other_exc') if ei not in (None, 'current') else X          # no exc_info given => the exception being handled
    stats['policy_level'] = True
    pobj = final_exc if final_exc is not None else lg.get('policy_resp')
    pseen = [s_ for s_ in lg['seen'] if s_['excpath'] and s_['level'] == 'policy']
    viol = judge(w, case, obs, stats, V, R, out, pobj, pseen, lg.get('before_policy'), lg.get('after_policy'), wr, md, matched,
                 R, 'invoke', secure=bool(pol['secure']), reraise=bool(pol['reraise']))        # request.context is gone by now
    if first:
        if viol:
            first['also'] = viol.get('finding') or viol['detail']
            if not viol.get('finding'):
                return viol, stats
        return first, stats
    return viol, stats


def _tween_level(w, case, obs, stats, V, E, tout, left, wr, md, ecase, matched):
    lg = w.log
    request = lg.get('request')
    d = request.__dict__
    site = case['site']
    # -- what must have been raised when the request reached view lookup without any raising site
    if site.get('at') in EARLY_SITES:
        if E is not lg.get('site_exc') or E is None:
            return V('the exception raised at the site is not the one the excview tween caught')
    else:
        vn = d.get('view_name', '')
        normal = []
        for st in case['stmts']:
            if st['kind'] != 'view' or st.get('xonly'):
                continue
            _, cls = stmt_context(w, st)
            if st['name'] != vn:
                continue
            if st.get('route') and st['route'] != matched:
                continue
            if not st.get('route') and matched is not None and not [r for r in case['routes'] if r['name'] == matched][0].get('ugv'):
                continue
            if cls is not None and not (cls.providedBy(w.root) if isinstance(cls, InterfaceClass) else isinstance(w.root, cls)):
                continue
            normal.append(st)
        stats['normal_applicable'] = len(normal)
        if not normal:
            # an unmatched URL: HTTPNotFound is what has to be rendered
            if not isinstance(E, hx.HTTPNotFound):
                return V('no view is registered for the request but no HTTPNotFound reached the excview tween',
                         'HTTPNotFound raised by the router')
        elif len(normal) == 1 and stmt_holds(w, normal[0], wr, md, ecase, lambda n: w.root):
            st = normal[0]
            perm = st.get('perm')
            protected = case.get('policy', True) and (perm == 'p' or (perm is None and case.get('defperm')))
            if protected and not case['req'].get('permitted', True):
                if not isinstance(E, hx.HTTPForbidden):
                    return V('the only applicable view is protected and the policy refuses, but no HTTPForbidden reached the excview tween',
                             'HTTPForbidden')
            elif st['body'][0] == 'respond':
                if E is not None or tout != ['resp', 'view', st['tag']]:
                    return V('the only applicable view qualifies and is permitted but did not answer', ['resp', 'view', st['tag']])
    for (t, xp), X in lg['view_exc'].items():
        if not xp and X is not E:
            v = V('an exception raised by a view body never reached the excview tween: it was not rendered by an exception view and did not propagate',
                  {'raised_by_view': t, 'type': type(X).__name__})
            if isinstance(X, PredicateMismatch):
                v['finding'] = 'F-C14c'
                v['detail'] = ('a view body raised a PredicateMismatch instance: _call_view / MultiView took it for a failed predicate and went on to the '
                               'next view; the exception was neither rendered by an exception view nor propagated')
            return v
    if E is None:
        # nothing raised: nothing for C14 to say beyond "no exception view ran"
        if [s_ for s_ in lg['seen'] if s_['excpath'] and s_['level'] == 'tween']:
            return V('an exception view ran although nothing was raised')
        return None
    stats['E_multi'] = any(len(c.__bases__) >= 2 for c in type(E).__mro__ if c in w.xclasses)
    stats['E_http'] = isinstance(E, (hx.HTTPException, webob.exc.WSGIHTTPException))
    stats['E_pm'] = isinstance(E, PredicateMismatch)
    prior = lg.get('prior')
    tseen = [s_ for s_ in lg['seen'] if s_['excpath'] and s_['level'] == 'tween']
    cont_ctx = w.root if lg.get('ctx_at_exc') else E
    return judge(w, case, obs, stats, V, E, tout, left[1] if left else None, tseen, (prior, prior, lg.get('touched'), prior), lg.get('after'),
                 wr, md, matched, cont_ctx, 'tween')


def obs_public(obs):
    return {k: obs[k] for k in ('out', 'seen', 'attrs', 'caught')}


# ------------------------------------------------------------------------------------------------------
# generator

RAISABLE_BUILTINS = ['Exception', 'ValueError', 'KeyError', 'HTTPNotFound', 'HTTPForbidden', 'HTTPBadRequest', 'HTTPFound',
                     'PredicateMismatch', 'WebobNotFound']
BASE_BUILTINS = ['Exception', 'Exception', 'Exception', 'ValueError', 'KeyError', 'LookupError', 'HTTPNotFound', 'HTTPForbidden',
                 'HTTPBadRequest', 'HTTPException', 'PredicateMismatch']
CTX_BUILTINS = ['Exception', 'Exception', 'ValueError', 'LookupError', 'HTTPException', 'HTTPClientError', 'HTTPNotFound', 'HTTPForbidden',
                'PredicateMismatch', 'HTTPError']
PRED_NAMES = ['xhr', 'request_method', 'path_info', 'request_param', 'header', 'match_param', 'is_authenticated', 'custom',
              'containment', 'physical_path', 'request_method']


def gen_xclasses(rng):
    n = rng.choice([2, 3, 3, 4, 5])
    spec = []
    for k in range(n):
        for _ in range(10):
            nb = rng.choice([1, 1, 1, 2, 2] if k >= 1 else [1, 1, 2])
            bases = []
            for _b in range(nb):
                if k and rng.random() < 0.55:
                    b = ['u', rng.randrange(k)]
                else:
                    b = ['b', rng.choice(BASE_BUILTINS)]
                if b not in bases:
                    bases.append(b)
            cand = spec + [{'bases': bases}]
            try:
                make_xclasses(cand)
            except Exception:
                continue
            spec = cand
            break
        else:
            spec.append({'bases': [['b', 'Exception']]})
    return spec


def ancestors(xclasses, ref):
    """references of the classes on the MRO of `ref` that a statement can name"""
    cls = type('T', (), {})
    w = World()
    w.xclasses = make_xclasses(xclasses)
    c = ref_class(w, ref)
    out = []
    for m in c.__mro__:
        for k, x in enumerate(w.xclasses):
            if m is x:
                out.append(['u', k])
        for n, b in BUILTINS.items():
            if m is b:
                out.append(['b', n])
    return out


def gen_opts(rng, offers, rich=False, cont_refs=None):
    o, notted = {}, []
    k = rng.choice([0, 0, 0, 1, 1, 1, 2, 2] + ([3, 4] if rich else []))
    for name in dict.fromkeys(rng.sample(PRED_NAMES, k)):
        if name == 'xhr':
            o[name] = rng.random() < 0.6
        elif name == 'request_method':
            o[name] = rng.choice(c03.METHODS) if rng.random() < 0.5 else rng.sample(c03.METHODS, rng.choice([1, 2, 2, 3]))
        elif name == 'path_info':
            o[name] = rng.choice(['/', '/x', '.*x', '/r1/', '^/$', '/r[12]/f', ''])
        elif name == 'request_param':
            o[name] = rng.choice(c03.PARAM_SPECS) if rng.random() < 0.6 else rng.sample(c03.PARAM_SPECS, 2)
        elif name == 'header':
            o[name] = rng.choice(c03.HEADER_SPECS) if rng.random() < 0.65 else rng.sample(c03.HEADER_SPECS, 2)
        elif name == 'match_param':
            o[name] = rng.choice(c03.MATCH_SPECS) if rng.random() < 0.7 else rng.sample(c03.MATCH_SPECS, 2)
        elif name == 'is_authenticated':
            o[name] = rng.random() < 0.5
        elif name == 'containment':
            o[name] = rng.choice(cont_refs or [['b', 'Exception']])
        elif name == 'physical_path':
            o[name] = rng.choice(['/', [''], '/k1', ['', 'k1'], '//'])
        elif name == 'custom':
            o[name] = rng.sample(range(4), rng.choice([1, 1, 2]))
        if name != 'custom' and rng.random() < 0.15:
            notted.append(name)
    accept = rng.choice(offers) if offers and rng.random() < 0.2 else None
    return o, notted, accept


def gen_app(rng, big=False):
    xclasses = gen_xclasses(rng)
    n = len(xclasses)
    raised = ['u', rng.randrange(n)] if rng.random() < 0.7 else ['b', rng.choice(RAISABLE_BUILTINS)]
    rel = ancestors(xclasses, raised)
    routes = []
    nr = rng.choice([0, 0, 1, 1, 2])
    if nr >= 1:
        routes.append({'name': 'r1', 'pattern': '/r1/{mp}', 'ugv': rng.random() < 0.5})
    if nr >= 2:
        routes.append({'name': 'r2', 'pattern': '/r2/{mp}', 'ugv': rng.random() < 0.5})
    # no two accept offers of one application with equal `sort_accept_offers` keys: pyramid orders such a tie by Python `set`
    # iteration order (PYTHONHASHSEED-dependent), see notes/C03.md "Accept-family round"; corpus w29 is the seed-47 case
    offers = c03.distinct_offer_keys(rng.sample(c03.OFFERS, rng.choice([0, 0, 1, 2, 3])))[:2]
    rich = rng.random() < 0.25
    nst = rng.choice([2, 3, 4, 5, 6, 7] if not big else [6, 8, 10, 12])
    stmts = []
    root = None
    if rng.random() < 0.2:
        wtmp = World()
        wtmp.xclasses = make_xclasses(xclasses)
        plain = [k for k, c in enumerate(wtmp.xclasses) if not issubclass(c, webob.Response)]
        root = rng.choice(plain) if plain else None
        if raised[0] == 'u' and raised[1] in plain and rng.random() < 0.6:
            root = raised[1]       # the context resource is an instance of (a subclass of) the raised exception's class
    site_at = rng.choice(EARLY_SITES + ['none'] * 5)
    house = rng.choice(VIEW_KINDS + ['cls2', 'cls2', 'fn2', 'fn2'])      # the application's favourite kind of view callable
    cont_refs = ([['u', root]] * 2 if root is not None else []) + [x for x in rel if x[0] == 'u'][:2] + [['b', 'Exception'], ['b', 'ValueError']]

    def ctx_ref():
        r = rng.random()
        if r < 0.7 and rel:
            return rng.choice(rel)
        if r < 0.8:
            return ['u', rng.randrange(n)]
        if r < 0.95:
            return ['b', rng.choice(CTX_BUILTINS)]
        return ['i', 'IExceptionResponse']

    wtmp = World()
    wtmp.xclasses = make_xclasses(xclasses)

    def not_pm(ref):
        # a view body that raises a PredicateMismatch instance is taken for a failed predicate by _call_view / MultiView
        # (finding F-C14c, witness in the corpus); the model does not cover it, the generator leaves it out
        return not issubclass(ref_class(wtmp, ref), PredicateMismatch)

    def body(allow_default):
        r = rng.random()
        if r < 0.08 and allow_default:
            return ['default']
        if r < 0.16:
            pool = [x for x in [raised, ['b', 'ValueError'], ['b', 'HTTPNotFound'], ['b', 'HTTPForbidden'], ['u', rng.randrange(n)]] if not_pm(x)]
            return ['raise', rng.choice(pool), rng.choice(['body', 'body', 'renderer'])]
        return ['respond']
    for t in range(nst):
        tag = t + 1
        route = rng.choice([None, None, None] + [r['name'] for r in routes])
        if stmts and rng.random() < 0.07:
            st = json.loads(json.dumps(rng.choice(stmts)))          # same slot, same predicates: an override
            st['tag'] = tag
            if st['body'][0] != 'default':
                st['body'] = ['respond']
            stmts.append(st)
            continue
        o, notted, accept = gen_opts(rng, offers, rich, cont_refs)
        r = rng.random()
        if r < 0.42:
            st = {'kind': 'exc', 'ctx': ctx_ref() if rng.random() < 0.9 else None, 'name': '', 'body': body(False)}
        elif r < 0.67:
            st = {'kind': 'view', 'ctx': ctx_ref(), 'name': rng.choice(['', '', '', 'x']), 'xonly': rng.random() < 0.35,
                  'perm': rng.choice([None, None, None, 'p', 'p', 'npr']), 'body': body(False)}
        elif r < 0.82:
            st = {'kind': 'view', 'ctx': None if (root is None or rng.random() < 0.5) else ['u', root], 'name': rng.choice(['', '', 'x']),
                  'xonly': False, 'perm': rng.choice([None, None, 'p', 'npr']), 'body': body(False)}
            if st['body'][0] == 'respond' and site_at == 'none' and rng.random() < 0.6 and not_pm(raised):
                st['body'] = ['raise', raised, rng.choice(['body', 'body', 'renderer'])]
        elif r < 0.91:
            st = {'kind': 'notfound', 'ctx': None, 'name': '', 'body': body(True)}
        else:
            st = {'kind': 'forbidden', 'ctx': None, 'name': '', 'body': body(True)}
        if st['body'][0] == 'default':
            accept = accept      # default_exceptionresponse_view with predicates is fine
        st.update({'route': route, 'opts': o, 'not': notted, 'accept': accept, 'tag': tag,
                   'touch': st['body'][0] != 'default' and rng.random() < 0.25,
                   'vk': house if rng.random() < 0.6 else rng.choice(VIEW_KINDS),
                   'via': rng.choice([None, None, 'reqresp', 'renderer'])})
        stmts.append(st)
    site = {'at': site_at, 'exc': raised, 'prior': rng.random() < 0.3, 'touch': rng.random() < 0.25}
    root_same = bool(root is not None and rng.random() < 0.6)
    if root_same and raised == ['u', root] and site_at == 'none' and not_pm(raised) and rng.random() < 0.6:
        # the shape of the repaired F-C14b: the context resource provides exactly what the raised exception provides, an ordinary
        # view (for a base class / any context) raises it, an exception view is registered for it
        t = len(stmts)
        stmts.append({'kind': 'view', 'ctx': rng.choice([None, ['u', root]] + [a for a in rel if a[0] == 'u'][:1]), 'name': '', 'xonly': False,
                      'perm': rng.choice([None, 'npr']), 'body': ['raise', raised, rng.choice(['body', 'renderer'])], 'route': None, 'opts': {},
                      'not': [], 'accept': None, 'tag': t + 1})
        stmts.append({'kind': 'exc', 'ctx': rng.choice([['u', root], ['u', root], None]), 'name': '', 'body': ['respond'], 'route': None,
                      'opts': {}, 'not': [], 'accept': None, 'tag': t + 2})
    return {'xclasses': xclasses, 'root': root, 'root_same': root_same, 'routes': routes, 'policy': rng.random() < 0.8, 'defperm': rng.random() < 0.15,
            'default_excview': rng.random() < 0.85, 'stmts': stmts, 'commit': rng.choice(['auto', 'auto', 'each']), 'site': site}


def gen_above(rng, app):
    n = len(app['xclasses'])
    if rng.random() < 0.22:
        return {'at': rng.choice(ABOVE_SITES), 'exc': (['u', rng.randrange(n)] if rng.random() < 0.7 else ['b', rng.choice(RAISABLE_BUILTINS)])}
    return None


def gen_xpolicy(rng, app):
    n = len(app['xclasses'])
    if rng.random() < 0.3:
        return {'excinfo': rng.choice([None, None, 'current', 'current', ['u', rng.randrange(n)]]), 'secure': rng.random() < 0.75,
                'reraise': rng.random() < 0.6}
    return None


def gen_request(rng, app, targeted):
    stub = {'classes': [], 'tree': [{'cls': 0}], 'routes': app['routes'], 'regs': app['stmts']}
    rq = c03.targeted_request(rng, stub) if targeted else c03.gen_request(rng, stub)
    if rq['path'].startswith('/r1/') or rq['path'].startswith('/r2/'):
        rq['path'] = '/'.join(rq['path'].split('/')[:3])
    elif rng.random() < 0.25:
        rq['path'] = rng.choice(['/', '/x', '/nosuch'])
    return rq


def gen_cases(rng, napps, nreq, big=False):
    for _ in range(napps):
        app = gen_app(rng, big=big)
        for j in range(nreq):
            case = dict(app, req=gen_request(rng, app, j % 2 == 1), above=gen_above(rng, app), xpolicy=gen_xpolicy(rng, app))
            if j >= 2 and rng.random() < 0.5:
                # same application, another site / exception
                n = len(app['xclasses'])
                case['site'] = dict(app['site'], at=rng.choice(EARLY_SITES + ['none'] * 3),
                                    exc=(['u', rng.randrange(n)] if rng.random() < 0.7 else ['b', rng.choice(RAISABLE_BUILTINS)]),
                                    prior=rng.random() < 0.3, touch=rng.random() < 0.25)
            yield case


# ------------------------------------------------------------------------------------------------------
# checking one case

def check_case(case):
    w = get_world(case)
    obs = observe(w, case)
    viol, stats = oracle(w, case, obs)
    minfo = model_input(w, case, obs) if w.log.get('request') is not None else None
    return {'obs': obs, 'viol': viol, 'stats': stats, 'minfo': minfo}


def accept_tie_groups(case):
    """tags of statements of one slot whose different accept offers have EQUAL sort_accept_offers keys: pyramid orders their
    buckets by Python set iteration order (PYTHONHASHSEED), so which of them is tried first is not a function of the case"""
    groups = {}
    for st in case['stmts']:
        a = st.get('accept')
        if a is None:
            continue
        base = a.split(';')[0]
        key = (st.get('route'), stmt_ctx_id(st), st['name'] if st['kind'] == 'view' else '',
               base if base in c03.ORDERED_TYPES else '?', ';' in a)
        groups.setdefault(key, {}).setdefault(a, []).append(st['tag'])
    return [sorted(t for ts in g.values() for t in ts) for g in groups.values() if len(g) >= 2]


def compare_model(case, res, mo):
    if mo is None or res['minfo'] is None:
        return None
    if res['viol'] and (res['viol'].get('finding') in ('F-C14c', 'F-C14d') or res['viol'].get('also') in ('F-C14c', 'F-C14d')):
        return None          # outside the model: view bodies raising PredicateMismatch; __call_permissive__ skipping predicates
    obs = res['obs']
    if 'error' in mo:
        return {'case': case, 'impl': obs_public(obs), 'model': mo}
    problems = []
    mout = mo['out']
    if mout != obs['out']:
        tie = (mout[:2] == ['resp', 'view'] and obs['out'][:2] == ['resp', 'view'] and
               any(mout[2] in g and obs['out'][2] in g for g in accept_tie_groups(case)))
        if tie:
            return None            # an unordered pair (equal accept sort keys): either view may answer
        problems.append('outcome')
    if mo['caught'] != obs['caught']:
        problems.append('caught')
    if mo['attrs'] != obs['attrs']:
        problems.append('attrs-after')
    # what the exception view saw is observable only through harness views
    winner_default = False
    if mo['seen'] is not None and obs['seen'] is None:
        # a body the harness cannot instrument (the real default_exceptionresponse_view) ran
        winner_default = True
    if not winner_default and mo['seen'] != obs['seen']:
        problems.append('seen')
    if mo.get('coherent') and mo.get('wf'):
        sp = mo['spec']
        if sp['out'] != mo['out'] or sp['seen'] != mo['seen'] or sp['attrs'] != mo['attrs']:
            problems.append('model!=spec on a coherent, well-formed case (contradicts excview_eq_spec)')
    if problems:
        return {'case': case, 'impl': obs_public(obs), 'model': mo, 'problems': problems}
    return None


def violates(case, finding=None):
    res = check_case(case)
    v = res['viol']
    return bool(v) and v.get('finding') == finding


def shrink_case(case, pred):
    cur = case

    def ok(c):
        try:
            return pred(c)
        except Exception:
            return False
    changed = True
    while changed:
        changed = False
        for i in range(len(cur['stmts'])):
            c = dict(cur, stmts=cur['stmts'][:i] + cur['stmts'][i + 1:])
            if ok(c):
                cur = c; changed = True
                break
    for key, val in (('qs', ''), ('body', None), ('headers', []), ('accept', None), ('xhr', None), ('custom', []),
                     ('auth', False), ('permitted', True), ('method', 'GET')):
        if cur['req'].get(key) != val:
            c = dict(cur, req=dict(cur['req'], **{key: val}))
            if ok(c):
                cur = c
    for i, st in enumerate(cur['stmts']):
        for name in list(st['opts']):
            o2 = {k: v for k, v in st['opts'].items() if k != name}
            c = dict(cur, stmts=cur['stmts'][:i] + [dict(st, opts=o2, **{'not': [x for x in st.get('not', []) if x != name]})] + cur['stmts'][i + 1:])
            if ok(c):
                cur = c
                st = cur['stmts'][i]
        if st.get('accept') is not None:
            c = dict(cur, stmts=cur['stmts'][:i] + [dict(st, accept=None)] + cur['stmts'][i + 1:])
            if ok(c):
                cur = c
    for key, val in (('commit', 'auto'), ('defperm', False), ('root', None), ('root_same', False), ('default_excview', True), ('policy', True)):
        if cur.get(key) != val:
            c = dict(cur, **{key: val})
            if ok(c):
                cur = c
    for key in ('above', 'xpolicy'):
        if cur.get(key):
            c = dict(cur, **{key: None})
            if ok(c):
                cur = c
    for i, st in enumerate(cur['stmts']):
        for key_, val_ in (('via', None), ('vk', 'fn2')):
            if st.get(key_) not in (None, val_):
                c = dict(cur, stmts=cur['stmts'][:i] + [dict(st, **{key_: val_})] + cur['stmts'][i + 1:])
                if ok(c):
                    cur = c
                    st = cur['stmts'][i]
        if st.get('touch'):
            c = dict(cur, stmts=cur['stmts'][:i] + [dict(st, touch=False)] + cur['stmts'][i + 1:])
            if ok(c):
                cur = c
    for key in ('prior', 'touch'):
        if cur['site'].get(key):
            c = dict(cur, site=dict(cur['site'], **{key: False}))
            if ok(c):
                cur = c
    if cur['routes'] and not cur['req']['path'].startswith('/r'):
        c = dict(cur, routes=[], stmts=[dict(s, route=None) for s in cur['stmts']])
        if ok(c):
            cur = c
    return cur


def base_case(**kw):
    c = {'xclasses': [{'bases': [['b', 'Exception']]}, {'bases': [['u', 0]]}], 'root': None, 'routes': [], 'policy': True,
         'defperm': False, 'default_excview': True, 'stmts': [], 'commit': 'auto',
         'site': {'at': 'none', 'exc': ['u', 1], 'prior': False, 'touch': False},
         'req': {'path': '/', 'method': 'GET', 'qs': '', 'body': None, 'ctype': None, 'headers': [], 'accept': None, 'xhr': None,
                 'auth': False, 'permitted': True, 'custom': []}}
    c.update(kw)
    return c


def mk(kind, tag, ctx=None, **kw):
    st = {'kind': kind, 'ctx': ctx, 'name': '', 'route': None, 'opts': {}, 'not': [], 'accept': None, 'tag': tag, 'body': ['respond']}
    if kind == 'view':
        st.update({'xonly': False, 'perm': None})
    st.update(kw)
    return st


# the recorded finding: a protected exception view that is refused (same defect as F-C05a, seen from C14)
W_PROTECTED = base_case(stmts=[mk('view', 1, ['u', 0], perm='p')],
                        site={'at': 'contextfound', 'exc': ['u', 1], 'prior': False, 'touch': False},
                        req=dict(base_case()['req'], permitted=False))


# regression case of F-C14b (fixed by fc67717: the lookup cache key now holds the classifier): a context resource that is an
# instance of the raised exception's class; before the fix the main lookup cached the ordinary views under
# (IRequest, implementedBy(X0), '') and the exception lookup for X0() was answered with that entry.  Must PASS now.
W_CACHE = base_case(xclasses=[{'bases': [['b', 'Exception']]}], root=0, root_same=True,
                    stmts=[mk('view', 1, None, body=['raise', ['u', 0], 'body']), mk('exc', 2, ['u', 0])],
                    site={'at': 'none', 'exc': ['u', 0], 'prior': False, 'touch': False})
# F-C14c: view 1 raises a PredicateMismatch subclass: view 2 answers, the exception view 3 is never asked
W_PM_BODY = base_case(xclasses=[{'bases': [['b', 'PredicateMismatch']]}],
                      stmts=[mk('view', 1, None, opts={'request_method': 'GET'}, body=['raise', ['u', 0], 'body']), mk('view', 2, None),
                             mk('exc', 3, ['u', 0])],
                      site={'at': 'none', 'exc': ['u', 0], 'prior': False, 'touch': False})
# F-C14d: invoke_exception_view(secure=False) and a protected single exception view whose predicate is false: it answers
W_PERMISSIVE = base_case(stmts=[mk('view', 1, ['u', 0], perm='p', xonly=True, opts={'request_method': 'POST'})],
                         site={'at': 'contextfound', 'exc': ['u', 1], 'prior': False, 'touch': False},
                         xpolicy={'excinfo': 'current', 'secure': False, 'reraise': True})
WITNESSES = (('protected-exception-view-refused', 'F-C14a'), ('lookup-cache-holds-classifier (regression of fixed F-C14b)', None),
             ('view-body-raises-PredicateMismatch', 'F-C14c'), ('insecure-invocation-skips-predicates', 'F-C14d'))


def run(ctx):
    rng = ctx.rng
    cases = [c for _, c in ctx.corpus()]
    ncorpus = len(cases)
    cases += list(gen_cases(rng, ctx.n(700, 5000), ctx.n(6, 8)))
    cases += list(gen_cases(rng, ctx.n(25, 400), ctx.n(6, 8), big=True))
    results = []
    for case in cases:
        if ctx.time_left() < 60:
            break
        try:
            results.append(check_case(case))
        except Exception as e:
            results.append({'obs': {'out': ['harness-error', '%s: %s' % (type(e).__name__, e)], 'seen': None, 'attrs': None, 'caught': None},
                            'minfo': None, 'stats': {},
                            'viol': {'case': case, 'impl': 'harness error %s: %s' % (type(e).__name__, e), 'expected': 'no error',
                                     'detail': 'the harness could not run this case'}})
    cases = cases[:len(results)]
    idx = [i for i, r in enumerate(results) if r['minfo'] is not None]
    model = [None] * len(results)
    if ctx.driver_path and idx:
        outs = ctx.run_model([results[i]['minfo'] for i in idx])
        for i, mo in zip(idx, outs):
            model[i] = mo
    mism, viol, agree = [], [], 0
    seen, nontriv = set(), set()
    dist = {'outcome': {}, 'site': {}, 'caught_type': {}, 'stmts': {}, 'stmt_kinds': {}, 'applicable': {}, 'qualifying': {},
            'winner_route_bound': 0, 'winner_class_rank': {}, 'nearer_view_failed_predicate': 0, 'multi_inheritance_raised': 0,
            'http_exception_raised': 0, 'predicate_mismatch_family_raised': 0, 'prior_attrs': 0, 'touched_response': 0,
            'exception_only_stmts': 0, 'both_classifier_stmts': 0, 'route_requests': 0, 'no_policy': 0, 'default_permission': 0,
            'no_default_excview': 0, 'root_is_exception_instance': 0, 'root_exactly_of_raised_class': 0, 'same_spec_main_hit_then_exception_lookup': 0, 'incoherent_cases': 0, 'silent_oracle': 0, 'finding_hits': {},
            'self_response_status': {}, 'commit_mode': {},
            'above_site': {}, 'execution_policy': {}, 'policy_level_renderings': 0, 'exception_view_touched_response': 0,
            'carries_earlier_exception_then_no_match': 0, 'containment_on_exception_view': 0, 'physical_path_on_exception_view': 0,
            'view_kind': {}, 'answering_exception_view_kind': {}, 'answering_view_builds_on_request_response': {},
            'touched_then_http_exception_rendered_by_view': 0, 'same_class_raised_then_rendered': 0}
    for case, res, mo in zip(cases, results, model):
        m = compare_model(case, res, mo)
        if m:
            mism.append(m)
        elif mo is not None:
            agree += 1
        if res['viol']:
            viol.append(res['viol'])
            f = res['viol'].get('finding')
            if f:
                vfutil.bump(dist['finding_hits'], f)
        obs, st = res['obs'], res['stats']
        o = obs['out']
        vfutil.bump(dist['outcome'], '/'.join(str(x) for x in o[:2]) if o[0] == 'resp' else ('raise:original' if (o[0] == 'raise' and o[1] == obs['caught']) else str(o[0]) + ':' + str(o[1] if len(o) > 1 else '')))
        if o[0] == 'resp' and o[1] == 'self':
            vfutil.bump(dist['self_response_status'], o[3])
        vfutil.bump(dist['site'], case['site'].get('at'))
        vfutil.bump(dist['stmts'], len(case['stmts']))
        vfutil.bump(dist['commit_mode'], case.get('commit'))
        if st:
            vfutil.bump(dist['applicable'], min(st.get('applicable', 0), 6))
            vfutil.bump(dist['qualifying'], min(st.get('qualifying', 0), 4))
            if st.get('winner_rank'):
                if st['winner_rank'][0] == 0:
                    dist['winner_route_bound'] += 1
                vfutil.bump(dist['winner_class_rank'], min(st['winner_rank'][1], 8))
            if st.get('nearer_failed'):
                dist['nearer_view_failed_predicate'] += 1
            if st.get('silent'):
                dist['silent_oracle'] += 1
            for k_, d_ in (('E_multi', 'multi_inheritance_raised'), ('E_http', 'http_exception_raised'), ('E_pm', 'predicate_mismatch_family_raised')):
                if st.get(k_):
                    dist[d_] += 1
        if mo and not mo.get('coherent', True):
            dist['incoherent_cases'] += 1
        vfutil.bump(dist['above_site'], (case.get('above') or {}).get('at', 'none'))
        xp_ = case.get('xpolicy')
        vfutil.bump(dist['execution_policy'], 'default' if not xp_ else 'invoke(excinfo=%s,secure=%s,reraise=%s)' % (
            'given' if xp_.get('excinfo') == 'current' else 'none' if xp_.get('excinfo') is None else 'other', xp_['secure'], xp_['reraise']))
        if st and st.get('policy_level'):
            dist['policy_level_renderings'] += 1
            if obs['out'][0] == 'raise' and obs['attrs'] and obs['attrs'][0] is not None and obs['attrs'][0] != ID_PRIOR:
                dist['carries_earlier_exception_then_no_match'] += 1
        if res['minfo'] and mo and mo.get('seen') and any(s_.get('touch') and s_['tag'] == (obs['out'][2] if obs['out'][:2] == ['resp', 'view'] else -1) for s_ in case['stmts']):
            dist['exception_view_touched_response'] += 1
        if obs['out'][:2] == ['resp', 'view'] and obs['seen'] is not None:
            ws_ = [s_ for s_ in case['stmts'] if s_['tag'] == obs['out'][2]]
            if ws_:
                vfutil.bump(dist['answering_exception_view_kind'], ws_[0].get('vk', 'fn2'))
                if ws_[0].get('via') and ws_[0]['body'][0] == 'respond' and stmt_xonly(ws_[0]) and stmt_isexc(ws_[0]):
                    vfutil.bump(dist['answering_view_builds_on_request_response'], ws_[0]['via'])
                if case['site'].get('touch') and st.get('E_http'):
                    dist['touched_then_http_exception_rendered_by_view'] += 1
                cid_ = obs['caught']
                if ws_[0].get('vk') == 'cls2' and isinstance(cid_, int) and ID_VIEWEXC <= cid_ < ID_VIEWEXC + ID_AGAIN and \
                        [s_ for s_ in case['stmts'] if s_['tag'] == cid_ - ID_VIEWEXC and s_.get('vk') == 'cls2']:
                    dist['same_class_raised_then_rendered'] += 1      # the shape of seed C14-5
        if case['site'].get('prior'):
            dist['prior_attrs'] += 1
        if case['site'].get('touch'):
            dist['touched_response'] += 1
        if res['minfo']:
            if res['minfo']['comb'][0] != 0:
                dist['route_requests'] += 1
        key = vfutil.canon(case)
        if key not in seen:
            seen.add(key)
            for s in case['stmts']:
                vfutil.bump(dist['stmt_kinds'], s['kind'])
                vfutil.bump(dist['view_kind'], s.get('vk', 'fn2'))
                if stmt_isexc(s) and 'containment' in s['opts']:
                    dist['containment_on_exception_view'] += 1
                if stmt_isexc(s) and 'physical_path' in s['opts']:
                    dist['physical_path_on_exception_view'] += 1
                if stmt_isexc(s) and stmt_xonly(s):
                    dist['exception_only_stmts'] += 1
                elif stmt_isexc(s):
                    dist['both_classifier_stmts'] += 1
            if not case.get('policy', True):
                dist['no_policy'] += 1
            if case.get('defperm'):
                dist['default_permission'] += 1
            if not case.get('default_excview', True):
                dist['no_default_excview'] += 1
            if case.get('root') is not None:
                dist['root_is_exception_instance'] += 1
                if case.get('root_same') and case['site'].get('exc') == ['u', case['root']]:
                    dist['root_exactly_of_raised_class'] += 1
                    if res['minfo'] and case['site'].get('at') == 'none' and obs['caught'] is not None \
                            and isinstance(obs['caught'], int) and obs['caught'] >= ID_VIEWEXC and res['minfo']['comb'][0] == 0:
                        # the shape of the repaired F-C14b: an ordinary view found for the resource raised an exception that
                        # provides exactly what the resource provides, unrouted: both lookups share every cache-key part but the classifier
                        dist['same_spec_main_hit_then_exception_lookup'] += 1
            if st and st.get('caught'):
                w = get_world(case)
                # (re-derive the type of what was caught from the ids)
                cid = obs['caught']
                vfutil.bump(dist['caught_type'], {ID_NF: 'router-HTTPNotFound', ID_MM: 'router-PredicateMismatch', ID_FB: 'router-HTTPForbidden',
                                                  ID_SITE: 'site'}.get(cid, 'view-body/renderer' if isinstance(cid, int) and cid >= ID_VIEWEXC else str(cid)))
                if st.get('applicable', 0) >= 2 or (st.get('applicable', 0) >= 1 and st.get('qualifying', 0) < st.get('applicable', 0)):
                    nontriv.add(key)
    # shrink what is reported
    out_viol = []
    unknown = [v for v in viol if not v.get('finding')]
    for v in unknown[:3]:
        try:
            small = shrink_case(v['case'], lambda c: violates(c, None))
            r2 = check_case(small)
            out_viol.append(r2['viol'] or v)
        except Exception:
            out_viol.append(v)
    known_seen = {}
    for v in viol:
        if v.get('finding') and v['finding'] not in known_seen:
            known_seen[v['finding']] = v
    out_viol += list(known_seen.values())
    out_viol += unknown[3:8]
    notes = []
    for (name, fid), wcase in zip(WITNESSES, (W_PROTECTED, W_CACHE, W_PM_BODY, W_PERMISSIVE)):
        try:
            r = check_case(wcase)
        except Exception as e:
            notes.append('witness %s could not be run: %s: %s' % (name, type(e).__name__, e))
            continue
        notes.append('witness %s: impl=%s finding=%s' % (name, r['obs']['out'], (r['viol'] or {}).get('finding')))
        if fid is None:
            if r['viol']:
                out_viol.append(r['viol'])
            continue
        if r['viol'] and r['viol'].get('finding') == fid and fid not in known_seen:
            out_viol.append(r['viol'])
            known_seen[fid] = r['viol']
        elif r['viol'] and r['viol'].get('finding') != fid:
            out_viol.append(r['viol'])
        elif not r['viol']:
            notes.append('witness %s no longer violates the statement on this tree' % name)
    return {'evaluations': len(cases), 'distinct_nontrivial': len(nontriv), 'rule': RULE, 'agreeing': agree,
            'samples': cases[ncorpus:ncorpus + 2] + cases[-1:], 'mismatches': mism[:20], 'violations': out_viol,
            'distribution': dist, 'notes': notes,
            'assumptions': ['zope.interface resolution orders of providedBy(exception) and of request_iface.combined, isinstance(exc, HTTPNotFound), '
                            'WebOb request parsing / Accept negotiation, Python re are inputs of the model',
                            'view bodies, custom predicates, subscribers, tweens, root factory, traverser and the security policy are harness-controlled',
                            'raising sites above the excview tween (tweens over it, response callbacks, NewResponse subscribers, finished callbacks) '
                            'are outside the mechanism and are not generated'],
            'trusted_base': ['C03\'s model of registration and lookup (ViewLookup.lean; lookup_eq_spec) and its translator extract/c03.py',
                             'Python exception matching (`except HTTPNotFound`), sys.exc_info, contextlib.contextmanager']}


def search(ctx):
    """small-scope search for an input on which the implementation violates the statement: every population of <= 2 (sampled: 3)
    exception-view statements over a 3-class chain + a multiply-inheriting class x {global, route-bound} x {no predicate, a true
    one, a false one} x every raised class x sites {view body, subscriber, unmatched URL}; then a random stream."""
    rng = ctx.rng
    xclasses = [{'bases': [['b', 'Exception']]}, {'bases': [['u', 0]]}, {'bases': [['b', 'HTTPNotFound']]}, {'bases': [['u', 1], ['u', 2]]}]
    routes = [{'name': 'r1', 'pattern': '/r1/{mp}', 'ugv': False}]
    protos = []
    for ctx_ref in (['u', 0], ['u', 1], ['u', 2], ['b', 'Exception'], ['b', 'HTTPNotFound']):
        for route in (None, 'r1'):
            for opts in ({}, {'request_method': 'GET'}, {'request_method': 'POST'}):
                protos.append((ctx_ref, route, opts))
    sites = [{'at': 'contextfound', 'prior': False, 'touch': False}, {'at': 'none', 'prior': True, 'touch': False}]
    reqs = [dict(base_case()['req'], path=p) for p in ('/', '/r1/foo', '/nosuch')]
    viol, n = [], 0
    exhaustive = True

    def try_case(case):
        nonlocal n
        n += 1
        res = check_case(case)
        if res['viol'] and not res['viol'].get('finding'):
            try:
                small = shrink_case(case, lambda c: violates(c, None))
                viol.append(check_case(small)['viol'] or res['viol'])
            except Exception:
                viol.append(res['viol'])
            return True
        return False
    for _, c in ctx.corpus():
        try_case(c)
    import itertools
    for size in (0, 1, 2, 3):
        combos = list(itertools.product(protos, repeat=size))
        if size >= 2:
            rng.shuffle(combos)
            combos = combos[:ctx.n(150, 1500)]
            exhaustive = False
        for combo in combos:
            stmts = [mk('exc', i + 1, p[0], route=p[1], opts=dict(p[2])) for i, p in enumerate(combo)]
            stmts.append(mk('view', 50, None, body=['raise', ['u', 3], 'body']))
            for raised in (['u', 3], ['u', 1], ['b', 'HTTPNotFound']):
                for site in sites:
                    for rq in reqs:
                        case = base_case(xclasses=xclasses, routes=routes, stmts=stmts, site=dict(site, exc=raised), req=rq)
                        if try_case(case) and len(viol) >= 3:
                            return {'violations': viol, 'searched': n, 'exhaustive': False}
            if ctx.time_left() < 120:
                return {'violations': viol, 'searched': n, 'exhaustive': False}
        if viol:
            return {'violations': viol, 'searched': n, 'exhaustive': False}
    for case in gen_cases(rng, ctx.n(150, 1500), 6):
        if try_case(case) and len(viol) >= 3:
            break
        if ctx.time_left() < 60:
            break
    return {'violations': viol, 'searched': n, 'exhaustive': exhaustive and not viol}


def replay(ctx, rep):
    case = rep.get('case')
    if case is None:
        return {'violates': False, 'note': 'replay names broken obligations only', 'broken': rep.get('broken_obligations')}
    res = check_case(case)
    mo = None
    if ctx.driver_path and res['minfo'] is not None:
        mo = ctx.run_model([res['minfo']])[0]
    v = res['viol']
    return {'case': case, 'impl': obs_public(res['obs']), 'model': mo, 'spec': (v or {}).get('expected'),
            'mismatch': compare_model(case, res, mo), 'detail': (v or {}).get('detail'), 'finding': (v or {}).get('finding'),
            'violates': bool(v)}
