"""C06 — a generated route URL is matched by its route and yields the supplied values.

Correspondence of lean/PyramidModel/UrlGen.lean (+ C01's Route.lean) with the real code, stage by stage:
  template `gen` of the generator closure  ->  route.generate(kw)  ->  request.route_path / route_url
  ->  the path a server derives from the request target (cut at ?/#, percent-decode to bytes, strip SCRIPT_NAME,
      latin-1 str = PATH_INFO)  ->  Router.__call__  ->  request.path_info / matched_route / matchdict seen by a view,
and the property itself evaluated on the implementation by a Python oracle that does not depend on the Lean build.

Case (JSON):
  {"intent": [["lit",s] | ["ph",name,rxtext|null] | ["rest",name]...],      the pattern is render(intent)
   "kw": [[key, ["one",ATOM] | ["many",[ATOM...]]]...], "elems": [ATOM...],
   "script": str, "host": str, "query": str|null, "anchor": str|null [, "expect_fail": clause]}
  ATOM = ["s",text] | ["b",[byte...]] | ["i","-12"] | ["o","1.5"|"None"|"True"|"False"|"1.0"|"0.0"|"2.50" (a Decimal)]
  optional "kw_history": [[[key, VAL]...]...] — keyword dictionaries of earlier route_path calls on the same route object
  optional "req_history": {"start_script": str, "start_path_info": str, "steps": [["path"] | ["url"] | ["assign", str] |
            ["pop"] | ["peek"]...]} — ONE request object: it starts under start_script / start_path_info, route_path /
            route_url are called on it, SCRIPT_NAME moves (request.script_name = …, request.path_info_pop(),
            request.path_info_peek()), and only then comes the case's own call; "script" is the SCRIPT_NAME the request
            has at that moment (the steps must lead there), and the answer must be a fresh request's
  optional "history": [[ATOM...]...] — element tuples of earlier route_path calls on the same route (the lru_cache)
"""
import json, re, sys
from urllib.parse import unquote_to_bytes, urlparse

import vfutil
from vfutil import bump, canon

RULE = ('one route pattern (1-5 tokens after the leading literal: literals over letters, digits, regex metacharacters, '
        'URL-reserved characters, non-ASCII; {name} / {name:regex} placeholders, several per segment; optional *rest) x '
        'keyword values (str / bytes / int / other objects; remainder as string, tuple or list) x 0-3 extra elements x '
        'SCRIPT_NAME x query/anchor; every case is generated with route_path and route_url and the route_path result is '
        'requested from the same application through Router.__call__; a case is non-trivial when it lies in the '
        'property\'s domain (Admissible), the round trip was actually performed, and at least one supplied value '
        'needs quoting or the pattern has a remainder; distinct = distinct canonical case JSON')

# custom placeholder regexes: text exactly as Rx.print prints it -> wire form of the tree
RXLIB = {
    r'\d+': ["rep", True, 1, None, ["esc", "d", False]],
    r'[a-z]+': ["rep", True, 1, None, ["set", False, [["r", 97, 122]]]],
    r'.+': ["rep", True, 1, None, ["any"]],
    r'\w+': ["rep", True, 1, None, ["esc", "w", False]],
    r'[^/\.]+': ["rep", True, 1, None, ["set", True, [["c", 47], ["c", 46]]]],
}
import decimal
OTHER = {'1.5': 1.5, 'None': None, 'True': True, 'False': False, '1.0': 1.0, '0.0': 0.0,
         '2.50': decimal.Decimal('2.50')}       # the last one: str() and repr() differ
NAMES = ['a', 'b', 'c', 'x', 'y', 'id', 'slug', 'name', 'year', 'p_1', 'traverse', 'subpath', 'fizz', 'Zed']
UNRESERVED = set('abcdefghijklmnopqrstuvwxyzABCDEFGHIJKLMNOPQRSTUVWXYZ0123456789_.-~')
PATH_SAFE_STMT = set("~!$&'()*+,;=:@/")           # RFC 3986 pchar minus unreserved/pct, plus '/': what a path may hold
PATH_RE = re.compile(r"(?:[A-Za-z0-9_.\-~!$&'()*+,;=:@/]|%[0-9A-Fa-f]{2})*")


# ------------------------------------------------------------------------------------------------ patterns

def render(intent):
    parts = []
    for t in intent:
        if t[0] == 'lit':
            parts.append(t[1])
        elif t[0] == 'ph':
            parts.append('{' + t[1] + '}' if t[2] is None else '{' + t[1] + ':' + t[2] + '}')
        else:
            parts.append('*' + t[1])
    return ''.join(parts)


def is_ident(s):
    return bool(re.fullmatch(r'[_a-zA-Z][_a-zA-Z0-9]*', s))


def faithful(intent):
    """does the documented pattern grammar read render(intent) as exactly these tokens?  (decided on the tokens)"""
    if not isinstance(intent, list) or not intent:
        return False
    for t in intent:
        if not isinstance(t, list) or not t or t[0] not in ('lit', 'ph', 'rest'):
            return False
        if t[0] == 'lit' and (len(t) != 2 or not isinstance(t[1], str)):
            return False
        if t[0] == 'ph' and (len(t) != 3 or not isinstance(t[1], str) or not (t[2] is None or t[2] in RXLIB)):
            return False
        if t[0] == 'rest' and (len(t) != 2 or not isinstance(t[1], str)):
            return False
    if intent[0][0] != 'lit' or not intent[0][1].startswith('/'):
        return False
    names = [t[1] for t in intent if t[0] != 'lit']
    if len(set(names)) != len(names) or not all(is_ident(n) for n in names):
        return False
    if any(n.startswith('_') or n in ('self', 'route_name') for n in names):
        return False
    for k, t in enumerate(intent):
        if t[0] == 'lit':
            if k > 0 and t[1] == '':
                return False
            if any(c in t[1] for c in '{}*'):
                return False
            if k + 1 < len(intent) and intent[k + 1][0] == 'lit':
                return False
        if t[0] == 'rest' and k != len(intent) - 1:
            return False
    if not any(t[0] == 'ph' for t in intent):
        # no braces anywhere: old-style `:name` rewriting is live
        if any(t[0] == 'lit' and re.search(r':[_a-zA-Z]', t[1]) for t in intent):
            return False
    pattern = render(intent)
    try:
        if urlparse(pattern).hostname or pattern.startswith('//'):
            return False                       # add_route would declare an external (static) route
    except Exception:
        return False
    return True


# ------------------------------------------------------------------------------------------------ values

def atom_py(a):
    k, v = a
    if k == 's':
        return v
    if k == 'b':
        return bytes(v)
    if k == 'i':
        return int(v)
    if k != 'o':
        raise ValueError('bad atom kind')
    return OTHER[v]


def atom_text(a):
    """the text a value stands for (None: bytes that are not UTF-8)"""
    k, v = a
    if k == 's':
        return v
    if k == 'b':
        try:
            return bytes(v).decode('utf-8')
        except UnicodeDecodeError:
            return None
    if k == 'i':
        return str(int(v))
    if k != 'o' or v not in OTHER:
        raise ValueError('bad atom')
    return v


def val_py(v):
    if v[0] == 'one':
        return atom_py(v[1])
    xs = [atom_py(a) for a in v[1]]
    return tuple(xs) if len(xs) % 2 == 0 else xs


def norm_split(text):
    """`normalise` of a '/'-joined remainder string: the path's segments without empty and '.' ones, '..' pops"""
    out = []
    for seg in text.strip('/').split('/'):
        if seg in ('', '.'):
            continue
        if seg == '..':
            if out:
                out.pop()
        else:
            out.append(seg)
    return out


def sim_req_history(rh):
    """(script, path_info) a request has after the steps, by the documented meaning of the operations: assignment sets
    SCRIPT_NAME; path_info_pop moves the leading slashes and the first segment of PATH_INFO to the end of SCRIPT_NAME;
    path_info_peek and the URL calls change nothing"""
    script, pi = rh['start_script'], rh['start_path_info']
    for st in rh['steps']:
        if st[0] == 'assign':
            script = st[1]
        elif st[0] == 'pop':
            if pi:
                rest = pi.lstrip('/')
                slashes = pi[:len(pi) - len(rest)]
                idx = rest.find('/')
                if idx == -1:
                    idx = len(rest)
                script += slashes + rest[:idx]
                pi = rest[idx:]
        elif st[0] not in ('path', 'url', 'peek'):
            raise ValueError('bad step')
    return script, pi


def wf_req_history(case):
    rh = case.get('req_history')
    if rh is None:
        return True
    if not (isinstance(rh, dict) and isinstance(rh.get('start_script'), str) and isinstance(rh.get('start_path_info'), str)
            and isinstance(rh.get('steps'), list)):
        return False
    for st in rh['steps']:
        if not (isinstance(st, list) and st and st[0] in ('path', 'url', 'assign', 'pop', 'peek')):
            return False
        if st[0] == 'assign' and not (len(st) == 2 and isinstance(st[1], str) and (st[1] == '' or st[1].startswith('/'))):
            return False
    if rh['start_script'] and not rh['start_script'].startswith('/'):
        return False
    if rh['start_path_info'] and not rh['start_path_info'].startswith('/'):
        return False
    rh['start_script'].encode('utf-8'); rh['start_path_info'].encode('utf-8')
    return sim_req_history(rh)[0] == case['script']


def wf_case(case):
    try:
        if not wf_req_history(case):
            return False
        if not faithful(case['intent']):
            return False
        keys = [k for k, _ in case['kw']]
        if len(set(keys)) != len(keys):
            return False
        for k, v in case['kw']:
            if not isinstance(k, str) or k.startswith('_') or k in ('self', 'route_name') or k == '':
                return False
            if not (isinstance(v, list) and len(v) == 2 and v[0] in ('one', 'many')):
                return False
            atoms = [v[1]] if v[0] == 'one' else v[1]
            for a in atoms:
                atom_py(a)
                atom_text(a)
        for a in case['elems']:
            atom_py(a)
        for h in case.get('history', []):
            for a in h:
                atom_py(a)
        for hk in case.get('kw_history', []):
            if len(set(k for k, _ in hk)) != len(hk):
                return False
            for k, v in hk:
                if not isinstance(k, str) or k.startswith('_') or k in ('self', 'route_name') or k == '':
                    return False
                if not (isinstance(v, list) and len(v) == 2 and v[0] in ('one', 'many')):
                    return False
                for a in ([v[1]] if v[0] == 'one' else v[1]):
                    atom_py(a)
                    atom_text(a)
        if not isinstance(case['script'], str) or (case['script'] and not case['script'].startswith('/')):
            return False
        case['script'].encode('utf-8')
        for f in ('query', 'anchor'):
            if not (case[f] is None or isinstance(case[f], str)):
                return False
        for k, v in case['kw']:
            k.encode('utf-8')
        render(case['intent']).encode('utf-8')
        return case['host'] in HOSTS
    except Exception:
        return False


def analysis(case):
    """everything the oracle needs, computed from the case alone (independent of the implementation and of Lean)"""
    intent = case['intent']
    kw = dict((k, v) for k, v in case['kw'])
    rest_name = intent[-1][1] if intent[-1][0] == 'rest' else None
    names = [t[1] for t in intent if t[0] != 'lit']
    a = {'names': names, 'rest': rest_name}
    # can every entry be quoted at all?
    quotable = True
    for k, v in case['kw']:
        if v[0] == 'one':
            if atom_text(v[1]) is None:
                quotable = False
        else:
            if k != rest_name or any(atom_text(x) is None for x in v[1]):
                quotable = False
    a['quotable'] = quotable
    a['missing'] = [n for n in names if n not in kw]
    a['custom'] = any(t[0] == 'ph' and t[2] is not None for t in intent)
    # the decoded text and the dictionary the values stand for
    intended, expect = '', {}
    texts = {}
    if quotable and not a['missing']:
        for t in intent:
            if t[0] == 'lit':
                intended += t[1]
            elif t[0] == 'ph':
                v = kw[t[1]]
                if v[0] != 'one':
                    intended = None
                    break
                texts[t[1]] = atom_text(v[1])
                intended += texts[t[1]]
                expect[t[1]] = ['s', texts[t[1]]]
            else:
                v = kw[t[1]]
                if v[0] == 'one':
                    texts[t[1]] = atom_text(v[1])
                    expect[t[1]] = ['t', norm_split(texts[t[1]])]
                else:
                    segs = [atom_text(x) for x in v[1]]
                    texts[t[1]] = '/'.join(segs)
                    expect[t[1]] = ['t', segs]
                intended += texts[t[1]]
    else:
        intended = None
    a['intended'] = intended
    a['expect'] = None if intended is None else sorted([k] + v for k, v in expect.items())
    # the property's domain
    adm = intended is not None and not a['custom']
    why = None
    if adm:
        for i, t in enumerate(intent):
            if t[0] == 'ph':
                v = texts[t[1]]
                if v == '':
                    adm, why = False, 'empty-value'
                    break
                if '/' in v:
                    adm, why = False, 'slash-in-value'
                    break
                if i + 1 == len(intent):
                    continue
                nxt = intent[i + 1]
                if nxt[0] != 'lit' or nxt[1] == '':
                    adm, why = False, 'no-separator'
                    break
                lit = nxt[1]
                if '/' in lit or i + 2 == len(intent):
                    continue
                after = intent[i + 2]
                if after[0] == 'lit':
                    adm, why = False, 'no-separator'
                    break
                if lit[0] in v or any(c in texts[after[1]] for c in lit):
                    adm, why = False, 'separator-in-value'
                    break
            elif t[0] == 'rest':
                v = kw[t[1]]
                if v[0] == 'many':
                    segs = [atom_text(x) for x in v[1]]
                    if any(s == '' for s in segs):
                        adm, why = False, 'empty-element'
                    elif any('/' in s for s in segs):
                        adm, why = False, 'slash-in-element'
                    elif any(s in ('.', '..') for s in segs):
                        adm, why = False, 'dot-element'
                    if not adm:
                        break
    elif intended is not None:
        why = 'custom-regex'
    a['admissible'] = adm
    a['why_not'] = why
    a['rest_ctl'] = bool(adm and rest_name is not None and any(ord(c) < 32 or ord(c) == 127 for c in texts.get(rest_name, '')))
    a['needs_quoting'] = bool(intended is not None and any(c not in UNRESERVED for n in names for c in texts.get(n, '')))
    return a


# ------------------------------------------------------------------------------------------------ the implementation

def err_name(e):
    if isinstance(e, KeyError):
        return 'keyerror'
    if isinstance(e, UnicodeDecodeError):
        return 'unicodedecode'
    if isinstance(e, (ValueError, TypeError)):
        return 'format:' + type(e).__name__
    return 'raised:' + type(e).__name__


def closure_var(fn, name):
    """OPTIONAL structural read: the closure's `%`-template, when the generator happens to be a closure with a free
    variable of that name holding a str.  Any other shape of the source gives None (the comparison is then skipped
    and counted in the evidence) — never an error, never an alarm."""
    try:
        v = fn.__closure__[fn.__code__.co_freevars.index(name)].cell_contents
        return v if isinstance(v, str) else None
    except Exception:
        return None


def canon_match(d):
    out = []
    for k, v in d.items():
        if isinstance(v, tuple):
            out.append([k, 't', list(v)])
        else:
            out.append([k, 's', v])
    return sorted(out)


_APPS = {}


def get_app(pattern, fresh=False):
    ent = None if fresh else _APPS.get(pattern)
    if ent is None:
        from pyramid.config import Configurator
        from pyramid.response import Response
        from pyramid.interfaces import IRoutesMapper
        seen = {}

        def rec(context, request):
            mr = getattr(request, 'matched_route', None)
            seen['v'] = {'route': None if mr is None else mr.name,
                         'match': None if mr is None else canon_match(request.matchdict),
                         'path_info': request.path_info}
            return Response('ok')
        try:
            config = Configurator()
            config.add_route('r', pattern)
            config.add_view(rec, route_name='r')
            config.add_view(rec)
            config.add_notfound_view(rec)
            app = config.make_wsgi_app()
            route = config.registry.getUtility(IRoutesMapper).get_route('r')
            ent = (config.registry, app, seen, route)
        except Exception as e:
            ent = ('config_error', type(e).__name__ + ':' + str(getattr(e, 'evalue', e))[:80])
        if fresh:
            return ent
        if len(_APPS) > 4000:
            _APPS.clear()
        _APPS[pattern] = ent
    return ent


def base_environ(case):
    host = case['host']
    port = host.split(':', 1)[1] if ':' in host else '80'
    return {'REQUEST_METHOD': 'GET', 'SCRIPT_NAME': case['script'].encode('utf-8').decode('latin-1'),
            'SERVER_NAME': host.split(':', 1)[0], 'SERVER_PORT': port, 'SERVER_PROTOCOL': 'HTTP/1.0',
            'wsgi.url_scheme': 'http', 'wsgi.version': (1, 0), 'wsgi.input': sys.stdin, 'wsgi.errors': sys.stderr,
            'wsgi.multithread': False, 'wsgi.multiprocess': False, 'wsgi.run_once': False,
            'HTTP_HOST': host, 'QUERY_STRING': '', 'PATH_INFO': '/'}


def call(fn, *a, **k):
    try:
        return {'ok': fn(*a, **k)}
    except Exception as e:
        return {'err': err_name(e)}


def clear_process_state(all_modules):
    """empty every memo the URL code keeps in the process — found generically (anything with cache_clear/cache_info,
    any module-level dict whose name ends in `_cache`), no name is assumed"""
    import pyramid.url, pyramid.traversal, pyramid.urldispatch
    for mod in ((pyramid.url, pyramid.traversal, pyramid.urldispatch) if all_modules else (pyramid.url,)):
        for name, obj in list(vars(mod).items()):
            if callable(obj) and hasattr(obj, 'cache_clear') and hasattr(obj, 'cache_info'):
                obj.cache_clear()
            elif all_modules and isinstance(obj, dict) and name.endswith('_cache'):
                obj.clear()


def impl(case, isolated=False):
    """isolated (or a case with an explicit history): a fresh application and empty process-wide memos, then the
    case's own history, then the call — the case is self-contained and replays alone.  Otherwise the application is
    shared by all cases with the pattern and only the element cache is emptied (cross-case history is exercised)."""
    from pyramid.request import Request
    pattern = render(case['intent'])
    fresh = isolated or bool(case.get('kw_history'))
    isolated = fresh or bool(case.get('history'))
    ent = get_app(pattern, fresh=fresh)
    if ent[0] == 'config_error':
        return {'config_error': ent[1]}
    registry, app, seen, route = ent
    kw = {k: val_py(v) for k, v in case['kw']}
    elems = [atom_py(a) for a in case['elems']]
    env = base_environ(case)
    special = {}
    if case['query'] is not None:
        special['_query'] = case['query']
    if case['anchor'] is not None:
        special['_anchor'] = case['anchor']
    out = {'template': closure_var(route.generate, 'gen')}
    clear_process_state(isolated)
    for hk in case.get('kw_history', []):
        hreq = Request(dict(env))
        hreq.registry = registry
        call(hreq.route_path, 'r', **{k: val_py(v) for k, v in hk})
    if case.get('history'):
        hreq = Request(dict(env))
        hreq.registry = registry
        for h in case['history']:
            call(hreq.route_path, 'r', *[atom_py(a) for a in h], **dict(kw))
    out['gen'] = call(route.generate, dict(kw))
    rh = case.get('req_history')
    if rh:
        # ONE request object with a past: earlier URL calls, then SCRIPT_NAME / PATH_INFO move
        env0 = dict(env)
        env0['SCRIPT_NAME'] = rh['start_script'].encode('utf-8').decode('latin-1')
        env0['PATH_INFO'] = rh['start_path_info'].encode('utf-8').decode('latin-1')
        req = Request(env0)
        req.registry = registry
        for st in rh['steps']:
            if st[0] == 'path':
                call(req.route_path, 'r', **dict(kw))
            elif st[0] == 'url':
                call(req.route_url, 'r', **dict(kw))
            elif st[0] == 'assign':
                req.script_name = st[1]
            elif st[0] == 'pop':
                req.path_info_pop()
            else:
                req.path_info_peek()
        out['req_script'] = call(lambda: req.script_name)
        fresh = Request(dict(req.environ))
        fresh.registry = registry
        out['fresh_path'] = call(fresh.route_path, 'r', *elems, **dict(kw, **special))
        out['fresh_url'] = call(fresh.route_url, 'r', *elems, **dict(kw, **special))
    else:
        req = Request(dict(env))
        req.registry = registry
    out['path'] = call(req.route_path, 'r', *elems, **dict(kw, **special))
    out['url'] = call(req.route_url, 'r', *elems, **dict(kw, **special))
    out['path0'] = call(req.route_path, 'r', **dict(kw))
    out['host_url'] = req.host_url
    out['pathinfo'] = None
    out['seen'] = None
    if 'ok' in out['path'] and isinstance(out['path']['ok'], str):
        target = out['path']['ok']
        rawpath = re.split('[?#]', target, maxsplit=1)[0]
        out['rawpath'] = rawpath
        try:
            full = unquote_to_bytes(rawpath.encode('ascii'))
        except UnicodeEncodeError:
            full = None
        script_b = case['script'].encode('utf-8')
        if full is not None and full.startswith(script_b):
            pi = full[len(script_b):]
            out['pathinfo'] = list(pi)
            environ = dict(env)
            environ['PATH_INFO'] = pi.decode('latin-1')
            if '?' in target.split('#', 1)[0]:
                environ['QUERY_STRING'] = target.split('#', 1)[0].split('?', 1)[1]
            seen.clear()
            try:
                body = app(environ, lambda status, headers, exc_info=None: None)
                list(body)
                out['seen'] = seen.get('v', {'err': 'no-view-ran'})
            except Exception as e:
                out['seen'] = {'err': err_name(e)}
    return out


# ------------------------------------------------------------------------------------------------ the model

def codes(s):
    return [ord(c) for c in s]


def txt(cs):
    return None if cs is None else ''.join(chr(c) for c in cs)


def wire_atom(a):
    k, v = a
    if k == 's':
        return ['s', codes(v)]
    if k == 'b':
        return ['b', list(v)]
    if k == 'i':
        return ['i', str(int(v))]
    return ['o', codes(v)]


def case_ucd(case):
    chars = set()
    for t in case['intent']:
        chars.update(t[1])
    for k, v in case['kw']:
        chars.update(k)
        for a in ([v[1]] if v[0] == 'one' else v[1]):
            t = atom_text(a)
            if t:
                chars.update(t)
    chars = sorted(c for c in chars if ord(c) >= 128)
    return {'word': [ord(c) for c in chars if re.fullmatch(r'\w', c)],
            'digit': [ord(c) for c in chars if re.fullmatch(r'\d', c)],
            'space': [ord(c) for c in chars if re.fullmatch(r'\s', c)]}


def model_line(case, origin):
    rxs = sorted({t[2] for t in case['intent'] if t[0] == 'ph' and t[2] is not None})
    return {'ucd': case_ucd(case), 'rxlib': [RXLIB[r] for r in rxs], 'pattern': codes(render(case['intent'])),
            'kw': [[codes(k), ['one', wire_atom(v[1])] if v[0] == 'one' else ['many', [wire_atom(a) for a in v[1]]]]
                   for k, v in case['kw']],
            'elems': [wire_atom(a) for a in case['elems']], 'script': codes(case['script']), 'origin': codes(origin),
            'query': None if case['query'] is None else codes(case['query']),
            'anchor': None if case['anchor'] is None else codes(case['anchor']),
            'history': [[wire_atom(a) for a in h] for h in case.get('history', [])]}


def origin_of(case):
    host = case['host']
    if host.endswith(':80'):
        host = host[:-3]
    return 'http://' + host


def dec_res(r):
    if r is None:
        return None
    if 'ok' in r:
        return {'ok': txt(r['ok'])}
    return {'err': r['err']}


def dec_env(e):
    if e is None:
        return None
    out = []
    for ent in e:
        if ent[1] == 's':
            out.append([txt(ent[0]), 's', txt(ent[2])])
        else:
            out.append([txt(ent[0]), 't', [txt(x) for x in ent[2]]])
    return sorted(out)


def decode_model(o):
    if o is None or 'error' in o:
        return o
    if o.get('compile') != 'ok':
        return {'compile': o.get('compile')}
    return {'compile': 'ok', 'template': txt(o['template']), 'gen': dec_res(o['gen']), 'closed': dec_res(o['closed']),
            'path': dec_res(o['path']), 'url': dec_res(o['url']), 'path_nocache': dec_res(o['path_nocache']), 'pathinfo': o['pathinfo'], 'decoded': txt(o['decoded']),
            'match': dec_env(o['match']), 'expect': dec_env(o['expect']), 'intended': txt(o['intended']),
            'admissible': o['admissible']}


def norm_err(r):
    """implementation result with the error reduced to the model's enum"""
    if r is None or 'ok' in r:
        return r
    e = r['err']
    return {'err': 'format' if e.startswith('format:') else e}


def compare(case, got, mo, an):
    """correspondence: list of (stage, impl, model) that differ"""
    diffs = []
    if mo is None:
        return diffs
    if 'error' in mo:
        return [('driver', None, mo)]
    if 'config_error' in got:
        if mo.get('compile') == 'ok':
            diffs.append(('compile', got['config_error'], 'ok'))
        return diffs
    if mo.get('compile') != 'ok':
        return [('compile', 'ok', mo.get('compile'))]
    outside = any(v[0] == 'many' and k != an['rest'] for k, v in case['kw'])
    if got['template'] is not None and got['template'] != mo['template']:
        diffs.append(('template', got['template'], mo['template']))
    if mo['path'] != mo['path_nocache']:
        diffs.append(('cache-transparent', mo['path'], mo['path_nocache']))
    if mo['gen'] != mo['closed']:
        diffs.append(('closed-form', mo['gen'], mo['closed']))
    if outside:
        return diffs                           # `str(list)` for a non-remainder key: not modelled
    for stage in ('gen', 'path', 'url'):
        if norm_err(got[stage]) != mo[stage]:
            diffs.append((stage, got[stage], mo[stage]))
    if diffs:
        return diffs
    if got['pathinfo'] != mo['pathinfo']:
        diffs.append(('pathinfo', got['pathinfo'], mo['pathinfo']))
        return diffs
    if got['pathinfo'] is not None:
        seen = got['seen']
        if 'err' in seen:
            diffs.append(('router', seen, mo['decoded']))
        else:
            if (seen['path_info'] or '/') != mo['decoded']:
                diffs.append(('decoded', seen['path_info'], mo['decoded']))
            if seen['match'] != mo['match']:
                diffs.append(('match', seen['match'], mo['match']))
    # the declarative side of the model against the oracle's own reading of the case
    if mo['admissible'] != an['admissible']:
        diffs.append(('admissible', an['admissible'], mo['admissible']))
    if an['intended'] is not None and (mo['intended'] != an['intended'] or mo['expect'] != an['expect']):
        diffs.append(('expect', [an['intended'], an['expect']], [mo['intended'], mo['expect']]))
    if mo['admissible'] and not case['elems'] and mo['match'] != mo['expect']:
        diffs.append(('model-roundtrip', mo['match'], mo['expect']))
    return diffs


# ------------------------------------------------------------------------------------------------ the property, on the implementation

def oracle(case, got, an):
    """list of (clause, detail) the implementation violates; states the property, nothing about the model"""
    bad = []
    if 'config_error' in got:
        return bad
    path, url, path0 = got['path'], got['url'], got['path0']
    if case.get('req_history'):
        # the request object's past does not matter: a fresh request with the same environ answers the same
        if got.get('req_script') != {'ok': case['script']}:
            return [('harness-req-history', [got.get('req_script'), case['script']])]
        if path != got['fresh_path'] or url != got['fresh_url']:
            bad.append(('same-as-fresh-request', [path, got['fresh_path'], url, got['fresh_url']]))
    # route URL = scheme://authority + route path (same failure otherwise)
    if 'ok' in path and 'ok' in url:
        if url['ok'] != got['host_url'] + path['ok']:
            bad.append(('url-is-prefix-plus-path', [url['ok'], got['host_url'], path['ok']]))
    elif path != url:
        bad.append(('url-is-prefix-plus-path', [url, path]))
    if not an['quotable']:
        return bad                              # undecodable bytes / sequence for a {name}: outside the statement
    # a missing value raises KeyError, and nothing else does
    if an['missing']:
        if path != {'err': 'keyerror'}:
            bad.append(('missing-value-keyerror', path))
        return bad
    if any(atom_text(a) is None for a in case['elems']):
        return bad
    if 'ok' not in path or not isinstance(path['ok'], str):
        bad.append(('generation-fails', path))
        return bad
    rawpath = got['rawpath']
    # pure ASCII, percent-encoded
    ok_chars = bool(PATH_RE.fullmatch(rawpath))
    if not ok_chars:
        bad.append(('ascii-percent-encoded', rawpath))
        return bad
    # extra elements are appended as individually quoted segments
    if case['elems']:
        if 'ok' not in path0:
            bad.append(('elements-appended', path0))
        else:
            p0 = path0['ok']
            if not rawpath.startswith(p0):
                bad.append(('elements-appended', [p0, rawpath]))
            else:
                tail = rawpath[len(p0):]
                if not p0.endswith('/'):
                    if not tail.startswith('/'):
                        bad.append(('elements-appended', [p0, rawpath]))
                    tail = tail[1:]
                segs = tail.split('/')
                want = [atom_text(a) for a in case['elems']]
                try:
                    dec = [unquote_to_bytes(s.encode('ascii')).decode('utf-8') for s in segs]
                except Exception:
                    dec = None
                if dec != want:
                    bad.append(('elements-appended', [segs, want]))
    if an['intended'] is None:
        return bad
    if 'ok' not in path0:
        bad.append(('generation-fails', path0))
        return bad
    # keeps the pattern's literal text: the route part decodes to literals + values
    qscript_len = None
    p0 = path0['ok']
    script_b = case['script'].encode('utf-8')
    try:
        full0 = unquote_to_bytes(p0.encode('ascii'))
        dec0 = full0[len(script_b):].decode('utf-8') if full0.startswith(script_b) else None
    except Exception:
        dec0 = None
    if dec0 != an['intended']:
        bad.append(('keeps-literal-text', [p0, dec0, an['intended']]))
        return bad
    if not an['admissible']:
        return bad
    # a '/'-joined remainder stays '/'-joined; a value never adds a separator: segment by segment
    whole = (case['script'] + an['intended']).split('/')
    try:
        segdec = [unquote_to_bytes(s.encode('ascii')).decode('utf-8') for s in p0.split('/')]
    except Exception:
        segdec = None
    if segdec != whole:
        bad.append(('segments-kept', [p0, segdec, whole]))
    # the round trip
    if case['elems']:
        return bad                              # with extra elements the path is no longer the route's path
    seen = got['seen']
    if seen is None or 'err' in seen:
        bad.append(('roundtrip', seen))
    elif seen['route'] != 'r' or seen['match'] != an['expect']:
        bad.append(('roundtrip', [seen['route'], seen['match'], an['expect']]))
    return bad


def classify(case, an, bad):
    """known findings: none is recorded for C06 any more (F-C06a repaired by fc43a19, F-C06b by 9c714c3)"""
    return None


EXPECT_FAIL = {'empty-value': 'roundtrip', 'dot-element': 'roundtrip', 'slash-in-element': 'roundtrip',
               'empty-element': 'roundtrip'}


def excluded_point_check(case, got, an):
    """a corpus case marked `expect_fail` is an excluded point of the domain: the round trip must indeed fail there"""
    seen = got.get('seen')
    if an['admissible']:
        return 'excluded point is admissible'
    if an['expect'] is None or seen is None or 'err' in seen:
        return 'excluded point did not reach the router'
    if seen['route'] == 'r' and seen['match'] == an['expect']:
        return 'the round trip succeeds at an excluded point'
    return None


# ------------------------------------------------------------------------------------------------ generator

LIT_PLAIN = 'abcxyzABZ019-._~'
LIT_META = '.^$+?()[]|\\'
LIT_URL = ' %?#;+&=:@!$\',"<>`'
LIT_NONASCII = ['é', 'ß', '日', '😀', 'я', '́']
SEPS = ['/', '/', '/', '/', '-', '.', '_', '--', ':', ',', '/x/', '.html', '/edit/', ' ', '%', 'é', '+', '/-', '-/', '@',
        '=', '~', '|', '$', '^', ';', '#', '?', '-.-', 'ab']
VAL_SPECIAL = list('%?#;+ &=:@!$\'()*,[]<>|^`~.-_"\\')


def gen_lit_text(rng, maxlen=4, slash=True):
    n = rng.randint(0, maxlen)
    out = []
    for _ in range(n):
        r = rng.random()
        if r < 0.5:
            out.append(rng.choice(LIT_PLAIN))
        elif r < 0.62:
            out.append(rng.choice(LIT_META))
        elif r < 0.78:
            out.append(rng.choice(LIT_URL))
        elif r < 0.86:
            out.append(rng.choice(LIT_NONASCII))
        elif r < 0.99:
            out.append('/' if slash else 'q')
        else:
            out.append('\n')
    return ''.join(out)


def gen_intent(rng):
    nph = rng.choice([0, 1, 1, 1, 2, 2, 2, 3, 4])
    names = rng.sample(NAMES, nph + 1)
    first = '/' + gen_lit_text(rng, 5)
    if rng.random() < 0.5 and not first.endswith('/') and nph:
        first += '/'
    toks = [['lit', first]]
    for i in range(nph):
        rx = None if rng.random() < 0.92 else rng.choice(sorted(RXLIB))
        toks.append(['ph', names[i], rx])
        last = i == nph - 1
        r = rng.random()
        if last and r < 0.4:
            continue
        if not last and r < 0.04:
            continue                            # adjacent placeholders: outside the domain
        sep = rng.choice(SEPS)
        if rng.random() < 0.25:
            sep = sep + gen_lit_text(rng, 3)
        if rng.random() < 0.15:
            sep = gen_lit_text(rng, 2, slash=False) + sep
        toks.append(['lit', sep])
    if rng.random() < 0.3:
        if toks[-1][0] == 'lit' and not toks[-1][1].endswith('/') and rng.random() < 0.8:
            toks[-1][1] += '/'
        elif toks[-1][0] == 'ph' and rng.random() < 0.85:
            toks.append(['lit', '/'])
        toks.append(['rest', names[nph]])
    return toks


def gen_text(rng, maxlen=6, forbid='', allow_empty=False, p_lf=0.02):
    t = vfutil.rand_text(rng, maxlen=maxlen, allow_empty=allow_empty, p_special=0.35, p_nonascii=0.25,
                         p_control=p_lf, forbid=forbid)
    return t


CTL = ['\n', '\n', '\n', '\r', '\r\n', '\t', '\x00', '\x0b', '\x0c', '\x1f', '\x7f', '\x85', '\u2028']


def with_ctl(rng, text):
    k = rng.randint(0, len(text))
    return text[:k] + rng.choice(CTL) + text[k:]


def gen_atom(rng, text, p_other=0.2):
    if rng.random() < 0.04:
        return rng.choice(rng.choice(EQUAL_CLASSES))      # 1 / True / 1.0, 0 / False / 0.0
    r = rng.random()
    if r < 1 - p_other - 0.15:
        return ['s', text]
    if r < 1 - p_other:
        return ['b', list(text.encode('utf-8'))]
    r2 = rng.random()
    if r2 < 0.7:
        return ['i', str(rng.choice([0, 1, 7, 42, -3, 2024, 10 ** 12, rng.randint(-999, 99999)]))]
    return ['o', rng.choice(sorted(OTHER))]


BAD_BYTES = [[0xff], [0xc3], [0x61, 0x80], [0xed, 0xa0, 0x80], [0xc0, 0xaf]]


def gen_kw(rng, intent, pool):
    kw = []
    wild = rng.random() < 0.22
    for i, t in enumerate(intent):
        if t[0] == 'lit':
            continue
        if rng.random() < 0.04:
            continue                            # missing value
        if t[0] == 'ph':
            forbid = ''
            if not wild:
                forbid = '/'
                if i + 1 < len(intent) and intent[i + 1][0] == 'lit':
                    forbid += intent[i + 1][1]
                if i >= 1 and intent[i - 1][0] == 'lit' and i >= 2 and '/' not in intent[i - 1][1]:
                    forbid += intent[i - 1][1]
            text = gen_text(rng, forbid=forbid, allow_empty=wild and rng.random() < 0.3)
            if wild and rng.random() < 0.3:
                text = rng.choice(['', 'a/b', '/', '.', '..', text + '/'])
            if pool and rng.random() < 0.15 and not any(c in forbid for c in pool[-1]) and pool[-1]:
                text = pool[-1]
            r = rng.random()
            if r < 0.015:
                kw.append([t[1], ['one', ['b', rng.choice(BAD_BYTES)]]])
            elif r < 0.025:
                kw.append([t[1], ['many', [['s', text]]]])
            else:
                kw.append([t[1], ['one', gen_atom(rng, text)]])
            pool.append(text)
        else:
            forbid = ''
            if not wild and i >= 2 and intent[i - 1][0] == 'lit' and '/' not in intent[i - 1][1]:
                forbid = intent[i - 1][1]
            ctl = rng.random() < 0.3          # line feed / CR / other control characters in the remainder, often
            r = rng.random()
            if r < 0.4:
                segs = [gen_text(rng, 4, forbid=forbid + '/') for _ in range(rng.choice([0, 1, 2, 2, 3]))]
                if ctl:
                    segs.insert(rng.randint(0, len(segs)), with_ctl(rng, gen_text(rng, 3, forbid=forbid + '/', allow_empty=True)))
                deco = rng.random()
                if deco < 0.3:
                    segs.insert(rng.randint(0, len(segs)), rng.choice(['', '.', '..']))
                text = '/'.join(segs)
                if rng.random() < 0.2:
                    text = '/' + text
                if rng.random() < 0.15:
                    text += '/'
                kw.append([t[1], ['one', gen_atom(rng, text, p_other=0.05)]])
                pool.append(text)
            else:
                n = rng.choice([0, 1, 1, 2, 2, 3, 4])
                atoms = []
                for _ in range(n):
                    s = gen_text(rng, 4, forbid=forbid + '/')
                    if wild and rng.random() < 0.4:
                        s = rng.choice(['', '.', '..', 'a/b', '/', s + '/x'])
                    if s in ('.', '..') and not wild:
                        s = 'd'
                    if ctl and rng.random() < 0.6:
                        s = with_ctl(rng, s)
                    atoms.append(gen_atom(rng, s))
                    pool.append(s)
                if rng.random() < 0.01 and atoms:
                    atoms[rng.randrange(len(atoms))] = ['b', rng.choice(BAD_BYTES)]
                kw.append([t[1], ['many', atoms]])
    used = {k for k, _ in kw} | {t[1] for t in intent if t[0] != 'lit'}
    if rng.random() < 0.1:
        extra = [n for n in NAMES + ['zz', 'other'] if n not in used]
        k = rng.choice(extra)
        r = rng.random()
        if r < 0.15:
            kw.append([k, ['one', ['b', rng.choice(BAD_BYTES)]]])
        elif r < 0.25:
            kw.append([k, ['many', [['s', 'q']]]])
        else:
            kw.append([k, ['one', gen_atom(rng, gen_text(rng, allow_empty=True))]])
    if rng.random() < 0.3:
        rng.shuffle(kw)
    return kw


EQUAL_CLASSES = [[['i', '1'], ['o', 'True'], ['o', '1.0']], [['i', '0'], ['o', 'False'], ['o', '0.0']]]
SCRIPTS = ['', '', '', '', '/app', '/scr ipt', '/é', '/a/b', '/x%41', '/q?#', '/日本']
HOSTS = ['example.com', 'example.com:8080', 'localhost:80', 'h.example.org:443']
QUERIES = [None, None, None, 'a=1&b=2', 'x y?#/é', '?']
ANCHORS = [None, None, None, 'frag', 'a#b?c', 'é /']


def gen_case(rng, intent=None):
    for _ in range(50):
        it = intent if intent is not None else gen_intent(rng)
        if faithful(it):
            break
        intent = None
    else:
        it = [['lit', '/'], ['ph', 'a', None]]
    pool = []
    kw = gen_kw(rng, it, pool)
    ne = rng.choice([0, 0, 0, 0, 0, 1, 1, 2, 3])
    elems = []
    for _ in range(ne):
        if pool and rng.random() < 0.4:
            text = rng.choice(pool)              # the same text in another role (and another `safe`): the segment cache
        else:
            text = gen_text(rng, allow_empty=rng.random() < 0.1)
            if rng.random() < 0.2:
                text = rng.choice(['a/b', '/', 'x/', text + '/' + text])
        r = rng.random()
        if r < 0.12:
            a = rng.choice(EQUAL_CLASSES)[rng.randrange(3)]     # 1 / True / 1.0, 0 / False / 0.0
        else:
            a = gen_atom(rng, text, p_other=0.1)
        elems.append(a)
    history = []
    if elems and rng.random() < 0.3:
        # earlier calls whose elements compare equal (==, hash) to this call's but print differently, plus noise
        for _ in range(rng.choice([1, 1, 2, 3])):
            h = []
            for a in elems:
                cls = [c for c in EQUAL_CLASSES if a in c]
                if cls and rng.random() < 0.85:
                    h.append(rng.choice(cls[0]))
                elif a[0] == 's' and rng.random() < 0.3:
                    h.append(['b', list(a[1].encode('utf-8'))])
                else:
                    h.append(a)
            if rng.random() < 0.15:
                h = h[:-1]
            history.append(h)
    case = {'intent': it, 'kw': kw, 'elems': elems, 'script': rng.choice(SCRIPTS), 'host': rng.choice(HOSTS),
            'query': rng.choice(QUERIES), 'anchor': rng.choice(ANCHORS)}
    if history:
        case['history'] = history
    if rng.random() < 0.12:
        case['req_history'] = gen_req_history(rng, case)
    if rng.random() < 0.12:
        kh = gen_kw_history(rng, it, kw)
        if kh:
            case['kw_history'] = kh
    return case


def gen_req_history(rng, case):
    """the case's request object gets a past; the steps end with SCRIPT_NAME = case['script']"""
    final = case['script']
    calls = [rng.choice([['path'], ['url']]) for _ in range(rng.choice([1, 1, 2]))]
    r = rng.random()
    parts = final.rsplit('/', 1)
    if r < 0.4 and final and parts[1] != '':
        # a dispatcher hands a sub-mount over: the last segment of SCRIPT_NAME is still in PATH_INFO
        rh = {'start_script': parts[0], 'start_path_info': '/' + parts[1] + rng.choice(['', '/', '/x/y']),
              'steps': calls + [['pop']]}
    elif r < 0.85:
        start = rng.choice([x for x in SCRIPTS + ['/old', '/a%20b'] if x != final] or [''])
        rh = {'start_script': start, 'start_path_info': rng.choice(['', '/', '/p/q']), 'steps': calls + [['assign', final]]}
    else:
        rh = {'start_script': final, 'start_path_info': rng.choice(['/', '/p/q']), 'steps': calls + [['peek']]}
    if rng.random() < 0.3:
        rh['steps'].append(rng.choice([['path'], ['url'], ['peek']]))
    return rh


def equal_variant(rng, a):
    """an atom that compares equal (==, hash) to `a`, or stands for the same text, but is another object"""
    cls = [c for c in EQUAL_CLASSES if a in c]
    if cls:
        return rng.choice([x for x in cls[0] if x != a])
    if a[0] == 's':
        return ['b', list(a[1].encode('utf-8'))]
    if a[0] == 'b':
        t = atom_text(a)
        return ['s', t] if t is not None else a
    if a[0] == 'i':
        return ['s', str(int(a[1]))]
    return a


def gen_kw_history(rng, intent, kw):
    """earlier route_path calls on the same route object: the same keys with values that are equal-but-other-typed,
    and a complete dictionary when this call leaves a value out"""
    names = [t[1] for t in intent if t[0] != 'lit']
    rest = intent[-1][1] if intent[-1][0] == 'rest' else None
    have = dict((k, v) for k, v in kw)
    out = []
    for _ in range(rng.choice([1, 1, 2])):
        hk = []
        for n in names:
            v = have.get(n)
            if v is None:
                v = ['one', gen_atom(rng, gen_text(rng, forbid='/'))] if n != rest or rng.random() < 0.5 else \
                    ['many', [gen_atom(rng, gen_text(rng, 3, forbid='/'))]]
            elif rng.random() < 0.7:
                v = ['one', equal_variant(rng, v[1])] if v[0] == 'one' else ['many', [equal_variant(rng, a) for a in v[1]]]
            hk.append([n, v])
        out.append(hk)
    return out


def equal_elements_cases():
    """the repaired F-C06b: before 9c714c3 `_join_elements` was memoised on the tuple of elements themselves, and
    1 == True == 1.0 (0 == False == 0.0) as dictionary keys; every ordered pair of each class, alone and behind a str"""
    base = {'intent': [['lit', '/s']], 'kw': [], 'script': '', 'host': 'example.com', 'query': None, 'anchor': None}
    out = []
    for cls in EQUAL_CLASSES:
        for first in cls:
            for then in cls:
                out.append(dict(base, history=[[first]], elems=[then]))
                out.append(dict(base, history=[[['s', 'x'], first]], elems=[['s', 'x'], then]))
    out.append(dict(base, history=[[['s', 'a']], [['b', [97]]]], elems=[['s', 'a']]))
    return out


def cache_cross_cases(rng):
    """the same text quoted under the three `safe` sets in one process: literal, remainder string, element"""
    out = []
    for t in ['x/y', 'a:b', 'p@q/r', "it's/ok", 'a+b/c', 'u;v=w/']:
        out.append({'intent': [['lit', '/s/'], ['rest', 'rest']], 'kw': [['rest', ['one', ['s', t]]]], 'elems': [['s', t]],
                    'script': '', 'host': 'example.com', 'query': None, 'anchor': None})
        out.append({'intent': [['lit', '/' + t.strip('/') + '/'], ['ph', 'a', None]], 'kw': [['a', ['one', ['s', t.replace('/', '')]]]],
                    'elems': [['s', t.strip('/')]], 'script': '', 'host': 'example.com', 'query': None, 'anchor': None})
        out.append({'intent': [['lit', '/s/'], ['ph', 'a', None], ['lit', '/'], ['rest', 'rest']],
                    'kw': [['a', ['one', ['s', t.replace('/', '')]]], ['rest', ['many', [['s', t.replace('/', '')], ['s', 'z']]]]],
                    'elems': [['s', t]], 'script': '', 'host': 'example.com', 'query': None, 'anchor': None})
    rng.shuffle(out)
    return out


# ------------------------------------------------------------------------------------------------ running

def check_case(case, mo_raw):
    """-> (mismatch|None, violations[list], info dict)"""
    an = analysis(case)
    got = impl(case)
    mo = decode_model(mo_raw) if mo_raw is not None else None
    diffs = compare(case, got, mo, an)
    mism = None
    if diffs:
        mism = {'case': case, 'impl': {d[0]: d[1] for d in diffs}, 'model': {d[0]: d[2] for d in diffs}}
    bad = oracle(case, got, an)
    viols = []
    if case.get('expect_fail'):
        why = excluded_point_check(case, got, an)
        if why:
            mism = mism or {'case': case, 'impl': why, 'model': 'excluded point (decided in Props/C06.lean)'}
        bad = [b for b in bad if b[0] != 'roundtrip']
    f = classify(case, an, bad) if bad else None
    if bad:
        v = {'case': case, 'impl': {k: got.get(k) for k in ('gen', 'path', 'url', 'path0', 'pathinfo', 'seen')},
             'expected': {'intended': an['intended'], 'match': an['expect']},
             'detail': '; '.join('%s: %s' % (c, json.dumps(d, default=str)[:300]) for c, d in bad), 'clauses': [c for c, _ in bad]}
        if f:
            v['finding'] = f
        viols.append(v)
    return mism, viols, {'an': an, 'got': got, 'mo': mo}


def shrink_violation(v):
    clauses = set(v.get('clauses', []))
    finding = v.get('finding')

    def still(c):
        if not wf_case(c):
            return False
        an = analysis(c)
        got = impl(c, isolated=True)
        bad = oracle(c, got, an)
        if not bad or not (set(x[0] for x in bad) & clauses):
            return False
        return classify(c, an, bad) == finding
    try:
        small = vfutil.shrink(v['case'], still, max_steps=500)
    except Exception:
        return v
    if small != v['case']:
        an = analysis(small)
        got = impl(small, isolated=True)
        bad = oracle(small, got, an)
        v = dict(v, case=small, impl={k: got.get(k) for k in ('gen', 'path', 'url', 'path0', 'pathinfo', 'seen')},
                 expected={'intended': an['intended'], 'match': an['expect']},
                 detail='; '.join('%s: %s' % (c, json.dumps(d, default=str)[:300]) for c, d in bad))
    return v


def new_dist():
    return {'tokens': {}, 'placeholders_per_pattern': {}, 'rest': 0, 'custom_regex': 0, 'value_types': {}, 'rest_forms': {},
            'elements': {}, 'script': {}, 'outcomes': {}, 'admissible': 0, 'not_admissible': {}, 'roundtrips_performed': 0,
            'needs_quoting': 0, 'non_ascii_value': 0, 'reserved_in_value': 0, 'missing_value': 0, 'unquotable': 0,
            'outside_model': 0, 'config_error': 0, 'template_not_readable': 0, 'rest_with_control_char': 0, 'with_history': 0, 'with_kw_history': 0, 'with_req_history': {}, 'history_equal_other_type': 0, 'excluded_points_replayed': 0, 'query': 0, 'anchor': 0}


def note_dist(dist, case, info):
    an, got = info['an'], info['got']
    for t in case['intent']:
        bump(dist['tokens'], t[0])
    bump(dist['placeholders_per_pattern'], str(sum(1 for t in case['intent'] if t[0] == 'ph')))
    if an['rest'] is not None:
        dist['rest'] += 1
    if an['custom']:
        dist['custom_regex'] += 1
    for k, v in case['kw']:
        for a in ([v[1]] if v[0] == 'one' else v[1]):
            bump(dist['value_types'], {'s': 'str', 'b': 'bytes', 'i': 'int', 'o': 'other'}[a[0]])
            t = atom_text(a) or ''
            if any(ord(c) >= 128 for c in t):
                dist['non_ascii_value'] += 1
            if any(c in '%?#; +' for c in t):
                dist['reserved_in_value'] += 1
        if k == an['rest']:
            bump(dist['rest_forms'], 'string' if v[0] == 'one' else 'sequence')
    bump(dist['elements'], str(len(case['elems'])))
    if case.get('req_history'):
        bump(dist['with_req_history'], '+'.join(sorted({st[0] for st in case['req_history']['steps'] if st[0] in ('assign', 'pop', 'peek')})) or 'calls')
    if case.get('kw_history'):
        dist['with_kw_history'] += 1
    if case.get('history'):
        dist['with_history'] += 1
        try:
            if any(len(h) == len(case['elems']) and h != case['elems']
                   and tuple(atom_py(a) for a in h) == tuple(atom_py(a) for a in case['elems']) for h in case['history']):
                dist['history_equal_other_type'] += 1
        except Exception:
            pass
    bump(dist['script'], 'empty' if not case['script'] else 'set')
    if case['query'] is not None:
        dist['query'] += 1
    if case['anchor'] is not None:
        dist['anchor'] += 1
    if 'config_error' in got:
        dist['config_error'] += 1
        return
    if got.get('template') is None:
        dist['template_not_readable'] += 1
    bump(dist['outcomes'], 'path' if 'ok' in got['path'] else got['path']['err'])
    if an['admissible']:
        dist['admissible'] += 1
    elif an['why_not']:
        bump(dist['not_admissible'], an['why_not'])
    if an['missing']:
        dist['missing_value'] += 1
    if not an['quotable']:
        dist['unquotable'] += 1
    if any(v[0] == 'many' and k != an['rest'] for k, v in case['kw']):
        dist['outside_model'] += 1
    if got.get('seen') is not None:
        dist['roundtrips_performed'] += 1
    if an['needs_quoting']:
        dist['needs_quoting'] += 1
    if an.get('rest_ctl'):
        dist['rest_with_control_char'] += 1


def nontrivial(case, info):
    an, got = info['an'], info['got']
    return bool(an['admissible'] and got.get('seen') is not None and not case['elems'] and (an['needs_quoting'] or an['rest'] is not None))


def run_cases(ctx, cases, dist, seen, nontriv, use_model=True):
    cases = [c for c in cases if wf_case(c)]
    replies = [None] * len(cases)
    if use_model and ctx.driver_path:
        lines = [model_line(c, origin_of(c)) for c in cases]
        replies = ctx.run_model(lines)
    mism, viol, agree = [], [], 0
    for case, mo in zip(cases, replies):
        m, vs, info = check_case(case, mo)
        note_dist(dist, case, info)
        if case.get('expect_fail'):
            dist['excluded_points_replayed'] += 1
        if m:
            mism.append(m)
        elif mo is not None:
            agree += 1
        for v in vs:
            if v.get('finding'):
                bump(dist, 'known_' + v['finding'])
            viol.append(v)
        key = canon(case)
        if key not in seen:
            seen.add(key)
            if nontrivial(case, info):
                nontriv.add(key)
    return len(cases), agree, mism, viol


def reproduces_alone(v):
    """does the violation show when the case is run on its own (fresh application, empty memos, its own history)?"""
    try:
        c = v['case']
        an = analysis(c)
        bad = oracle(c, impl(c, isolated=True), an)
        return bool(bad) and bool(set(x[0] for x in bad) & set(v.get('clauses', [])))
    except Exception:
        return False


def finish_violations(viol):
    """prefer violations that reproduce on their own (a replay file must be a concrete failing input), shrink the
    first few, keep one per known finding"""
    unknown = [v for v in viol if not v.get('finding')]
    if unknown:
        alone = [v for v in unknown[:400] if reproduces_alone(v)]
        if alone:
            viol = [v for v in viol if v.get('finding')] + alone
    out, shrunk = [], 0
    kept_known = set()
    for v in viol:
        if v.get('finding'):
            if v['finding'] in kept_known:
                continue
            kept_known.add(v['finding'])
            out.append(v)
        else:
            if shrunk < 3:
                v = shrink_violation(v)
                shrunk += 1
            out.append(v)
    return out


def run(ctx):
    rng = ctx.rng
    dist = new_dist()
    seen, nontriv = set(), set()
    total = agree = 0
    mism, viol = [], []
    corpus = [c for _, c in ctx.corpus()]
    n, a, m, v = run_cases(ctx, corpus, dist, seen, nontriv)
    total += n; agree += a; mism += m; viol += v
    n, a, m, v = run_cases(ctx, cache_cross_cases(rng) + equal_elements_cases(), dist, seen, nontriv)
    total += n; agree += a; mism += m; viol += v
    npat = ctx.n(2000, 12000)
    per = ctx.n(8, 14)
    samples = []
    batch = []
    for i in range(npat):
        intent = None
        for _ in range(50):
            intent = gen_intent(rng)
            if faithful(intent):
                break
        for _ in range(per):
            batch.append(gen_case(rng, [list(t) for t in intent]))
        if len(batch) >= 4000 or i == npat - 1:
            if len(samples) < 8:
                samples += batch[:8 - len(samples)]
            n, a, m, v = run_cases(ctx, batch, dist, seen, nontriv)
            total += n; agree += a; mism += m; viol += v
            batch = []
            if ctx.time_left() < 120:
                ctx.notes.append('stopped early: time budget')
                break
    return {'evaluations': total, 'distinct_nontrivial': len(nontriv), 'rule': RULE, 'samples': samples, 'agreeing': agree,
            'mismatches': mism[:20], 'violations': finish_violations(viol), 'distribution': dist,
            'notes': ['stages compared per case: %-template (only when the closure exposes one: an optional structural read), route.generate, route_path, route_url, PATH_INFO bytes, '
                      'decoded path_info, matched route + matchdict; the model\'s Admissible / intended / expected are compared '
                      'with the oracle\'s own reading of the case'],
            'assumptions': ['the pattern text is read by the documented grammar as the intent tokens (faithful()); custom '
                            'placeholder regexes come from a fixed library of 5 and are outside the round-trip clause',
                            'the server derives PATH_INFO by cutting the target at ?/#, percent-decoding to bytes and taking '
                            'the SCRIPT_NAME bytes off the front (what waitress / wsgiref / a mounting middleware do)',
                            'scheme://authority is WebOb\'s host_url (C17 owns it)'],
            'trusted_base': ['Python str()/int formatting of non-str values; urllib.parse.unquote_to_bytes as the server\'s decoder; '
                             'WebOb Request.path_info / host_url; `%`-formatting of str (modelled for %% and %(name)s only)']}


# ------------------------------------------------------------------------------------------------ search (after a break only)

TROUBLE = ['%', '?', '#', ';', ' ', '+', '/', '&', '=', ':', '@', '\\', '"', "'", '<', '[', '|', '^', '`', '~', '.', '..', '-',
           'é', '日', '😀', '\n', '%41', '%2F', 'a b', 'x/y', '']
SEARCH_PATTERNS = [
    [['lit', '/'], ['ph', 'a', None]],
    [['lit', '/s/'], ['ph', 'a', None], ['lit', '/t']],
    [['lit', '/'], ['ph', 'a', None], ['lit', '-'], ['ph', 'b', None]],
    [['lit', '/'], ['ph', 'a', None], ['lit', '/'], ['ph', 'b', None], ['lit', '.html']],
    [['lit', '/s/'], ['rest', 'rest']],
    [['lit', '/'], ['ph', 'a', None], ['lit', '/'], ['rest', 'rest']],
    [['lit', '/a b/é%/'], ['ph', 'a', None]],
    [['lit', '/x.y+z/'], ['ph', 'a', None], ['lit', '/(q)/'], ['rest', 'rest']],
    [['lit', '/'], ['ph', 'a', None], ['lit', ':'], ['ph', 'b', None], ['lit', '/'], ['ph', 'c', None]],
]


def search_cases():
    for intent in SEARCH_PATTERNS:
        names = [t for t in intent if t[0] != 'lit']
        for t in TROUBLE:
            for kind in ('s', 'b', 'mix'):
                for script in ('', '/scr ipt'):
                    kw = []
                    for k, tok in enumerate(names):
                        base = 'v%d' % k
                        text = base + t + base if k % 2 == 0 else t + base
                        if tok[0] == 'ph':
                            atom = ['s', text] if kind == 's' else ['b', list(text.encode())]
                            kw.append([tok[1], ['one', atom]])
                        elif kind == 'mix':
                            kw.append([tok[1], ['many', [['s', text], ['i', '7'], ['b', list(text.encode())]]]])
                        else:
                            kw.append([tok[1], ['one', ['s', 'p/' + text + '/q']]])
                    for elems in ([], [['s', t], ['s', 'e/f']]):
                        yield {'intent': intent, 'kw': kw, 'elems': elems, 'script': script, 'host': 'example.com',
                               'query': 'a=' + t if t else None, 'anchor': t or None}


def search(ctx):
    dist = new_dist()
    seen, nontriv = set(), set()
    viol = []
    total = 0
    corpus = [c for _, c in ctx.corpus()]
    exh = list(search_cases())
    for chunk in (corpus, cache_cross_cases(ctx.rng), exh):
        n, _, _, v = run_cases(ctx, chunk, dist, seen, nontriv, use_model=False)
        total += n
        viol += [x for x in v if not x.get('finding')]
    rng = ctx.rng
    budget = ctx.n(20000, 120000)
    done = 0
    while done < budget and ctx.time_left() > 60 and len(viol) < 20:
        batch = []
        for _ in range(250):
            intent = gen_intent(rng)
            batch += [gen_case(rng, [list(t) for t in intent]) for _ in range(8)]
        n, _, _, v = run_cases(ctx, batch, dist, seen, nontriv, use_model=False)
        total += n
        done += n
        viol += [x for x in v if not x.get('finding')]
    return {'violations': finish_violations(viol), 'searched': total,
            'exhaustive': '%d cases: 9 patterns x 32 troublesome texts x str/bytes/sequence x 2 SCRIPT_NAMEs x with/without elements' % len(exh)}


def replay(ctx, rep):
    case = rep['case'] if 'case' in rep and 'intent' not in rep else rep
    if not wf_case(case):
        return {'error': 'not a well-formed C06 case', 'violates': False}
    mo = None
    if ctx.driver_path:
        mo = ctx.run_model([model_line(case, origin_of(case))])[0]
    m, vs, info = check_case(case, mo)
    unknown = [v for v in vs if not v.get('finding')]
    return {'case': case, 'pattern': render(case['intent']), 'impl': {k: info['got'].get(k) for k in ('template', 'gen', 'path', 'url', 'pathinfo', 'seen', 'config_error')},
            'model': info['mo'], 'spec': {'admissible': info['an']['admissible'], 'why_not': info['an']['why_not'],
                                          'intended': info['an']['intended'], 'expected_match': info['an']['expect']},
            'correspondence_mismatch': m, 'violated_clauses': [v['detail'] for v in vs],
            'known_finding': [v.get('finding') for v in vs if v.get('finding')], 'violates': bool(unknown)}
