"""C17 — generated URLs are well-formed and decode back to the supplied parts.

Correspondence of lean/PyramidModel/Url.lean (+ PctCode.lean) with the real URL helpers, called on a real
`pyramid.request.Request` bound to a real registry built by a `Configurator` (routes, static views): route_url,
route_path, resource_url, resource_path, static_url, static_path, current_route_url, current_route_path; with
`pyramid.encode.url_quote / quote_plus / urlencode` alone; and of the model's copy of the standard parser with
`urllib.parse.urlsplit / parse_qsl / unquote` on arbitrary text.  Plus the property itself, evaluated on the
implementation's output by a Python oracle that uses only `urllib.parse` and the case (no Lean).

Case shapes (JSON)
  {"op":"url","helper":H,"env":{scheme,host|null,server_name,server_port,script_name,xfwd|null},
   "routes":[{"name":n,"pieces":[["l",text]|["p",name(,regex)]|["s",name]]}],"statics":[{"name":n,"spec":s}],
   "route":n,"elements":[…],"kw":[[k,str|int|[str…]]],
   "ovr":{"app_url","scheme","host","port","query":Q,"anchor"}  (keys absent/None = not passed),
   "resource":[names],"res_route":null|{"route","rem","kw"},
   "cur":null|{"matched","matchdict","get","route_name"},"path":asset spec}
  Q = null | {"t":"null"} | {"t":"str","v":s} | {"t":"pairs","form":"dict|list|tuples|multidict|itemsobj","seq":"list|tuple|gen","v":[[k,V]]}
  V = null | str | int | [leaf…]   leaf = str | int | [..] (a nested sequence is rendered by str())
  leaf values (elements, route values, query keys/values/sequence members, anchor): str | int | true/false | null (None) |
     {"f":text} float(text) | {"d":text} Decimal(text) | {"b":text} bytes (UTF-8) | {"bx":hex} raw bytes | {"o":text} object with __str__
  {"op":"history","calls":[url case…]}   the calls in this order after one cache reset, and each on its own
  {"op":"quote"|"quote_plus","s":text,"safe":ascii}   {"op":"urlencode","pairs":[[k,V]]}
  {"op":"urlsplit"|"parse_qsl"|"unquote"|"unquote_plus","s":text}
"""
import itertools, json, re, sys
from decimal import Decimal
from urllib.parse import urlsplit, parse_qsl, unquote, urlencode as std_urlencode

import vfutil
from vfutil import bump

from pyramid.config import Configurator
from pyramid.request import Request
from pyramid.interfaces import IRoutesMapper, IStaticURLInfo
from pyramid import encode as P_encode
from pyramid import url as P_url
from pyramid import traversal as P_trav

RULE = ('a history is non-trivial when it has at least two calls; a helper case is non-trivial when some supplied element / query key or value / anchor / route value / '
        'SCRIPT_NAME holds a character that must be percent-encoded (outside ALPHA DIGIT -._~), or an override '
        '(_app_url/_scheme/_host/_port) is present; an encoder/parser case when its text holds "%", "+", a reserved '
        'or a non-ASCII character; distinct = distinct canonical case JSON')

URL_HELPERS = ('route_url', 'resource_url', 'static_url', 'current_route_url')
PATH_HELPERS = ('route_path', 'resource_path', 'static_path', 'current_route_path')
HELPERS = URL_HELPERS + PATH_HELPERS
SIBLING = dict(zip(URL_HELPERS, PATH_HELPERS))
SIBLING.update(dict(zip(PATH_HELPERS, URL_HELPERS)))

UNRESERVED = set('ABCDEFGHIJKLMNOPQRSTUVWXYZabcdefghijklmnopqrstuvwxyz0123456789-._~')
RESERVED = set(":/?#[]@!$&'()*+,;=")
HEX = set('0123456789ABCDEFabcdef')

# ------------------------------------------------------------------------------------------------
# real objects


class Res:
    def __init__(self, name, parent):
        self.__name__, self.__parent__ = name, parent


class ItemsObj:
    """a mapping-like object: only `.items()`"""

    def __init__(self, pairs):
        self._p = pairs

    def items(self):
        return list(self._p)


_REG_CACHE = {}


def pattern_of(pieces):
    out = []
    for p in pieces:
        if p[0] == 'l':
            out.append(p[1])
        elif p[0] == 'p':
            out.append('{%s:%s}' % (p[1], p[2]) if len(p) > 2 else '{%s}' % p[1])
        else:
            out.append('*' + p[1])
    return ''.join(out)


def registry_for(case):
    key = json.dumps([case.get('routes', []), case.get('statics', [])], sort_keys=True)
    r = _REG_CACHE.get(key)
    if r is None:
        config = Configurator(settings={})
        for rt in case.get('routes', []):
            config.add_route(rt['name'], pattern_of(rt['pieces']))
        for st in case.get('statics', []):
            config.add_static_view(name=st['name'], path=st['spec'])
        config.commit()
        r = config.registry
        if len(_REG_CACHE) > 400:
            _REG_CACHE.clear()
        _REG_CACHE[key] = r
    return r


def make_request(case, registry):
    e = case['env']
    environ = {
        'REQUEST_METHOD': 'GET', 'wsgi.url_scheme': e['scheme'], 'SERVER_NAME': e['server_name'],
        'SERVER_PORT': e['server_port'], 'SCRIPT_NAME': e['script_name'].encode('utf-8').decode('latin-1'),
        'PATH_INFO': '/', 'QUERY_STRING': '', 'SERVER_PROTOCOL': 'HTTP/1.1',
    }
    if e.get('host') is not None:
        environ['HTTP_HOST'] = e['host']
    for k, v in (e.get('xfwd') or {}).items():
        environ[k] = v
    cur = case.get('cur')
    if cur:
        environ['QUERY_STRING'] = std_urlencode([(k, v) for k, v in cur.get('get', [])])
    req = Request(environ)
    req.registry = registry
    if cur:
        mapper = registry.getUtility(IRoutesMapper)
        req.matched_route = mapper.get_route(cur['matched']) if cur.get('matched') is not None else None
        req.matchdict = {k: (tuple(py_val(x) for x in v) if isinstance(v, list) else py_val(v)) for k, v in cur.get('matchdict', [])}
    return req


class StrObj:
    """a custom object whose text is whatever `__str__` says (reserved characters included)"""

    def __init__(self, text):
        self._t = text

    def __str__(self):
        return self._t

    __repr__ = __str__


def py_val(x):
    """JSON leaf -> the Python object handed to the helper: str, int (any size), true/false, null (None),
    {"f": text} float(text) (so 1e+20, -0.0, inf, nan travel as text), {"d": text} Decimal(text), {"b": text} bytes
    (UTF-8 of the text), {"bx": hex} raw bytes (may be non-UTF-8), {"o": text} an object whose __str__ returns text"""
    if isinstance(x, dict):
        if 'b' in x:
            return x['b'].encode('utf-8')
        if 'bx' in x:
            return bytes.fromhex(x['bx'])
        if 'd' in x:
            return Decimal(x['d'])
        if 'o' in x:
            return StrObj(x['o'])
        return float(x['f'])
    return x


def txt_val(x):
    """the text the property speaks about for that leaf — Python's own `str(v)` of the object (for `bytes`: its
    UTF-8 decoding), computed here and handed to the model as data"""
    if isinstance(x, dict) and 'b' in x:
        return x['b']
    if isinstance(x, dict) and 'bx' in x:
        return bytes.fromhex(x['bx']).decode('utf-8')        # raises for non-UTF-8: such leaves are outside the model
    return str(py_val(x))


def anchor_text(x):
    """`if anchor:` is Python truthiness (0, 0.0, False, '', b'', Decimal(0), None: no fragment)"""
    return txt_val(x) if (x is not None and py_val(x)) else ''


def py_deep(x, kind='list'):
    if isinstance(x, list):
        return tuple(py_deep(y, kind) for y in x) if kind == 'tuple' else [py_deep(y, kind) for y in x]
    return py_val(x)


def clear_caches():
    """forget everything the URL code memoises (functools caches of url.py / traversal.py, the segment cache)"""
    for mod in (P_url, P_trav, P_encode):
        for name in dir(mod):
            f = getattr(mod, name, None)
            if callable(getattr(f, 'cache_clear', None)):
                f.cache_clear()
    P_trav._segment_cache.clear()


def build_seq(v, kind):
    if kind == 'tuple':
        return tuple(v)
    if kind == 'gen':
        return (x for x in list(v))
    return list(v)


def build_query(q):
    """the Python object passed as `_query`; returns (has_it, obj)"""
    if q is None:
        return False, None
    if q['t'] == 'null':
        return True, None
    if q['t'] == 'str':
        return True, q['v']
    kind = q.get('seq', 'list')
    pairs = []
    for k, v in q['v']:
        if isinstance(v, list):
            v = build_seq([py_deep(x, kind) for x in v], kind)
        else:
            v = py_val(v) if v is not None else None
        pairs.append((py_val(k), v))
    form = q.get('form', 'list')
    if form == 'dict':
        return True, dict(pairs)
    if form == 'tuples':
        return True, tuple(pairs)
    if form == 'multidict':
        from webob.multidict import MultiDict
        return True, MultiDict(pairs)
    if form == 'itemsobj':
        return True, ItemsObj(pairs)
    return True, pairs


def render_leaf(x, kind='list'):
    """`str()` of a value as the real call sees it"""
    if isinstance(x, list):
        return str(py_deep(x, kind))
    return txt_val(x)


def query_items(q):
    """the (key, value) pairs the query object yields, after Python's own dict / MultiDict semantics; value is
    None | str | [str…] (what `str()` makes of the leaves)"""
    kind = q.get('seq', 'list')
    pairs = [(k, v) for k, v in q['v']]
    if q.get('form') == 'dict':
        d = {}
        for k, v in pairs:
            pk = py_val(k)
            d[pk] = (d[pk][0] if pk in d else k, v)       # a later equal key replaces the value, keeps the first key object
        pairs = list(d.values())
    out = []
    for k, v in pairs:
        if v is None:
            out.append([txt_val(k), None])
        elif isinstance(v, list):
            out.append([txt_val(k), [render_leaf(x, kind) for x in v]])
        else:
            out.append([txt_val(k), txt_val(v)])
    return out


def expand(items):
    """the property's reading of a query mapping: in order, sequences expanded, None as ''"""
    out = []
    for k, v in items:
        if v is None:
            out.append((k, ''))
        elif isinstance(v, list):
            out.extend((k, x) for x in v)
        else:
            out.append((k, v))
    return out


def call_helper(case, helper=None, drop=()):
    """run one helper on the real code; returns {'url':…} or {'err':…}"""
    helper = helper or case['helper']
    registry = registry_for(case)
    req = make_request(case, registry)
    o = case.get('ovr') or {}
    under = '' if helper.startswith('resource') else '_'
    kw = {}
    for k in ('app_url', 'scheme', 'host', 'port'):
        if o.get(k) is not None and k not in drop:
            kw[under + k] = o[k]
    if o.get('anchor') is not None:
        kw[under + 'anchor'] = py_val(o['anchor'])
    has_q, qobj = build_query(o.get('query'))
    if has_q:
        kw[under + 'query'] = qobj
    elements = tuple(py_val(x) for x in case.get('elements', []))
    try:
        if helper.startswith('route'):
            for k, v in case.get('kw', []):
                kw[k] = tuple(py_val(x) for x in v) if isinstance(v, list) else py_val(v)
            r = getattr(req, helper)(case['route'], *elements, **kw)
        elif helper.startswith('current'):
            for k, v in case.get('kw', []):
                kw[k] = tuple(py_val(x) for x in v) if isinstance(v, list) else py_val(v)
            cur = case.get('cur') or {}
            if cur.get('route_name') is not None:
                kw['_route_name'] = cur['route_name']
            r = getattr(req, helper)(*elements, **kw)
        elif helper.startswith('resource'):
            node = Res('', None)
            for n in case.get('resource', []):
                node = Res(n, node)
            rr = case.get('res_route')
            if rr:
                kw['route_name'] = rr['route']
                if rr.get('rem') is not None:
                    kw['route_remainder_name'] = rr['rem']
                if rr.get('kw'):
                    kw['route_kw'] = {k: v for k, v in rr['kw']}
            r = getattr(req, helper)(node, *elements, **kw)
        else:
            r = getattr(req, helper)(case['path'], **kw)
    except KeyError:
        return {'err': 'keyerror'}
    except ValueError as ex:
        msg = str(ex)
        if msg.startswith('No static URL definition'):
            return {'err': 'nostatic'}
        if msg.startswith('Current request matches no route'):
            return {'err': 'nocurrent'}
        return {'err': 'raised:ValueError'}
    except Exception as ex:  # noqa
        return {'err': 'raised:' + type(ex).__name__}
    if not isinstance(r, str):
        return {'err': 'raised:not-a-str'}
    return {'url': r}


def std_decode(url, n_elements):
    """the standard parser applied to a URL: split + decoded parts (None where the parser refuses)"""
    try:
        s = urlsplit(url)
    except ValueError:
        return {'split': None}
    out = {'split': {'scheme': s.scheme, 'netloc': s.netloc, 'path': s.path, 'query': s.query, 'fragment': s.fragment}}
    segs = s.path.split('/')
    try:
        out['elements'] = [strict_unquote(x) for x in segs[len(segs) - n_elements:]] if n_elements <= len(segs) else [strict_unquote(x) for x in segs]
    except (UnicodeDecodeError, NonAscii):
        out['elements'] = None
    try:
        if not s.query.isascii():
            raise NonAscii()
        out['query'] = [list(p) for p in parse_qsl(s.query, keep_blank_values=True, errors='strict')]
    except (UnicodeDecodeError, NonAscii):
        out['query'] = None
    for k, v in (('query_str', s.query), ('anchor', s.fragment)):
        try:
            out[k] = strict_unquote(v)
        except (UnicodeDecodeError, NonAscii):
            out[k] = None
    return out


class NonAscii(Exception):
    pass


def strict_unquote(s):
    """urllib's unquote with strict decoding, on the ASCII fragment the model covers"""
    if not s.isascii():
        raise NonAscii()
    return unquote(s, errors='strict')


# ------------------------------------------------------------------------------------------------
# the model's view of a case


def static_regs(case):
    """(url|None, spec, route_name) in registration order + the routes add_static_view creates
    (documented naming: route `__<name>/`, pattern `<name>/*subpath`; a name with a netloc is an external URL)"""
    regs, routes = [], []
    for st in case.get('statics', []):
        name = st['name'] if st['name'].endswith('/') else st['name'] + '/'
        spec = st['spec'] if st['spec'].endswith('/') or st['spec'].endswith(':') else st['spec'] + '/'
        if urlsplit(name).netloc:
            regs.append([name, spec, ''])
        else:
            rn = '__' + name
            regs.append([None, spec, rn])
            routes.append([rn, [['l', name if name.startswith('/') else '/' + name], ['s', 'subpath']]])
    return regs, routes


def kw_model(kw):
    out = []
    for k, v in kw:
        out.append([k, [txt_val(x) for x in v] if isinstance(v, list) else txt_val(v)])
    return out


def to_model(case):
    op = case.get('op', 'url')
    if op != 'url':
        if op == 'urlencode':
            return {'op': op, 'pairs': query_items({'v': case['pairs'], 'form': 'list'})}
        return case
    regs, sroutes = static_regs(case)
    o = dict(case.get('ovr') or {})
    mo = {}
    for k in ('app_url', 'scheme', 'host'):
        mo[k] = o.get(k)
    mo['anchor'] = anchor_text(o.get('anchor'))
    mo['anchor_truthy'] = bool(o.get('anchor') is not None and py_val(o['anchor']))
    mo['port'] = None if o.get('port') is None else str(o['port'])
    q = o.get('query')
    if q is None:
        mo['query'] = None
    elif q['t'] in ('null', 'str'):
        mo['query'] = q
    else:
        mo['query'] = {'t': 'pairs', 'v': query_items(q), 'truthy': q.get('form') == 'itemsobj'}
    e = case['env']
    m = {'op': 'url', 'helper': case['helper'],
         'env': {'scheme': e['scheme'], 'host': e.get('host'), 'server_name': e['server_name'],
                 'server_port': e['server_port'], 'script_name': e['script_name']},
         'routes': [[r['name'], [p[:2] for p in r['pieces']]] for r in case.get('routes', [])] + sroutes,
         'statics': regs, 'route': case.get('route'), 'elements': [txt_val(x) for x in case.get('elements', [])],
         'kw': kw_model(case.get('kw', [])), 'ovr': mo, 'resource': case.get('resource', []),
         'path': case.get('path')}
    rr = case.get('res_route')
    m['res_route'] = None if not rr else {'route': rr['route'], 'rem': rr.get('rem') or 'traverse', 'kw': kw_model(rr.get('kw') or [])}
    cur = case.get('cur')
    m['cur'] = None if not cur else {'matched': cur.get('matched'), 'matchdict': kw_model(cur.get('matchdict', [])),
                                     'get': [[k, v] for k, v in cur.get('get', [])], 'route_name': cur.get('route_name')}
    return m


def T(codes):
    return None if codes is None else ''.join(map(chr, codes))


def model_view(mo):
    """decode the driver's reply into the shape of impl_view"""
    if mo is None or 'error' in mo:
        return {'model_error': (mo or {}).get('error')}
    if 'err' in mo:
        return {'err': mo['err']}
    out = {'url': T(mo['url'])}
    if mo.get('split') is None:
        out['split'] = None
        return out
    out['split'] = {k: T(v) for k, v in mo['split'].items()}
    out['elements'] = None if mo.get('elements') is None else [T(x) for x in mo['elements']]
    out['query'] = None if mo.get('query') is None else [[T(k), T(v)] for k, v in mo['query']]
    out['query_str'] = T(mo.get('query_str'))
    out['anchor'] = T(mo.get('anchor'))
    return out


def impl_view(case):
    r = call_helper(case)
    if 'url' in r:
        r.update(std_decode(r['url'], len(case.get('elements', []))))
    return r


# ------------------------------------------------------------------------------------------------
# the property, stated on the implementation's output


def rfc3986_ok(url):
    """only characters RFC 3986 allows, and every % followed by two hex digits"""
    i, n = 0, len(url)
    while i < n:
        c = url[i]
        if c == '%':
            if i + 2 > n - 1:
                return False
            if url[i + 1] not in HEX or url[i + 2] not in HEX:
                return False
            i += 3
            continue
        if c not in UNRESERVED and c not in RESERVED:
            return False
        i += 1
    return True


def default_port(scheme):
    return {'https': '443', 'http': '80'}.get(scheme)


def host_text(case):
    o = case.get('ovr') or {}
    e = case['env']
    if o.get('host') is not None:
        return o['host']
    if e.get('host') is not None:
        return e['host']
    return e['server_name']


def wanted_origin(case):
    """(scheme, netloc) the overrides ask for — the documented priority list, written independently of the code:
    scheme: _scheme, else the request's; host name: _host, else Host, else SERVER_NAME (without any :port);
    port: _port, else the default port of an explicit _scheme, else the port written in the host text, else
    SERVER_PORT; the port is elided when it is the scheme's default (or empty).  A bracketed IPv6 literal is a host
    name as a whole (its inner colons are not port separators)."""
    o = case.get('ovr') or {}
    e = case['env']
    scheme = o['scheme'] if o.get('scheme') is not None else e['scheme']
    ht = host_text(case)
    if ht.startswith('[') and ']' in ht:
        # a bracketed IP literal is the host as a whole; a port may follow the bracket
        name, rest = ht[:ht.index(']') + 1], ht[ht.index(']') + 1:]
        sep, hport = (':', rest[1:]) if rest.startswith(':') else ('', '')
    else:
        name, sep, hport = ht.partition(':')
    if o.get('port') is not None:
        port = str(o['port'])
    elif o.get('scheme') is not None and default_port(o['scheme']) is not None:
        port = default_port(o['scheme'])
    elif sep:
        port = hport
    else:
        port = e['server_port']
    if port == default_port(scheme) or port == '':
        return scheme, name
    return scheme, name + ':' + port


def request_origin(case):
    """no override at all: the request's own scheme and Host (or SERVER_NAME:SERVER_PORT), default port elided"""
    e = case['env']
    scheme = e['scheme']
    if e.get('host') is not None:
        h = e['host']
        if ':' in h and not h.endswith(']'):
            name, port = h.rsplit(':', 1)
        else:
            name, port = h, None
    else:
        name, port = e['server_name'], e['server_port']
    if port is None or port == '' or port == default_port(scheme):
        return scheme, name
    return scheme, name + ':' + port


def has_origin_override(o):
    return any(o.get(k) is not None for k in ('scheme', 'host', 'port'))


def external_static(case):
    """is this a static_* call answered by an external (URL-named) static registration?"""
    if not case['helper'].startswith('static'):
        return False
    for url, spec, _ in static_regs(case)[0]:
        if (case.get('path') or '').startswith(spec):
            return url is not None
    return False


def normal_subpath(sub):
    segs = sub.split('/')
    return sub != '' and all(x != '' for x in segs[:-1]) and all(x not in ('.', '..') for x in segs)


def external_base_and_subpath(case):
    """(the registered base URL as urllib normalises it — scheme lower-cased, request scheme for a '//…' name, a
    trailing '/' — , the asset's subpath)"""
    for url, spec, _ in static_regs(case)[0]:
        if (case.get('path') or '').startswith(spec):
            base = url
            if base.startswith('//'):
                base = case['env']['scheme'] + ':' + base
            sch = base.split(':', 1)[0]
            return sch.lower() + base[len(sch):], case['path'][len(spec):]
    return None, None


def classify(case, problems, impl_url=None):
    """known findings: a *narrow* decidable predicate of the case (and, for F-C17d, of the first two characters of
    the output) per finding, each explaining only the clauses that defect can break; a case is attributed to a
    finding only when every violated clause is explained by a finding whose predicate holds."""
    o = case.get('ovr') or {}
    helper = case['helper']
    kinds = [p.split(':')[0] for p in problems]
    explained = {}
    if external_static(case):
        # F-C17c: an external static registration ignores the application URL altogether
        explained['F-C17c'] = {'path-variant', 'override', 'app-url'}
    else:
        # F-C17d: a path-only result (a *_path helper, or an _app_url that is not scheme://…) that begins with '//'
        # (empty SCRIPT_NAME / _app_url, route path '/', empty first element or value) is a network-path reference
        if impl_url is not None and impl_url.startswith('//') and \
                (helper in PATH_HELPERS or (o.get('app_url') is not None and '://' not in o['app_url'])):
            explained['F-C17d'] = {'elements', 'parse'}
    if not explained or not kinds:
        return None
    covered = set().union(*explained.values())
    if all(k in covered for k in kinds):
        for fid in sorted(explained):
            if any(k in explained[fid] for k in kinds):
                return fid
    return None


def oracle(case):
    """list of property clauses the implementation's output violates on this case (empty = fine)"""
    helper = case['helper']
    o = case.get('ovr') or {}
    r = call_helper(case)
    problems = []
    sib_drop = ('app_url',) if helper in PATH_HELPERS else ()
    sib = call_helper(case, SIBLING[helper], drop=sib_drop)
    if 'err' in r:
        # errors are outside the property, but both variants must agree on them
        if r['err'].startswith('raised:'):
            problems.append('raised: helper raised %s' % r['err'])
        elif sib.get('err') != r['err']:
            problems.append('path-variant: one variant raises (%s), the other does not' % r['err'])
        return problems, r
    url = r['url']
    ext = external_static(case)
    # 1. RFC 3986 characters (the caller-supplied _app_url/_host/_scheme text is the caller's business: the
    #    generator only supplies well-formed ones)
    if not rfc3986_ok(url):
        problems.append('chars: output has a character RFC 3986 does not allow, or a bare %')
    # 2. the standard parser recovers elements, query, anchor
    d = std_decode(url, len(case.get('elements', [])))
    if d['split'] is None:
        problems.append('parse: urlsplit refuses the output')
    else:
        els = [txt_val(x) for x in case.get('elements', [])]
        if els and d.get('elements') != els:
            problems.append('elements: decoded %r, supplied %r' % (d.get('elements'), els))
        q = o.get('query')
        if q is None and helper.startswith('current'):
            cur = case.get('cur') or {}
            want_pairs = [[k, v] for k, v in cur.get('get', [])]
            if d.get('query') != want_pairs:
                problems.append('query: decoded %r, request GET %r' % (d.get('query'), want_pairs))
        elif q is None or q['t'] == 'null':
            if d['split']['query'] != '':
                problems.append('query: a query string appears though none was supplied')
        elif q['t'] == 'str':
            if d.get('query_str') != q['v']:
                problems.append('query: decoded %r, supplied %r' % (d.get('query_str'), q['v']))
        else:
            want_pairs = [list(p) for p in expand(query_items(q))]
            if d.get('query') != want_pairs:
                problems.append('query: decoded %r, supplied %r' % (d.get('query'), want_pairs))
        a = anchor_text(o.get('anchor'))
        if d.get('anchor') != a:
            problems.append('anchor: decoded %r, supplied %r' % (d.get('anchor'), a))
    # 2b. an external static registration: the registered base URL (scheme, authority, base path) is the prefix of the
    #     result and the rest of the path decodes back to the asset's subpath (subpaths in normal form: no empty, '.', '..'
    #     segment, no leading '/' — urljoin applies RFC 3986 reference resolution to the others)
    if ext and d['split'] is not None:
        base, sub = external_base_and_subpath(case)
        if sub == '' or normal_subpath(sub):
            usch = url.split(':', 1)[0]
            lurl = usch.lower() + url[len(usch):]        # a scheme is case-insensitive (urljoin lower-cases it, an empty subpath returns the base as registered)
            rest = lurl[len(base):].split('?', 1)[0].split('#', 1)[0] if lurl.startswith(base) else None
            try:
                back = None if rest is None else strict_unquote(rest)
            except (UnicodeDecodeError, NonAscii):
                back = None
            if back != sub:
                problems.append('static-base: %r is not the registered base %r followed by the quoted subpath %r' % (url, base, sub))
    # 3. overrides / application URL
    if helper in URL_HELPERS:
        if o.get('app_url') is not None:
            if ext or not url.startswith(o['app_url']):
                problems.append('app-url: the explicit application URL is not the prefix of the output')
            else:
                plain = call_helper(case, drop=('scheme', 'host', 'port'))
                if plain.get('url') != url:
                    problems.append('app-url: _scheme/_host/_port change the output although _app_url is given')
        elif not (ext and not has_origin_override(o)):      # an external static URL has its own origin
            want = wanted_origin(case) if has_origin_override(o) else request_origin(case)
            sp = d['split']
            got = None if sp is None else (sp['scheme'], sp['netloc'])
            if got != (want[0].lower(), want[1]):
                problems.append('override: scheme/host/port of the output are %r, wanted %r' % (got, want))
    # 4. *_path = *_url minus scheme and authority
    if 'url' not in sib:
        problems.append('path-variant: one variant raises (%s), the other does not' % sib.get('err'))
    else:
        u, p = (url, sib['url']) if helper in URL_HELPERS else (sib['url'], url)
        try:
            s = urlsplit(u)
            stripped = u[len(s.scheme) + 3 + len(s.netloc):] if u[len(s.scheme):len(s.scheme) + 3] == '://' else None
        except ValueError:
            stripped = None
        if helper in URL_HELPERS and o.get('app_url') is not None:
            pass        # the url variant was built on the caller's _app_url: nothing to compare
        elif stripped != p:
            problems.append('path-variant: %r is not %r minus scheme and authority' % (p, u))
    return problems, r


def check_case(case, mo):
    """(mismatch|None, violation|None) for one helper case"""
    problems, r0 = oracle(case)
    viol = None
    if problems:
        viol = {'case': case, 'impl': impl_view(case), 'expected': 'no violated clause', 'detail': '; '.join(problems)}
        fid = classify(case, problems, r0.get('url'))
        if fid:
            viol['finding'] = fid
    mism = None
    if mo is not None:
        iv, mv = impl_view(case), model_view(mo)
        if mv.get('err') == 'outside':
            return None, viol          # outside the modelled fragment (counted by the caller)
        if iv != mv:
            mism = {'case': case, 'impl': iv, 'model': mv}
    return mism, viol


# ------------------------------------------------------------------------------------------------
# encoder / parser cases


def raw_impl(case):
    op = case['op']
    try:
        if op == 'quote':
            return {'r': P_encode.url_quote(case['s'], case['safe'])}
        if op == 'quote_plus':
            return {'r': P_encode.quote_plus(case['s'], case['safe'])}
        if op == 'urlencode':
            q = {'t': 'pairs', 'form': 'list', 'v': case['pairs']}
            return {'r': P_encode.urlencode(build_query(q)[1]), 'expand': [list(p) for p in expand(query_items(q))]}
        if op == 'urlsplit':
            try:
                s = urlsplit(case['s'])
            except ValueError:
                return {'r': None}
            return {'r': {'scheme': s.scheme, 'netloc': s.netloc, 'path': s.path, 'query': s.query, 'fragment': s.fragment}}
        if op == 'urljoin':
            from urllib.parse import urljoin as _uj
            try:
                return {'r': _uj(case['base'], case['s'])}
            except ValueError:
                return {'r': 'outside'}
        if op == 'bracket':
            try:
                import urllib.parse as _up
                _up._check_bracketed_host(case['s'])
                return {'r': True}
            except ValueError:
                return {'r': False}
        if op == 'parse_qsl':
            try:
                return {'r': [list(p) for p in parse_qsl(case['s'], keep_blank_values=True, errors='strict')]}
            except UnicodeDecodeError:
                return {'r': None}
        if op == 'unquote':
            try:
                return {'r': unquote(case['s'], errors='strict')}
            except UnicodeDecodeError:
                return {'r': None}
        if op == 'unquote_plus':
            try:
                return {'r': unquote(case['s'].replace('+', ' '), errors='strict')}
            except UnicodeDecodeError:
                return {'r': None}
    except Exception as ex:  # noqa
        return {'r': 'raised:' + type(ex).__name__}


def raw_model(case, mo):
    if mo is None or 'error' in mo:
        return {'model_error': (mo or {}).get('error')}
    op = case['op']
    r = mo.get('r')
    if op in ('quote', 'quote_plus', 'unquote', 'unquote_plus'):
        return {'r': T(r)}
    if op == 'bracket':
        return {'r': r}
    if op == 'urljoin':
        return {'r': r if isinstance(r, str) else T(r)}
    if op == 'urlencode':
        return {'r': T(r), 'expand': [[T(k), T(v)] for k, v in mo['expand']]}
    if op == 'urlsplit':
        return {'r': None if r is None else {k: T(v) for k, v in r.items()}}
    if op == 'parse_qsl':
        return {'r': None if r is None else [[T(k), T(v)] for k, v in r]}


def raw_check(case, mo):
    """encoder cases also carry the property: decoding the real encoder's output gives the text back, and the
    output has only unreserved / safe / %HEX characters"""
    got = raw_impl(case)
    viol = mism = None
    op = case['op']
    if op in ('quote', 'quote_plus') and isinstance(got['r'], str):
        out, safe = got['r'], case['safe']
        try:
            back = unquote(out.replace('+', ' ') if op == 'quote_plus' else out, errors='strict') if out.isascii() else None
        except UnicodeDecodeError:
            back = None
        allowed = UNRESERVED | set(safe) | ({'+'} if op == 'quote_plus' else set())
        bad = [c for c in re.sub(r'%[0-9A-F]{2}', '', out) if c not in allowed]
        rt_applies = '%' not in safe and not (op == 'quote_plus' and '+' in safe)
        if (rt_applies and back != case['s']) or bad:
            viol = {'case': case, 'impl': got, 'expected': {'decodes_to': case['s']},
                    'detail': 'quote output does not decode back / has a character outside unreserved+safe+%HEX'}
    if op == 'urlencode' and isinstance(got['r'], str):
        try:
            back = [list(p) for p in parse_qsl(got['r'], keep_blank_values=True, errors='strict')] if got['r'].isascii() else None
        except UnicodeDecodeError:
            back = None
        if back != got['expand'] or not rfc3986_ok(got['r']):
            viol = {'case': case, 'impl': got, 'expected': {'pairs': got['expand']}, 'detail': 'parse_qsl(urlencode(q)) is not the supplied pairs'}
    if mo is not None:
        mv = raw_model(case, mo)
        skip = False
        if op in ('unquote', 'unquote_plus', 'parse_qsl') and not case['s'].isascii():
            skip = True        # the model's parser is the ASCII fragment
        if not skip and mv != got:
            mism = {'case': case, 'impl': got, 'model': mv}
    return mism, viol


# ------------------------------------------------------------------------------------------------
# generators

SPECIAL = list('%?#;+ &=/\\:@!$\'"()*,[]<>{}|^`~.-_')
TEXT_NA = vfutil.NON_ASCII + ['\u0085', ' ', '﻿', '\U0010ffff', '\x80', '\xff']


def gen_text(rng, maxlen=5, allow_empty=True, p_control=0.04):
    r = rng.random()
    if r < 0.08:
        return rng.choice(['', '.', '..', '/', '%', '%41', '%zz', '+', ' ', 'a b', 'a+b', 'a&b=c', 'a#b', 'a?b', 'x/y', 'é', '日本語', '😀', '%2F', "'", '"', '\n', '\x00', '[', ']'])
    return vfutil.rand_text(rng, maxlen=maxlen, allow_empty=allow_empty, p_special=0.3, p_nonascii=0.25, p_control=p_control) \
        if rng.random() < 0.85 else ''.join(rng.choice(SPECIAL + TEXT_NA) for _ in range(rng.randint(1, maxlen)))


def gen_ident(rng):
    return rng.choice(['x', 'y', 'id', 'name', 'a1', '_u', 'slug'])


LIT_ALPHA = list('abcxyz019') + ['-', '.', '_', '~', ' ', 'é', '+', '%', ',', ';', '=', '@', '!', '$', '&', "'", '(', ')', '日', '"', '<', '|', '?', '#']


def gen_routes(rng):
    """a small route table: every pattern starts with '/', placeholders have distinct names, '*star' only last"""
    routes = []
    for i in range(rng.choice([1, 2, 2, 3])):
        pieces = []
        names = ['x', 'y', 'id', 'name', 'slug']
        rng.shuffle(names)
        first = '/' + ''.join(rng.choice(LIT_ALPHA) for _ in range(rng.randint(0, 3)))
        if rng.random() < 0.5 and first != '/':
            first += '/'
        pieces.append(['l', first])
        for j in range(rng.choice([0, 1, 1, 2, 3])):
            nm = names.pop()
            pieces.append(['p', nm, rng.choice(['\\d+', '[^/]+', '.*'])] if rng.random() < 0.15 else ['p', nm])
            if rng.random() < 0.7:
                lit = rng.choice(['/', '/', '-', '.', '/a/', '/é/', ' ', '/x y'])
                pieces.append(['l', lit])
        if rng.random() < 0.3:
            if pieces[-1][0] != 'l' or not pieces[-1][1].endswith('/'):
                pieces.append(['l', '/'])
            pieces.append(['s', rng.choice(['rest', 'traverse', 'subpath'])])
        routes.append({'name': 'r%d' % i, 'pieces': pieces})
    return routes


HOSTS = ['example.com', 'localhost', 'a-b.example.org', '127.0.0.1', 'EXAMPLE.com', 'xn--nxasmq6b.example']
PORTS = [None, None, '80', '443', '8080', '8443', '']
IPV6 = ['[::1]', '[::1]:8080', '[2001:db8::1]:443', '[2001:db8::1]', '[::ffff:192.0.2.1]:80', '[fe80::1:2:3:4]:', '[1:2:3:4:5:6:7:8]:6543',
        '[v1.fe:x]:81', '[::]']
SCRIPTS = ['', '', '', '/app', '/a/b', '/scr ipt', '/é', '/a%b', '/a?b', '/a#b', '/a;b=c', '/日本', "/a'b", '/a+b', '/~u', '/a"b']


def gen_env(rng):
    scheme = rng.choice(['http', 'http', 'https'])
    r = rng.random()
    if r < 0.15:
        host = None
    elif r < 0.22:
        host = rng.choice(IPV6)
    else:
        p = rng.choice(PORTS)
        host = rng.choice(HOSTS) + ('' if p is None else ':' + p)
    env = {'scheme': scheme, 'host': host, 'server_name': rng.choice(['srv.internal', 'localhost', '10.0.0.1']),
           'server_port': rng.choice(['80', '443', '8080', '6543']),
           'script_name': rng.choice(SCRIPTS) if rng.random() < 0.8 else '/' + gen_text(rng, 4, p_control=0.02)}
    if rng.random() < 0.15:
        env['xfwd'] = {'HTTP_X_FORWARDED_HOST': 'proxy.example.net', 'HTTP_X_FORWARDED_PROTO': rng.choice(['http', 'https']),
                       'HTTP_X_FORWARDED_PORT': rng.choice(['443', '8443']), 'HTTP_X_FORWARDED_FOR': '203.0.113.9'}
    return env


# awkward non-str leaves: every one of them in every slot in the leaf cube; drawn at random elsewhere
LEAF_POOL = [0, -7, 10 ** 30, True, False, None,
             {'f': '1e16'}, {'f': '2.5e+16'}, {'f': '-3e300'}, {'f': '1e-07'}, {'f': '5e-324'}, {'f': '-0.0'}, {'f': 'inf'},
             {'f': '-inf'}, {'f': 'nan'}, {'f': '0.1'}, {'f': '123456789012345680.0'},
             {'d': '1E+3'}, {'d': '0.10'}, {'d': '-1E-7'}, {'d': 'NaN'}, {'d': '0'},
             {'b': 'a b'}, {'b': 'é/?#'}, {'b': ''},
             {'o': 'a/b'}, {'o': 'x?y#z'}, {'o': 'p&q=r+s'}, {'o': '%41'}, {'o': ' '}, {'o': 'é😀'}, {'o': ''},
             '', '+', 'a+b c', '1e+20']
SLOTS = ('element', 'kw', 'qkey', 'qval', 'qseq', 'anchor')


def gen_leaf(rng, none_ok=True):
    x = rng.choice(LEAF_POOL)
    if rng.random() < 0.25:
        sign = rng.choice(['', '-'])
        x = rng.choice([{'f': '%s%de%s%d' % (sign, rng.randint(1, 9), rng.choice(['+', '-']), rng.randint(5, 300))},
                        {'f': '%s%d.%de+%d' % (sign, rng.randint(1, 9), rng.randint(0, 99), rng.randint(16, 30))},
                        rng.choice([-1, 1]) * rng.randrange(10 ** 20), {'d': '%d.%dE%s%d' % (rng.randint(1, 9), rng.randint(0, 9), rng.choice(['+', '-']), rng.randint(1, 40))},
                        {'o': gen_text(rng, 4)}, {'b': gen_text(rng, 4, p_control=0.0)}])
    if x is None and not none_ok:
        return 0
    return x


def gen_qval(rng, depth=0):
    r = rng.random()
    if r < 0.12:
        return None
    if r < 0.62:
        return gen_text(rng)
    if r < 0.7:
        x = gen_leaf(rng, none_ok=False) if rng.random() < 0.7 else rng.choice([0, 1, 42, -7, 10 ** 12, True, False, {'f': '1.0'}, {'f': '-0.5'}])
        return gen_text(rng) if (isinstance(x, dict) and 'b' in x) else x      # a bytes *value* is a sequence of ints
    n = rng.choice([0, 1, 2, 2, 3])
    out = []
    for _ in range(n):
        rr = rng.random()
        if rr < 0.75:
            out.append(gen_text(rng))
        elif rr < 0.85:
            out.append(gen_leaf(rng))
        else:
            out.append([gen_text(rng, 3) for _ in range(rng.choice([0, 1, 2]))])     # nested sequence
    return out


def gen_query(rng):
    r = rng.random()
    if r < 0.3:
        return None
    if r < 0.35:
        return {'t': 'null'}
    if r < 0.5:
        return {'t': 'str', 'v': rng.choice(['', 'a=1&b=2', 'q=a b', 'x=é&y=%', 'a+b', '?', '#frag', 'k=v;w']) if rng.random() < 0.5 else gen_text(rng, 6)}
    form = rng.choice(['dict', 'dict', 'list', 'list', 'tuples', 'multidict', 'itemsobj'])
    n = rng.choice([0, 1, 1, 2, 2, 3, 4])
    keys = ['a', 'b', 'a', 'k k', 'é', 'x&y', 'p=q', '', '+', '%', 'a/b', '日']
    pairs = []
    for _ in range(n):
        k = rng.choice(keys) if rng.random() < 0.7 else gen_text(rng, 4)
        if rng.random() < 0.08:
            k = gen_leaf(rng)
        v = gen_qval(rng)
        if form == 'multidict' and (v is None or isinstance(v, list)) and rng.random() < 0.5:
            v = gen_text(rng)
        pairs.append([k, v])
    return {'t': 'pairs', 'form': form, 'seq': rng.choice(['list', 'list', 'tuple', 'gen']), 'v': pairs}


def gen_ovr(rng, path_helper=False):
    o = {}
    r = rng.random()
    if r < 0.45:
        pass
    else:
        if rng.random() < 0.45:
            o['scheme'] = rng.choice(['https', 'http', 'https', 'ftp', 'ws', 'HTTPS'])
        if rng.random() < 0.4:
            p = rng.choice(PORTS)
            o['host'] = (rng.choice(['other.example.com', 'cdn.example.net', 'h']) + ('' if p is None else ':' + p)) \
                if rng.random() < 0.9 else rng.choice(IPV6)
        if rng.random() < 0.4:
            o['port'] = rng.choice(['80', '443', '8080', 8080, 443, 80, 0, '', '8443'])
        if rng.random() < 0.25:
            o['app_url'] = rng.choice(['http://cdn.example.com', 'https://x.example/app', '', '/prefix', 'http://h:81/p%20q',
                                       'https://[::1]:8443/v6', 'HTTP://UP.example'])
    q = gen_query(rng)
    if q is not None:
        o['query'] = q
    r = rng.random()
    if r < 0.45:
        o['anchor'] = gen_text(rng, 5)
    elif r < 0.5:
        o['anchor'] = ''
    elif r < 0.56:
        o['anchor'] = gen_leaf(rng, none_ok=False)
    return o


def gen_elements(rng):
    n = rng.choice([0, 0, 1, 1, 2, 3])
    return [gen_text(rng, 5) if rng.random() < 0.88 else gen_leaf(rng) for _ in range(n)]


def gen_kw_for(rng, pieces, p_missing=0.04):
    kw = []
    for p in pieces:
        if p[0] == 'p':
            if rng.random() < p_missing:
                continue
            kw.append([p[1], gen_text(rng, 4) if rng.random() < 0.86 else gen_leaf(rng)])
        elif p[0] == 's':
            if rng.random() < p_missing:
                continue
            if rng.random() < 0.6:
                kw.append([p[1], [gen_text(rng, 4) for _ in range(rng.choice([0, 1, 2, 3]))]])
            else:
                kw.append([p[1], gen_text(rng, 6)])
    if rng.random() < 0.1:
        kw.append(['extra', gen_text(rng, 3)])
    rng.shuffle(kw)
    return kw


STATIC_SETS = [
    [{'name': 'static', 'spec': 'c17pkg:static/'}],
    [{'name': 'assets/img', 'spec': 'c17pkg:img'}, {'name': 'static', 'spec': 'c17pkg:static/'}],
    [{'name': 'http://cdn.example.com/img/', 'spec': 'c17pkg:cdn/'}, {'name': 'static', 'spec': 'c17pkg:static/'}],
    [{'name': '//cdn.example.com/x', 'spec': 'c17pkg:cdn/'}],
    [{'name': 'my static', 'spec': 'c17pkg:static/'}, {'name': 'https://cdn.example.com/a%20b/', 'spec': 'c17pkg:static/sub/'}],
    [{'name': 'é', 'spec': 'c17pkg:u/'}],
    [{'name': 'http://cdn.example.com/assets', 'spec': 'c17pkg:cdn/'}],                       # no trailing slash
    [{'name': 'http://cdn.example.com', 'spec': 'c17pkg:cdn/'}],                              # no path at all
    [{'name': 'https://cdn.example.com:8443/a/b/', 'spec': 'c17pkg:cdn/'}],
    [{'name': '//cdn.example.com/x/', 'spec': 'c17pkg:cdn/'}, {'name': 'static', 'spec': 'c17pkg:static/'}],
    [{'name': 'https://[2001:db8::1]/s/', 'spec': 'c17pkg:cdn/'}],
    [{'name': 'HTTP://CDN.example.com/Up/', 'spec': 'c17pkg:cdn/'}],
]


def gen_case(rng):
    helper = rng.choice(HELPERS)
    env = gen_env(rng)
    routes = gen_routes(rng)
    case = {'op': 'url', 'helper': helper, 'env': env, 'routes': routes, 'statics': [], 'ovr': gen_ovr(rng)}
    if helper.startswith('route'):
        rt = rng.choice(routes)
        case['route'] = rt['name'] if rng.random() < 0.97 else 'nosuch'
        case['elements'] = gen_elements(rng)
        case['kw'] = gen_kw_for(rng, rt['pieces'])
    elif helper.startswith('current'):
        rt = rng.choice(routes)
        other = rng.choice(routes)
        md = gen_kw_for(rng, rt['pieces'], p_missing=0.0)
        md = [[k, [txt_val(x) for x in v] if isinstance(v, list) else txt_val(v)] for k, v in md if k != 'extra']   # a match dictionary holds text
        cur = {'matched': rt['name'] if rng.random() < 0.93 else None, 'matchdict': md,
               'get': [[rng.choice(['a', 'b', 'q', 'é', 'k k']), gen_text(rng, 4, p_control=0.0)] for _ in range(rng.choice([0, 0, 1, 2, 3]))],
               'route_name': other['name'] if rng.random() < 0.2 else None}
        target = other if cur['route_name'] is not None else rt
        case['cur'] = cur
        case['elements'] = gen_elements(rng)
        # overriding some match values, and supplying those of another route
        kw = gen_kw_for(rng, target['pieces'], p_missing=0.0 if cur['route_name'] else 0.7)
        case['kw'] = [[k, v] for k, v in kw if k != 'extra']
    elif helper.startswith('resource'):
        case['resource'] = [gen_text(rng, 4, allow_empty=False) or 'n' for _ in range(rng.choice([0, 1, 2, 3]))]
        case['elements'] = gen_elements(rng)
        if rng.random() < 0.15:
            nm = 'rt'
            rem = rng.choice(['traverse', 'traverse', 'rest'])
            case['routes'] = routes + [{'name': nm, 'pieces': [['l', rng.choice(['/r/', '/', '/a b/'])], ['p', 'x'], ['l', '/'], ['s', rem]]}]
            case['res_route'] = {'route': nm, 'rem': None if rem == 'traverse' else rem, 'kw': [['x', gen_text(rng, 3)]] if rng.random() < 0.9 else []}
    else:
        case['statics'] = rng.choice(STATIC_SETS)
        st = rng.choice(case['statics'])
        spec = st['spec'] if st['spec'].endswith('/') else st['spec'] + '/'
        r = rng.random()
        if r < 0.05:
            case['path'] = 'otherpkg:nothing/x.css'
        elif r < 0.12:
            case['path'] = spec
        else:
            case['path'] = spec + gen_subpath(rng)
    return case


EXT_BASES = ['http://cdn.example.com/', 'http://cdn.example.com/assets/', 'https://cdn.example.com/a/b/', 'https://cdn.example.com/a%20b/',
             'HTTP://CDN.example.com/x/', 'http://cdn.example.com:8080/img/', 'https://[2001:db8::1]/s/', 'http://cdn.example.com/a/b', 'ftp://h/d/',
             'http://cdn.example.com', 'http://h//x/', 'http://h/a/../b/', 'http://h/./']
SUB_SEGS = ['css', 'js', 'a b', 'é', '日本', 'x+y', 'v1.2', 'a%b', 'q?x', 'h#i', "it's", 'a:b', 'a;b', 'icons:home.svg', 'http:x', 'a+b.c:d', 'HTTP:',
            'x:', ':y', '..', '.', '', '...', '%2e%2e', '~u', '@', '😀']


def gen_subpath(rng):
    """a static asset subpath: segments with ':', '?', '#', '%', spaces, scheme-like prefixes, multi-byte text, '..', '.',
    empty segments ('//'), optionally a leading or trailing '/'"""
    segs = [rng.choice(SUB_SEGS) if rng.random() < 0.85 else gen_text(rng, 4, p_control=0.0).replace('/', '_') for _ in range(rng.choice([1, 1, 2, 2, 3, 4]))]
    s = '/'.join(segs)
    r = rng.random()
    if r < 0.08:
        s = '/' + s
    elif r < 0.12:
        s = '//' + s
    return s + rng.choice(['', '', '', '.css', '/'])


def gen_urljoin(rng):
    ref = gen_subpath(rng)
    r = rng.random()
    if r < 0.6:
        from urllib.parse import quote as _q
        ref = _q(ref)                       # the shape the static branch produces
    elif r < 0.75:
        from urllib.parse import quote as _q
        ref = _q(ref, safe="/~!$&'()*+,=:@")   # ... and the shape a too generous safe set would produce
    ref = ref.replace(';', '')
    return {'op': 'urljoin', 'base': rng.choice(EXT_BASES), 's': ref}


def gen_bracket(rng):
    """candidate contents of a bracketed host: valid and nearly valid IPv6 / IPvFuture / IPv4 texts"""
    r = rng.random()
    if r < 0.25:
        return rng.choice(['::1', '::', '1::', '2001:db8::1', '1:2:3:4:5:6:7:8', '::ffff:192.0.2.1', '1:2:3:4:5:6:1.2.3.4', 'fe80::1%eth0',
                           'v1.fe', 'vFF.a:b', '1.2.3.4', '', ':', ':::', '1:2:3:4:5:6:7:8:9', '1::2::3', '::1.2.3.256', '::01.2.3.4', 'v.x', 'v1.',
                           '12345::', 'g::1', '::1%', '::1%a%b', ':1:2:3:4:5:6:7', '1:2:3:4:5:6:7:', '1::2:3:4:5:6:7', '1::2:3:4:5:6:7:8', '::1/64'])
    if r < 0.5:
        # a well-formed address: 8 hextets, or fewer around one '::', optionally an IPv4 tail, optionally a zone
        hx = lambda: ''.join(rng.choice('0123456789abcdefABCDEF') for _ in range(rng.randint(1, 4)))
        v4 = rng.random() < 0.25
        total = 6 if v4 else 8
        if rng.random() < 0.6:
            keep = rng.randint(0, total - 1)
            left = rng.randint(0, keep)
            l, rr = [hx() for _ in range(left)], [hx() for _ in range(keep - left)]
            if v4:
                rr.append('%d.%d.%d.%d' % tuple(rng.choice([0, 1, 9, 10, 99, 100, 255]) for _ in range(4)))
            s = ':'.join(l) + '::' + ':'.join(rr)
        else:
            parts = [hx() for _ in range(total)]
            if v4:
                parts.append('%d.%d.%d.%d' % tuple(rng.choice([0, 1, 9, 10, 99, 100, 255]) for _ in range(4)))
            s = ':'.join(parts)
        if rng.random() < 0.1:
            s += '%' + rng.choice(['eth0', '1', 'a-b'])
        if rng.random() < 0.15:
            s = s.replace(':', '', 1) if rng.random() < 0.5 else s + rng.choice([':', '0', 'g'])      # … and a near miss
        return s
    if r < 0.62:
        return rng.choice(['v', 'V']) + ''.join(rng.choice('0aF1g.:x') for _ in range(rng.randint(0, 6)))
    parts = []
    for _ in range(rng.choice([2, 3, 4, 6, 7, 8, 8, 9])):
        parts.append(rng.choice(['', '', '0', '1', 'ff', 'FFFF', 'abcd', '12345', 'g', '1.2.3.4', '255.255.255.255', '01.2.3.4', '1.2.3']))
    s = ':'.join(parts)
    if rng.random() < 0.15:
        s += rng.choice(['%eth0', '%', '%a%b', '/64'])
    return s


def gen_raw(rng):
    op = rng.choice(['quote', 'quote', 'quote_plus', 'urlencode', 'urlsplit', 'urlsplit', 'parse_qsl', 'unquote', 'unquote_plus', 'bracket', 'urljoin', 'urljoin'])
    if op == 'bracket':
        return {'op': op, 's': gen_bracket(rng)}
    if op == 'urljoin':
        return gen_urljoin(rng)
    if op in ('quote', 'quote_plus'):
        safe = rng.choice(['', '/', P_trav.PATH_SEGMENT_SAFE, P_trav.PATH_SAFE, P_url.QUERY_SAFE, ':@', '~', '%', '+', ' ', 'é/'])
        return {'op': op, 's': gen_text(rng, 8, p_control=0.08), 'safe': safe}
    if op == 'urlencode':
        return {'op': op, 'pairs': [[gen_text(rng, 4), gen_qval(rng)] for _ in range(rng.choice([0, 1, 2, 3, 4]))]}
    if op == 'urlsplit':
        alpha = list('ab1+-.') + list(':/?#[]@%') + [' ', '\t', '\n', '\r', '\x00', 'é', '&', '=']
        if rng.random() < 0.5:
            s = rng.choice(['http', 'HTTPS', 'a+b', '1x', '', 'ftp', 'x']) + rng.choice([':', '://', '//', '']) + \
                rng.choice(['h', 'h:80', 'u@h', '[::1]', '[::1', '::1]', '', 'é.com', '[' + gen_bracket(rng) + ']', '[' + gen_bracket(rng) + ']:80', 'a]b[c']) + \
                ''.join(rng.choice(alpha) for _ in range(rng.randint(0, 8)))
        else:
            s = ''.join(rng.choice(alpha) for _ in range(rng.randint(0, 12)))
        if rng.random() < 0.15:
            s = rng.choice([' ', '\x01', '\t ', '\n']) + s
        return {'op': op, 's': s}
    alpha = list('ab1') + ['%', '%', '4', '1', 'C', '3', 'A', '9', 'e', 'F', '0', '+', '&', '=', ' ', 'g', 'z', '%E2%82%AC', '%C3', '%ff', '%2', '%%']
    s = ''.join(rng.choice(alpha) for _ in range(rng.randint(0, 10)))
    if rng.random() < 0.05:
        s += 'é'
    return {'op': op, 's': s}


# ------------------------------------------------------------------------------------------------


def needs_quoting(s):
    return any(c not in UNRESERVED for c in str(s))


def nontrivial(case):
    if case.get('op', 'url') != 'url':
        s = json.dumps(case.get('s', case.get('pairs', '')))
        return any(c in s for c in '%+') or any(c in RESERVED for c in str(case.get('s', ''))) or not s.isascii() or '\\u' in s
    o = case.get('ovr') or {}
    if any(o.get(k) is not None for k in ('app_url', 'scheme', 'host', 'port')):
        return True
    if case.get('op') == 'history':
        return len(case['calls']) >= 2
    texts = [txt_val(x) for x in case.get('elements', [])] + [case['env']['script_name'].replace('/', '')]
    if o.get('anchor') is not None:
        texts.append(anchor_text(o['anchor']))
    q = o.get('query')
    if q and q['t'] == 'str':
        texts.append(q['v'])
    elif q and q['t'] == 'pairs':
        texts.append(json.dumps(q['v']))
    for k, v in case.get('kw', []):
        texts.append(json.dumps(v))
    return any(needs_quoting(t) for t in texts)


def run_cases(ctx, cases, dist, res, stream):
    hcases = [c for c in cases if c.get('op') == 'history']
    if hcases:
        run_histories(ctx, hcases, dist, res, stream)
        cases = [c for c in cases if c.get('op') != 'history']
    model = ctx.run_model([to_model(c) for c in cases]) if ctx.driver_path else [None] * len(cases)
    for case, mo in zip(cases, model):
        if case.get('op', 'url') == 'url':
            m, v = check_case(case, mo)
            bump(dist['helper'], case['helper'])
            iv = call_helper(case)
            if v and not v.get('finding'):
                # does the call violate the property on its own, or only after the calls made before it?
                clear_caches()
                if not oracle(case)[0]:
                    h = minimise_history([c for c, _ in res['_done']], case)
                    problems, hist, fresh = history_problems(h)
                    v = {'case': h, 'impl': {'in_sequence': hist, 'on_its_own': fresh},
                         'expected': 'the same result for the same call, whatever was called before',
                         'detail': ('history-dependent (%s); ' % v['detail'][:300]) + '; '.join(problems)[:1000]}
                    bump(dist, 'history_dependent_violations')
            res['_done'].append((case, iv))
            bump(dist['outcome'], iv.get('err', 'url'))
            if mo is not None and mo.get('err') == 'outside':
                bump(dist, 'outside_model')
            o = case.get('ovr') or {}
            bump(dist['overrides'], '+'.join(k for k in ('app_url', 'scheme', 'host', 'port') if o.get(k) is not None) or 'none')
            q = o.get('query')
            bump(dist['query_form'], 'absent' if q is None else q['t'] if q['t'] != 'pairs' else q.get('form', 'list'))
            bump(dist['elements'], len(case.get('elements', [])))
            bump(dist['host_kind'], 'none' if case['env'].get('host') is None else 'ipv6' if case['env']['host'].startswith('[') else
                 'with-port' if ':' in case['env']['host'] else 'plain')
            if external_static(case):
                bump(dist, 'external_static')
                sub = external_base_and_subpath(case)[1]
                bump(dist['external_subpath'], 'empty' if sub == '' else 'normal' if normal_subpath(sub) else 'needs-resolution')
                if re.match(r'[A-Za-z][A-Za-z0-9+.-]*:', sub):
                    bump(dist['external_subpath'], 'scheme-like first segment')
        else:
            m, v = raw_check(case, mo)
            bump(dist['raw_op'], case['op'] + ('' if case['op'] != 'bracket' else ':accepted' if raw_impl(case)['r'] else ':refused'))
        if m:
            m['stream'] = stream
            res['mismatches'].append(m)
        elif mo is not None:
            res['agreeing'] += 1
        if v:
            v['stream'] = stream
            res['violations'].append(v)
        key = vfutil.canon(case)
        if key not in res['_seen']:
            res['_seen'].add(key)
            if nontrivial(case):
                res['_nontriv'] += 1


# ------------------------------------------------------------------------------------------------
# history independence: a helper's result must not depend on the calls made before it

TWINS = [[True, 1, {'f': '1.0'}], [False, 0, {'f': '0.0'}], [2, {'f': '2.0'}], ['a', {'b': 'a'}], ['é/', {'b': 'é/'}],
         [True, 'True'], [1, '1', {'b': '1'}], [{'f': '1.0'}, '1.0']]


def history_results(calls):
    """(results in sequence after one cache reset, results of each call on its own after a cache reset)"""
    clear_caches()
    hist = [call_helper(c) for c in calls]
    fresh = []
    for c in calls:
        clear_caches()
        fresh.append(call_helper(c))
    return hist, fresh


def history_problems(hcase):
    calls = hcase['calls']
    hist, fresh = history_results(calls)
    problems = []
    for i, (h, f) in enumerate(zip(hist, fresh)):
        if h != f:
            problems.append('history: call %d returns %r after the earlier calls but %r on its own' % (i, h, f))
    for i, c in enumerate(calls):
        clear_caches()
        ps, r = oracle(c)
        if ps and not classify(c, ps, r.get('url')):
            problems.append('call %d: %s' % (i, '; '.join(ps)))
    return problems, hist, fresh


def history_check(hcase, mos):
    """(mismatch|None, violation|None); `mos` = the driver's replies for the calls, in order (or None)"""
    problems, hist, fresh = history_problems(hcase)
    viol = mism = None
    if problems:
        viol = {'case': hcase, 'impl': {'in_sequence': hist, 'on_its_own': fresh}, 'expected': 'the same result for the same call, whatever was called before',
                'detail': '; '.join(problems)[:1500]}
    if mos is not None:
        for i, (c, mo, h) in enumerate(zip(hcase['calls'], mos, hist)):
            mv = model_view(mo)
            if mv.get('err') == 'outside':
                continue
            if (mv.get('url'), mv.get('err')) != (h.get('url'), h.get('err')):
                mism = {'case': hcase, 'impl': {'call': i, 'result': h}, 'model': {k: mv.get(k) for k in ('url', 'err', 'model_error')}}
                break
    return mism, viol


def set_slot(case, slot, val):
    c = json.loads(json.dumps(case))
    kind, i = slot
    if kind == 'element':
        c['elements'][i] = val
    elif kind == 'kw':
        c['kw'][i][1] = val
    elif kind == 'qval':
        c['ovr']['query']['v'][i][1] = val
    elif kind == 'qseq':
        c['ovr']['query']['v'][i][1] = [val, 'z']
    elif kind == 'qkey':
        c['ovr']['query']['v'][i][0] = val
    elif kind == 'anchor':
        c['ovr']['anchor'] = val
    return c


def gen_history(rng):
    """2-4 calls that differ only in one slot (an element, a route value, a query value, an item of a query
    sequence, a query key), filled with values that compare equal / hash equal but print differently, in random
    order, sometimes with an unrelated call in between"""
    for _ in range(50):
        base = gen_case(rng)
        if base['helper'].startswith('static') or base.get('route') == 'nosuch':
            continue
        if not base.get('elements'):
            base['elements'] = [gen_text(rng, 3)]
        slots = [('element', i) for i in range(len(base['elements']))]
        slots += [('kw', i) for i, (k, v) in enumerate(base.get('kw', [])) if not isinstance(v, list)]
        q = (base.get('ovr') or {}).get('query')
        if q and q['t'] == 'pairs' and q['v'] and q.get('form') != 'multidict':
            slots += [('qval', i) for i in range(len(q['v']))] + [('qseq', i) for i in range(len(q['v']))]
            if q.get('form') != 'dict':
                slots += [('qkey', i) for i in range(len(q['v']))]
        slot = rng.choice(slots)
        group = list(rng.choice(TWINS))
        if slot[0] == 'qval' or slot[0] == 'qseq':
            group = [g for g in group if not (isinstance(g, dict) and 'b' in g)]     # a bytes *value* is a sequence of ints
            if len(group) < 2:
                continue
        rng.shuffle(group)
        calls = [set_slot(base, slot, g) for g in group]
        if rng.random() < 0.4:
            calls.append(set_slot(base, slot, group[0]))
        if rng.random() < 0.3:
            calls.insert(rng.randrange(len(calls)), gen_case(rng))
        return {'op': 'history', 'calls': calls}
    return {'op': 'history', 'calls': [WITNESS_C17A, WITNESS_C17A]}


def run_histories(ctx, hcases, dist, res, stream):
    flat = [to_model(c) for h in hcases for c in h['calls']]
    replies = ctx.run_model(flat) if ctx.driver_path and flat else [None] * len(flat)
    pos = 0
    for h in hcases:
        n = len(h['calls'])
        mos = replies[pos:pos + n] if ctx.driver_path else None
        pos += n
        m, v = history_check(h, mos)
        bump(dist['history_len'], n)
        if m:
            m['stream'] = stream
            res['mismatches'].append(m)
        elif mos is not None:
            res['agreeing'] += 1
        if v:
            v['stream'] = stream
            res['violations'].append(v)
        key = vfutil.canon(h)
        if key not in res['_seen']:
            res['_seen'].add(key)
            if nontrivial(h):
                res['_nontriv'] += 1


def second_pass(ctx, done_cases, dist, res):
    """every helper call once more, in a shuffled order (so with a different history): same result, or a violation
    whose case is a short history that reproduces the difference"""
    order = list(range(len(done_cases)))
    ctx.rng.shuffle(order)
    order = order[:ctx.n(3000, 12000)]        # a shuffled sample of the run's calls (bounded, to keep the thorough tier short)
    seen_before = []
    for idx in order:
        case, first = done_cases[idx]
        again = call_helper(case)
        if again != first and len([v for v in res['violations'] if v.get('stream') == 'second-pass']) < 3:
            h = minimise_history([c for c, _ in seen_before], case)
            problems, hist, fresh = history_problems(h)
            res['violations'].append({'case': h, 'impl': {'first': first, 'again': again, 'in_sequence': hist, 'on_its_own': fresh},
                                      'expected': 'the same result for the same call, whatever was called before',
                                      'detail': ('history: %r first, %r in a later history; ' % (first, again)) + '; '.join(problems)[:1000],
                                      'stream': 'second-pass'})
        seen_before.append((case, first))
        bump(dist, 'second_pass_calls')


def minimise_history(before, case, limit=4000):
    for p in reversed(before[-limit:]):
        h = {'op': 'history', 'calls': [p, case]}
        hist, fresh = history_results(h['calls'])
        if hist != fresh:
            return h
    return {'op': 'history', 'calls': before[-200:] + [case]}


_REGNAME = re.compile(r"[A-Za-z0-9._~!$&'()*+,;=-]*(:[0-9]*)?\Z")


def host_in_domain(h):
    """`reg-name[:port]` or a bracketed IP literal accepted by urllib, `[…][:port]`; a `[` without `]` is outside"""
    if h is None:
        return True
    if h.startswith('['):
        i = h.find(']')
        if i < 0 or not re.match(r'(:[0-9]*)?\Z', h[i + 1:]):
            return False
        return raw_impl({'op': 'bracket', 's': h[1:i]})['r']
    return bool(_REGNAME.match(h))


def in_domain(c):
    """the shrinker must not leave the property's domain (well-formed environ and host texts)"""
    e = c.get('env') or {}
    if not (host_in_domain(e.get('host')) and host_in_domain((c.get('ovr') or {}).get('host'))):
        return False
    return (c.get('op', 'url') == 'url' and e.get('scheme') in ('http', 'https') and (e.get('host') is None or e.get('host')) and e.get('server_name')
            and e.get('server_port') and (e.get('script_name') == '' or str(e.get('script_name', 'x')).startswith('/')))


def still_violates(c, finding=None):
    try:
        if c.get('op') == 'history':
            return len(c['calls']) >= 1 and all(in_domain(x) for x in c['calls']) and bool(history_problems(c)[0])
        if c.get('op', 'url') == 'url':
            if not in_domain(c):
                return False
            problems, r = oracle(c)
            return bool(problems) and classify(c, problems, r.get('url')) == finding
        return raw_check(c, None)[1] is not None
    except Exception:
        return False


def shrink_violations(viol, limit=3):
    out = []
    for v in viol[:limit]:
        if v.get('finding'):
            out.append(v)
            continue
        small = vfutil.shrink(v['case'], lambda c: still_violates(c, None), max_steps=400 if v['case'].get('op') != 'history' else 150)
        if small.get('op') == 'history':
            problems, hist, fresh = history_problems(small)
            v = dict(v, case=small, impl={'in_sequence': hist, 'on_its_own': fresh}, detail='; '.join(problems)[:1500])
        elif small.get('op', 'url') == 'url':
            problems, _ = oracle(small)
            v = dict(v, case=small, impl=impl_view(small), detail='; '.join(problems))
        else:
            v = dict(v, case=small, impl=raw_impl(small))
        out.append(v)
    return out + viol[limit:]


WITNESS_C17A = {'op': 'url', 'helper': 'route_path',
                'env': {'scheme': 'http', 'host': 'example.com', 'server_name': 'localhost', 'server_port': '80', 'script_name': '/scr ipt'},
                'routes': [{'name': 's', 'pieces': [['l', '/s']]}], 'statics': [], 'route': 's', 'elements': [], 'kw': [], 'ovr': {}}


def run(ctx):
    rng = ctx.rng
    dist = {'helper': {}, 'outcome': {}, 'overrides': {}, 'query_form': {}, 'elements': {}, 'host_kind': {}, 'raw_op': {},
            'outside_model': 0, 'external_static': 0, 'external_subpath': {}, 'history_len': {}, 'second_pass_calls': 0}
    res = {'mismatches': [], 'violations': [], 'agreeing': 0, '_seen': set(), '_nontriv': 0, '_done': []}
    corpus = [c for _, c in ctx.corpus()]
    run_cases(ctx, corpus, dist, res, 'corpus')
    n_url, n_raw = ctx.n(2200, 32000), ctx.n(2500, 60000)
    done = 0
    samples = []
    while done < n_url and ctx.time_left() > 120:
        batch = [gen_case(rng) for _ in range(min(2000, n_url - done))]
        if not samples:
            samples = batch[:3]
        run_cases(ctx, batch, dist, res, 'helpers')
        done += len(batch)
    raws = [gen_raw(rng) for _ in range(n_raw)]
    run_cases(ctx, raws, dist, res, 'encoders-parsers')
    # override cube (exhaustive within its scope): small in the quick tier, full in the thorough tier
    cube = list(override_cube(small=(ctx.tier == 'quick')))
    run_cases(ctx, cube, dist, res, 'override-cube')
    # leaf cube (exhaustive within its scope): every awkward non-str leaf in every slot of every helper
    leaves = list(leaf_cube())
    run_cases(ctx, leaves, dist, res, 'leaf-cube')
    dist['non_utf8_bytes'] = probe_non_utf8()
    # external static cube (exhaustive within its scope)
    scube = list(static_cube())
    run_cases(ctx, scube, dist, res, 'static-cube')
    # history independence: twin histories (equal-but-differently-printed values in one slot), then every helper
    # call of this run once more in a shuffled order
    hists = [gen_history(rng) for _ in range(ctx.n(300, 2000))]
    run_histories(ctx, hists, dist, res, 'histories')
    second_pass(ctx, res['_done'], dist, res)
    # the excluded point of Props.C17.unbalanced_bracket_outside, replayed on the real code (outside the domain)
    excl = dict(WITNESS_C17A, helper='route_url', env=dict(WITNESS_C17A['env'], host='[::1', script_name=''), ovr={'scheme': 'https'})
    excl_out = call_helper(excl)
    excl_note = 'excluded point (Host "[::1" without its "]", _scheme=https; outside the domain): impl %r, urlsplit %s' % (
        excl_out, std_decode(excl_out.get('url', ''), 0)['split'])
    res['violations'] = shrink_violations(res['violations'])
    total = len(corpus) + done + len(raws) + len(cube) + len(leaves) + len(scube) + len(hists)
    return {'evaluations': total, 'distinct_nontrivial': res['_nontriv'], 'rule': RULE, 'agreeing': res['agreeing'],
            'samples': samples + raws[:2] + hists[:1], 'mismatches': res['mismatches'][:20], 'violations': res['violations'],
            'distribution': dist, 'exhaustive': False,
            'notes': [excl_note, 'external static cube %d cases' % len(scube), 'leaf cube %d cases (%d leaves x 6 slots x 8 helpers where the slot exists); a non-UTF-8 bytes leaf (outside the domain): %s' % (len(leaves), len(LEAF_POOL), dist['non_utf8_bytes']), 'corpus %d, helper cases %d, encoder/parser cases %d, override cube %d, twin histories %d, second-pass calls %d' % (len(corpus), done, len(raws), len(cube), len(hists), dist['second_pass_calls']),
                      'history clause: every history is run in sequence after one cache reset and call by call after a reset each; a shuffled sample of the helper calls of the run is repeated (quick: all; thorough: 12 000); results must be equal',
                      'each helper case runs the helper, its *_path/*_url sibling and (with _app_url) the call without _scheme/_host/_port on the real code'],
            'assumptions': [
                'Host / _host / _scheme / _port / _app_url values are the caller\'s and are generated well-formed (the helpers copy them verbatim)',
                'SCRIPT_NAME is empty or starts with "/" (PEP 3333); non-root resources have non-empty names; route patterns start with "/"',
                'leaf values reach the helpers as str, bytes (UTF-8), None, bool, int, float (incl. exponent forms, -0.0, inf, nan), Decimal, objects with __str__; the text the property speaks about is Python\'s own str(v), computed by the harness and handed to the model as data; `if anchor:` truthiness is Python\'s; a bytes *query value* is a sequence of ints for is_nonstr_iter and a non-UTF-8 bytes leaf is not text: both outside the domain (the latter is probed and reported)',
                'external static: urllib.parse.urljoin is modelled (reference resolution included); the oracle clause "registered base + quoted subpath" is stated for subpaths in normal form (no empty, ".", ".." segment, no leading "/") — the others are resolved by urljoin per RFC 3986 (a leading "//" even replaces the authority) and are covered by the correspondence only; registered base URLs are scheme://authority/dir/ without params, query, fragment'],
            'trusted_base': ['urllib.parse (urlsplit, parse_qsl, unquote, quote_from_bytes) and WebOb (host_url, application_url, script_name decoding, GET parsing) are modelled and tied by this correspondence run only',
                             'Python str(v) of every non-str leaf (int, bool, float, Decimal, None, custom __str__) and truthiness of the anchor are computed by the harness with the same interpreter and given to the model as text; dict / MultiDict item order',
                             'extract/c17.py (safe-set call sites) — its output is what the model quotes with; a wrong table shows as a correspondence mismatch']}


def leaf_cube():
    """small-scope exhaustive: every awkward leaf of LEAF_POOL in every slot (element, route value, query key, query
    value, member of a query sequence, anchor) of every helper that has the slot; query as pair list and as mapping"""
    env = {'scheme': 'http', 'host': 'example.com', 'server_name': 'localhost', 'server_port': '80', 'script_name': ''}
    routes = [{'name': 'r', 'pieces': [['l', '/p/'], ['p', 'x']]}]
    for helper in HELPERS:
        base = {'op': 'url', 'helper': helper, 'env': env, 'routes': routes, 'statics': [], 'elements': ['e'], 'kw': [['x', 'v']],
                'ovr': {'query': {'t': 'pairs', 'form': 'list', 'seq': 'list', 'v': [['k', 'v'], ['l', 'w']]}, 'anchor': 'a'}}
        if helper.startswith('route'):
            base['route'] = 'r'
        elif helper.startswith('current'):
            base['cur'] = {'matched': 'r', 'matchdict': [['x', 'm']], 'get': [], 'route_name': None}
        elif helper.startswith('resource'):
            base.update(resource=['n'], kw=[])
        else:
            base.update(statics=STATIC_SETS[0], path='c17pkg:static/a.css', elements=[], kw=[])
        for slot in SLOTS:
            if slot == 'element' and helper.startswith('static'):
                continue
            if slot == 'kw' and not (helper.startswith('route') or helper.startswith('current')):
                continue
            for i, leaf in enumerate(LEAF_POOL):
                if leaf is None and slot in ('qval', 'anchor'):
                    continue                # None there means "k=" / no anchor: covered by the other streams
                if isinstance(leaf, dict) and 'b' in leaf and slot in ('qval',):
                    continue                # a bytes *value* is a sequence of ints for is_nonstr_iter (outside the domain)
                c = set_slot(base, (slot, 0), leaf)
                if slot.startswith('q') and i % 2:
                    c['ovr']['query']['form'] = 'dict'
                yield c


def static_cube():
    """small-scope exhaustive: every external (URL-named) static registration of STATIC_SETS x every awkward first
    segment of SUB_SEGS (alone, and followed by a second segment) x static_url / static_path"""
    env = {'scheme': 'https', 'host': 'example.com', 'server_name': 'localhost', 'server_port': '443', 'script_name': ''}
    for st in STATIC_SETS:
        ext = [x for x in st if urlsplit(x['name'] if x['name'].endswith('/') else x['name'] + '/').netloc]
        if not ext:
            continue
        spec = ext[0]['spec'] if ext[0]['spec'].endswith('/') else ext[0]['spec'] + '/'
        for seg in SUB_SEGS:
            for sub in (seg, seg + '/é b.css'):
                for helper in ('static_url', 'static_path'):
                    yield {'op': 'url', 'helper': helper, 'env': env, 'routes': [], 'statics': st, 'path': spec + sub,
                           'ovr': {'query': {'t': 'str', 'v': 'v=1'}}}


NON_UTF8 = {'bx': 'ff41'}


def probe_non_utf8():
    """what the code does with a `bytes` leaf that is not UTF-8 (outside the domain: the property speaks of text)"""
    env = {'scheme': 'http', 'host': 'example.com', 'server_name': 'localhost', 'server_port': '80', 'script_name': ''}
    base = {'op': 'url', 'helper': 'route_url', 'env': env, 'routes': [{'name': 'r', 'pieces': [['l', '/p/'], ['p', 'x']]}], 'statics': [],
            'route': 'r', 'elements': ['e'], 'kw': [['x', 'v']],
            'ovr': {'query': {'t': 'pairs', 'form': 'list', 'seq': 'list', 'v': [['k', 'v'], ['l', 'w']]}, 'anchor': 'a'}}
    out = {}
    for slot in ('element', 'kw', 'qkey', 'qseq', 'anchor'):
        r = call_helper(set_slot(base, (slot, 0), NON_UTF8))
        out[slot] = r.get('err') or r['url']
    return out


def override_cube(small=False):
    """scheme x host x port x app_url overrides x Host header variants x helpers, with parts that need quoting"""
    schemes = [None, 'https', 'http'] + ([] if small else ['ftp'])
    hosts = [None, 'o.example', 'o.example:81'] + ([] if small else ['o.example:443', '[::1]:81'])
    ports = [None, '443', '80'] + ([] if small else ['8080', 8080, ''])
    apps = [None, 'https://app.example/base']
    envhosts = ['example.com', 'example.com:8080'] + ([None] if small else [None, 'example.com:443', 'example.com:80', '[::1]:8080', '[::1]'])
    envschemes = ['http'] if small else ['http', 'https']
    helpers = ['route_url', 'route_path'] if small else ['route_url', 'route_path', 'resource_url', 'resource_path', 'current_route_url', 'static_url', 'static_path']
    routes = [{'name': 'r', 'pieces': [['l', '/a b/'], ['p', 'x']]}]
    for es, eh, s, h, p, a, helper in itertools.product(envschemes, envhosts, schemes, hosts, ports, apps, helpers):
        ovr = {'query': {'t': 'pairs', 'form': 'list', 'seq': 'list', 'v': [['k k', 'v&w'], ['k k', None], ['l', ['1', 'é']]]}, 'anchor': 'an#c h'}
        for k, v in (('scheme', s), ('host', h), ('port', p), ('app_url', a)):
            if v is not None:
                ovr[k] = v
        case = {'op': 'url', 'helper': helper,
                'env': {'scheme': es, 'host': eh, 'server_name': 'srv.internal', 'server_port': '6543', 'script_name': '/scr ipt'},
                'routes': routes, 'statics': [], 'ovr': ovr}
        if helper.startswith('route'):
            case.update(route='r', elements=['e/1', 'é'], kw=[['x', 'v?1']])
        elif helper.startswith('current'):
            case.update(cur={'matched': 'r', 'matchdict': [['x', 'm 1']], 'get': [['g', '1 2']], 'route_name': None}, elements=['e/1'], kw=[])
        elif helper.startswith('resource'):
            case.update(resource=['a b', 'c'], elements=['e/1', 'é'])
        else:
            case.update(statics=STATIC_SETS[0], path='c17pkg:static/css/a b.css')
        yield case


def search(ctx):
    """after a proof / translator / correspondence break: look for an input on which the *implementation* violates the
    property — the corpus, the full override cube, a small-scope enumeration of parts that need quoting in every
    position of every helper, then the seeded random stream at thorough volume."""
    viol, n = [], 0

    def consider(case):
        nonlocal n
        n += 1
        if case.get('op') == 'history':
            problems, hist, fresh = history_problems(case)
            if problems:
                viol.append({'case': case, 'impl': {'in_sequence': hist, 'on_its_own': fresh},
                             'expected': 'the same result for the same call, whatever was called before', 'detail': '; '.join(problems)[:1500]})
        elif case.get('op', 'url') == 'url':
            problems, r = oracle(case)
            if problems and not classify(case, problems, r.get('url')):
                viol.append({'case': case, 'impl': impl_view(case), 'expected': 'no violated clause', 'detail': '; '.join(problems)})
        else:
            _, v = raw_check(case, None)
            if v:
                viol.append(v)
        return len(viol) >= 3

    def finish(exhaustive):
        return {'violations': shrink_violations(viol), 'searched': n, 'exhaustive': exhaustive}

    for _, c in ctx.corpus():
        if consider(c):
            return finish(False)
    # every part x every troublesome character, every helper
    chars = ['a', ' ', '/', '?', '#', '%', '&', '=', '+', ';', ':', '@', '~', 'é', '\n', '"', '<', '[', "'", '!', '$', '(', ')', '*', ',', '😀']
    base_env = {'scheme': 'http', 'host': 'example.com', 'server_name': 'localhost', 'server_port': '80', 'script_name': ''}
    routes = [{'name': 'r', 'pieces': [['l', '/p/'], ['p', 'x'], ['l', '/'], ['s', 'rest']]},
              {'name': 'n', 'pieces': [['l', '/n']]}]
    for ch in chars:
        t = 'a' + ch + 'b'
        for helper in HELPERS:
            variants = []
            if helper.startswith('route'):
                variants = [
                    dict(route='r', elements=[t, ch], kw=[['x', 'v'], ['rest', ['u']]], ovr={}),
                    dict(route='n', elements=[t], kw=[], ovr={}),
                    dict(route='r', elements=[], kw=[['x', t], ['rest', [t, 'w']]], ovr={}),
                    dict(route='r', elements=[], kw=[['x', 'v'], ['rest', t]], ovr={'query': {'t': 'pairs', 'form': 'list', 'v': [[t, t], [t, None], ['k', [t, ch]]]}}),
                    dict(route='r', elements=[], kw=[['x', 'v'], ['rest', []]], ovr={'query': {'t': 'str', 'v': t}, 'anchor': t}),
                    dict(route='n', elements=[], kw=[], ovr={'query': {'t': 'pairs', 'form': 'dict', 'v': [['a', []], [t, 'x']]}}),
                ]
            elif helper.startswith('current'):
                variants = [dict(cur={'matched': 'r', 'matchdict': [['x', t], ['rest', [t]]], 'get': [[t, t]], 'route_name': None}, elements=[t], kw=[], ovr={}),
                            dict(cur={'matched': 'r', 'matchdict': [['x', 'v'], ['rest', []]], 'get': [], 'route_name': 'n'}, elements=[], kw=[], ovr={'anchor': t})]
            elif helper.startswith('resource'):
                variants = [dict(resource=[t, 'c'], elements=[t, ch], ovr={'query': {'t': 'pairs', 'form': 'dict', 'v': [[t, t]]}, 'anchor': t}),
                            dict(resource=[], elements=[t], ovr={})]
            else:
                variants = [dict(statics=STATIC_SETS[0], path='c17pkg:static/' + t.replace('/', '_'), ovr={'query': {'t': 'str', 'v': t}}),
                            dict(statics=STATIC_SETS[2], path='c17pkg:cdn/' + t.replace('/', '_'), ovr={'anchor': t})]
            for v in variants:
                for script in ('', '/s' + ch.replace('/', '') + 't'):
                    case = {'op': 'url', 'helper': helper, 'env': dict(base_env, script_name=script), 'routes': routes, 'statics': []}
                    case.update(v)
                    if consider(case):
                        return finish(False)
        for op, safe in (('quote', ''), ('quote', '/'), ('quote', P_url.QUERY_SAFE), ('quote_plus', '')):
            if consider({'op': op, 's': t, 'safe': safe}):
                return finish(False)
        if consider({'op': 'urlencode', 'pairs': [[t, t], [t, None], [t, [t, ch]], [ch, []]]}):
            return finish(False)
    for case in itertools.chain(leaf_cube(), static_cube()):
        if consider(case):
            return finish(False)
    # twin histories: every group of equal-but-differently-printed values, both orders, in every slot kind
    tw_env = dict(base_env)
    tw_base = {'op': 'url', 'helper': 'route_path', 'env': tw_env, 'routes': routes, 'statics': [], 'route': 'r',
               'elements': ['e', 'f'], 'kw': [['x', 'v'], ['rest', ['u']]],
               'ovr': {'query': {'t': 'pairs', 'form': 'list', 'seq': 'list', 'v': [['k', 'v'], ['l', 'w']]}}}
    for group in TWINS:
        for a in group:
            for b in group:
                if a is b:
                    continue
                for slot in (('element', 0), ('element', 1), ('kw', 0), ('qval', 0), ('qseq', 1), ('qkey', 0)):
                    if slot[0] in ('qval', 'qseq') and any(isinstance(g, dict) and 'b' in g for g in (a, b)):
                        continue
                    for helper in ('route_path', 'route_url', 'resource_url', 'current_route_path'):
                        if helper.startswith('resource') and slot[0] == 'kw':
                            continue
                        base = dict(tw_base, helper=helper)
                        if helper.startswith('resource'):
                            base = dict(base, resource=['n'])
                        if helper.startswith('current'):
                            base = dict(base, cur={'matched': 'r', 'matchdict': [['x', 'm'], ['rest', []]], 'get': [], 'route_name': None})
                        if consider({'op': 'history', 'calls': [set_slot(base, slot, a), set_slot(base, slot, b)]}):
                            return finish(False)
    for case in override_cube(small=False):
        if consider(case):
            return finish(False)
        if ctx.time_left() < 200:
            return finish(False)
    rng = ctx.rng
    for i in range(40000):
        if consider(gen_history(rng) if i % 10 == 0 else gen_case(rng) if i % 3 else gen_raw(rng)):
            return finish(False)
        if ctx.time_left() < 60:
            break
    return finish(False)


def replay(ctx, rep):
    case = rep.get('case')
    if case is None:
        return {'violates': False, 'note': 'replay names broken obligations only', 'broken': rep.get('broken_obligations')}
    if case.get('op') == 'history':
        mos = ctx.run_model([to_model(c) for c in case['calls']]) if ctx.driver_path else None
        m, v = history_check(case, mos)
        problems, hist, fresh = history_problems(case)
        return {'case': case, 'impl': {'in_sequence': hist, 'on_its_own': fresh},
                'model': None if mos is None else [{k: model_view(mo).get(k) for k in ('url', 'err')} for mo in mos],
                'violated_clauses': problems, 'mismatch': m, 'violates': bool(problems)}
    mo = ctx.run_model([to_model(case)])[0] if ctx.driver_path else None
    if case.get('op', 'url') == 'url':
        problems, r = oracle(case)
        m, v = check_case(case, mo)
        return {'case': case, 'impl': impl_view(case), 'model': model_view(mo) if mo is not None else None,
                'violated_clauses': problems, 'finding': classify(case, problems, r.get('url')) if problems else None,
                'mismatch': m, 'violates': bool(problems)}
    m, v = raw_check(case, mo)
    return {'case': case, 'impl': raw_impl(case), 'model': raw_model(case, mo) if mo is not None else None,
            'mismatch': m, 'violates': bool(v)}
