"""C13 — request handling restores the thread-local stack and runs callbacks on every path.

Three things are executed here against the real code (ctx.src), in-process:

 * pipeline cases: a fault-injection application whose every hook (tween over / under the exception-view tween,
   NewRequest / BeforeTraversal / ContextFound / NewResponse subscribers, route predicate, route factory, root
   factory, traverser, view predicate, security policy, view body, renderer, response and finished callbacks,
   exception view) logs (current request is self?, len(manager.stack)), registers the callbacks scheduled for its
   stage and then fails as the schedule says; view bodies issue nested subrequests and explicit
   request.invoke_exception_view calls.  The ordered per-request event log, the outcome and the stack depth are
   compared with lean/PyramidModel/Pipeline.lean (driver) and judged by a Python oracle that states the property.
 * scope cases: Configurator.begin/end, commit, include, action(autocommit), `with Configurator()`,
   route_prefix_context, make_wsgi_app, scripting.prepare / get_root / closer / `with prepare()`, RequestContext,
   request.invoke_exception_view with failing user hooks: the visited hook sites with their depths, the outcome and
   the final depth are compared with `exec` of the generated skeleton (Gen/C13Skeleton.lean), and judged by the
   balance oracle.  The same comparison is made for every request of every pipeline case (Router.__call__ /
   invoke_subrequest: chain, response callbacks, NewResponse, finished callbacks).

The skeleton comparison does not depend on names or shapes of the source: a hook finds the call site it runs under
by walking the Python stack and looking the current instruction's source position up in the translator's location
table (`site_here`); the branch/loop decisions of the oracle are not written down here but searched for
(`find_oracle`: is there an oracle under which `exec` visits the instrumented sites as the real run did and ends the
same way?) and the proposed oracle is then run by the Lean `exec`, whose trace is what is compared.
"""
import json, os, sys, itertools

import vfutil

from pyramid.config import Configurator
from pyramid.events import NewRequest, BeforeTraversal, ContextFound, NewResponse, ApplicationCreated
from pyramid.httpexceptions import HTTPBadRequest, HTTPException
from pyramid.request import Request, RequestLocalCache
import weakref
from pyramid.response import Response
from pyramid.threadlocal import manager, get_current_request, get_current_registry
from pyramid.tweens import EXCVIEW
from pyramid.security import Allowed, Denied

MOD = __name__

POINTS = ['tweenOverIn', 'tweenUnderIn', 'newRequest', 'routePred', 'beforeTraversal', 'routeFactory', 'rootFactory',
          'traverser', 'contextFound', 'viewPred', 'perm', 'viewBody', 'renderer', 'tweenUnderOut', 'excView',
          'tweenOverOut', 'newResponse']
SOFT_POINTS = ('routePred', 'viewPred', 'perm')
KINDS = ['plain', 'http', 'soft']


class Boom(Exception):
    pass


# ---- which call site of the translated skeletons is executing?  (by source position, not by name) -----------
_LOC = {'pkg': None, 'map': {}}
_POS = {}


def set_locator(src, locs):
    """locs: site id -> "file:line:col:endline:endcol[@<position of the helper call it was inlined at>…]" as emitted by
    extract/c13.py for the tree under test"""
    _LOC['pkg'] = os.path.join(os.path.realpath(src), 'pyramid') + os.sep
    m = {}
    for i, l in enumerate(locs):
        if l and l != '-':
            parts = l.split('@')
            m.setdefault(parts[0], []).append((tuple(parts[1:]), i))
    _LOC['map'] = m


def site_here():
    """site id of the innermost call expression of a translated function that is on the Python stack right now:
    walks the frames outwards and looks the position of each frame's current instruction up in the translator's
    location table (frames of code that is not translated are skipped); a site inside a helper that the translator
    inlined at several call sites is told apart by the positions of the calling frames"""
    pkg, m = _LOC['pkg'], _LOC['map']
    if not pkg:
        return None
    chain = []          # positions of the current instruction of every frame of the package, innermost first
    f = sys._getframe(1)
    while f is not None:
        code = f.f_code
        fn = code.co_filename
        if fn.startswith(pkg) or os.path.realpath(fn).startswith(pkg):
            pos = _POS.get(code)
            if pos is None:
                pos = _POS[code] = list(code.co_positions())
            i = f.f_lasti // 2
            if 0 <= i < len(pos):
                l, el, c, ec = pos[i]
                chain.append('%s:%s:%s:%s:%s' % (os.path.realpath(fn)[len(pkg):], l, c, el, ec))
        f = f.f_back
    for j, key in enumerate(chain):
        cands = m.get(key)
        if not cands:
            continue
        for ctx, s in sorted(cands, key=lambda x: -len(x[0])):
            if tuple(chain[j + 1:j + 1 + len(ctx)]) == ctx:
                return s
    return None


def eff_kind(point, kind):
    """`soft` (predicate says no / permission denied) only exists at the three predicate points"""
    if kind == 'soft' and point not in SOFT_POINTS:
        return 'http'
    return kind


def fault_of(spec, point):
    for p, k in spec.get('faults', []):
        if p == point:
            return eff_kind(point, k)
    return None


def throw(kind):
    if kind == 'plain':
        raise Boom('injected')
    raise HTTPBadRequest('injected')


def cur_ok(request):
    """the top of the thread-local stack IS this request and its registry (identity, not depth)"""
    return get_current_request() is request and get_current_registry() is getattr(request, 'registry', None)


class ReqState:
    """per-request observation record, carried in environ['c13']"""

    def __init__(self, spec, base):
        self.spec, self.base = spec, base
        self.own, self.kids = [], []
        self.out, self.depth_after = None, None
        self.xv = False    # the application serving this request has the custom exception view
        self.request = None
        self.sk = []       # [kind, site id, depth, raised] of the events the skeleton comparison looks at

    def rel(self):
        return len(manager.stack)

    def register_for(self, request, stage):
        """the registrations scheduled for `stage` (a hook point, or "cb:<id>" = while callback <id> runs)"""
        for i, reg in enumerate(self.spec.get('regs', [])):
            if reg[0] != stage:
                continue
            kind = reg[1]
            self.own.append(['reg', kind, i])
            if kind == 'resp':
                request.add_response_callback(self.make_resp_cb(i))
            elif len(reg) > 3 and reg[3] == 'cache' and request not in CACHE._store:
                # through pyramid's RequestLocalCache: the first set() of a request registers the cache's own
                # clean-up (`self._store.pop`) as a finished callback; LoggingStore.pop reports when it runs
                CACHE.set(request, i)
            else:
                request.add_finished_callback(self.make_fin_cb(i))

    def hook(self, request, point):
        """returns True when the hook must answer `no` (soft), raises when the schedule says so"""
        self.request = request
        self.own.append(['hook', point, cur_ok(request), self.rel()])
        if point in ('newResponse', 'excView'):
            self.sk.append(['new' if point == 'newResponse' else 'excView', site_here(), self.rel(), fault_of(self.spec, point) is not None])
        self.register_for(request, point)
        k = fault_of(self.spec, point)
        if k == 'soft':
            return True
        if k is not None:
            throw(k)
        return False

    def ran(self, request, kind, i):
        """callback i runs: log, register what it registers, then fail as scheduled"""
        self.own.append(['cb', kind, i, cur_ok(request), self.rel()])
        f = self.spec['regs'][i][2]
        self.sk.append([kind, site_here(), self.rel(), f is not None])
        self.register_for(request, 'cb:%d' % i)
        if f is not None:
            throw(eff_kind('cb', f))

    def make_resp_cb(self, i):
        def cb(request, response):
            self.ran(request, 'resp', i)
        return cb

    def make_fin_cb(self, i):
        def cb(request):
            self.ran(request, 'fin', i)
        return cb

    def chain(self, ok):
        self.own.append(['chain', ok])
        self.sk.append(['chain', site_here(), None, not ok])

    def sk_tree(self):
        return {'sk': self.sk, 'kids': [k.sk_tree() for k in self.kids]}

    def left(self):
        """what is still in the request's deques"""
        if getattr(self, 'frozen_left', None) is not None:
            return self.frozen_left
        r = self.request
        if r is None:
            return [0, 0]
        return [len(r.response_callbacks), len(r.finished_callbacks)]

    def tree(self):
        return {'left': self.left(), 'own': self.own, 'out': self.out, 'depth': self.depth_after, 'kids': [k.tree() for k in self.kids]}


def st_of(request):
    return request.environ['c13']


class LoggingStore(weakref.WeakKeyDictionary):
    """the store of the RequestLocalCache below: `pop` is what the cache registers as its finished callback"""

    def pop(self, request, *default):
        i = weakref.WeakKeyDictionary.pop(self, request, *default)
        if isinstance(i, int):
            st_of(request).ran(request, 'fin', i)
        return i


CACHE = RequestLocalCache()
CACHE._store = LoggingStore()


def classify_exc(e):
    if isinstance(e, Boom):
        return 'plain'
    if isinstance(e, HTTPException):
        return 'http'
    return 'other:' + type(e).__name__


# ---- the application ---------------------------------------------------------------------------------------

def probe_tween_factory(handler, registry):
    def probe(request):
        st_of(request).request = request
        try:
            r = handler(request)
        except BaseException:
            st_of(request).chain(False)
            raise
        st_of(request).chain(True)
        return r
    return probe


def tween_over_factory(handler, registry):
    def tween_over(request):
        st_of(request).hook(request, 'tweenOverIn')
        txo = request.environ.get('c13.tween_xo')
        if txo is not None:
            scope_explicit(request, st_of(request), txo[0], txo[1], txo[2])
        r = handler(request)
        st_of(request).hook(request, 'tweenOverOut')
        return r
    return tween_over


def tween_under_factory(handler, registry):
    def tween_under(request):
        st_of(request).hook(request, 'tweenUnderIn')
        r = handler(request)
        st_of(request).hook(request, 'tweenUnderOut')
        return r
    return tween_under


class Root:
    pass


ROOT = Root()


def root_factory(request):
    st_of(request).hook(request, 'rootFactory')
    return ROOT


def route_factory(request):
    st_of(request).hook(request, 'routeFactory')
    return ROOT


class Traverser:
    def __init__(self, root):
        self.root = root

    def __call__(self, request):
        st_of(request).hook(request, 'traverser')
        return {'context': self.root, 'view_name': '', 'subpath': (), 'traversed': (), 'virtual_root': self.root,
                'virtual_root_path': (), 'root': self.root}


class RoutePred:
    def __init__(self, val, info):
        pass

    def text(self):
        return 'c13rp'
    phash = text

    def __call__(self, info, request):
        return not st_of(request).hook(request, 'routePred')


class ViewPred:
    def __init__(self, val, info):
        pass

    def text(self):
        return 'c13vp'
    phash = text

    def __call__(self, context, request):
        return not st_of(request).hook(request, 'viewPred')


class Policy:
    def identity(self, request):
        return None

    def authenticated_userid(self, request):
        return None

    def permits(self, request, context, permission):
        if st_of(request).hook(request, 'perm'):
            return Denied('injected')
        return Allowed('ok')

    def remember(self, request, userid, **kw):
        return []

    def forget(self, request, **kw):
        return []


class RendererFactory:
    def __init__(self, info):
        pass

    def __call__(self, value, system):
        request = system['request']
        st_of(request).hook(request, 'renderer')
        return 'ok'


def the_view(request):
    st = st_of(request)
    st.hook(request, 'viewBody')
    if request.environ.get('c13.scope') is not None:
        request.environ['c13.scope']()
    xx = st.spec.get('xx')
    if xx is not None:
        try:
            throw(eff_kind('xx', xx))
        except Exception:
            try:
                request.invoke_exception_view(sys.exc_info())
            finally:
                st.own.append(['resume', cur_ok(request), st.rel()])
    for i, child in enumerate(st.spec.get('subs', [])):
        st.own.append(['sub', i])
        sub = Request.blank('/r' if child.get('route') else '/')
        kid = ReqState(child, st.base)
        kid.xv = st.xv
        st.kids.append(kid)
        sub.environ['c13'] = kid
        try:
            try:
                request.invoke_subrequest(sub, use_tweens=bool(child.get('tw')))
                kid.out = 'resp'
            except Exception as e:
                kid.out = classify_exc(e)
                raise
        finally:
            kid.depth_after = st.rel()
            st.own.append(['resume', cur_ok(request), st.rel()])
    xo = st.spec.get('xo')
    if xo is not None:
        explicit_other(request, st, xo)
    return {}


def other_request(request, st, other_registry):
    """another request for invoke_exception_view(request=…): same registry, or the registry of the other application"""
    tgt = Request.blank('/other')
    tgt.registry = make_app(not st.xv).registry if other_registry else request.registry
    return tgt


def explicit_other(request, st, xo):
    """request.invoke_exception_view(exc_info, request=other) from code serving `request`; the exception view's
    observations go to `other`'s own record (a kid of `st`)"""
    kind, fault, other_registry = xo
    st.own.append(['sub', 1000])
    tgt = other_request(request, st, other_registry)
    kid = ReqState({'faults': [['excView', fault]] if fault else [], 'regs': []}, st.base)
    kid.xv = (not st.xv) if other_registry else st.xv
    st.kids.append(kid)
    tgt.environ['c13'] = kid
    try:
        try:
            throw(eff_kind('xx', kind))
        except Exception:
            try:
                request.invoke_exception_view(sys.exc_info(), request=tgt)
                kid.out = 'resp'
            except Exception as e:
                kid.out = classify_exc(e)
                raise
    finally:
        kid.depth_after = st.rel()
        st.own.append(['resume', cur_ok(request), st.rel()])


def exc_view(exc, request):
    st_of(request).hook(request, 'excView')
    return Response('handled')


def sub_new_request(event):
    st_of(event.request).hook(event.request, 'newRequest')


def sub_before_traversal(event):
    st_of(event.request).hook(event.request, 'beforeTraversal')


def sub_context_found(event):
    st_of(event.request).hook(event.request, 'contextFound')


def sub_new_response(event):
    st_of(event.request).hook(event.request, 'newResponse')


_APPS = {}


def simple_policy(environ, router):
    """the example of the IExecutionPolicy docstring (what escapes the pipeline is rendered once more by the policy);
    the observations of that second rendering go to a record of their own"""
    with router.request_context(environ) as request:
        try:
            return router.invoke_request(request)
        except Exception as exc:
            main = environ['c13']
            main.escaped = classify_exc(exc)          # what came out of the pipeline, before the policy renders it
            main.frozen_left = main.left()
            post = ReqState(main.spec, main.base)
            post.xv = main.xv
            environ['c13.post'] = post
            environ['c13'] = post
            try:
                return request.invoke_exception_view(reraise=True)
            finally:
                post.depth_after = len(manager.stack)


def retry_policy(environ, router):
    """pyramid_retry style: a fresh request per attempt over the same environ; a marked (plain) exception is retried
    while attempts are left"""
    states = environ['c13.states']
    for i, st in enumerate(states):
        environ['c13'] = st
        environ['c13.attempts'] = i + 1
        with router.request_context(environ) as request:
            try:
                return router.invoke_request(request)
            except Boom:
                if i + 1 == len(states):
                    raise


POLICIES = {'simple': simple_policy, 'retry': retry_policy}


def make_app(xv, policy='default'):
    key = xv if policy == 'default' else (xv, policy)
    if key in _APPS:
        return _APPS[key]
    config = Configurator(root_factory=root_factory)
    if policy != 'default':
        config.set_execution_policy(POLICIES[policy])
    config.set_security_policy(Policy())
    config.add_tween(MOD + '.tween_over_factory', over=EXCVIEW)
    config.add_tween(MOD + '.probe_tween_factory', over=[MOD + '.tween_over_factory', EXCVIEW])
    config.add_tween(MOD + '.tween_under_factory', under=EXCVIEW)
    config.add_subscriber(sub_new_request, NewRequest)
    config.add_subscriber(sub_before_traversal, BeforeTraversal)
    config.add_subscriber(sub_context_found, ContextFound)
    config.add_subscriber(sub_new_response, NewResponse)
    config.add_route_predicate('c13rp', RoutePred)
    config.add_view_predicate('c13vp', ViewPred)
    config.add_route('r', '/r', c13rp=1, factory=route_factory)
    config.add_traverser(Traverser)
    config.add_renderer('c13r', RendererFactory)
    config.add_view(the_view, renderer='c13r', permission='p', c13vp=1)
    config.add_view(the_view, route_name='r', renderer='c13r', permission='p', c13vp=1)
    if xv:
        config.add_exception_view(exc_view, context=Exception)
        config.add_exception_view(exc_view, context=HTTPException)
    app = config.make_wsgi_app()
    # subrequests issued with use_tweens=False bypass the tween chain: observe the same marker around the main handler
    inner = app.orig_handle_request

    def probed(request):
        st_of(request).request = request
        try:
            r = inner(request)
        except BaseException:
            st_of(request).chain(False)
            raise
        st_of(request).chain(True)
        return r
    app.orig_handle_request = probed
    _APPS[key] = app
    return app


LAST_SK = [None]


def run_pipeline(case):
    """one WSGI call of the fault-injection application; returns the observation tree"""
    app = make_app(bool(case.get('xv')))
    pre = int(case.get('base', 0))
    del manager.stack[:]
    for _ in range(pre):
        manager.push({'request': None, 'registry': app.registry})
    base = len(manager.stack)
    spec = case['req']
    st = ReqState(spec, base)
    st.xv = bool(case.get('xv'))
    environ = Request.blank('/r' if spec.get('route') else '/').environ
    environ['c13'] = st
    status = []
    try:
        try:
            body = app(environ, lambda s, h, e=None: status.append(s))
            list(body)
            st.out = 'resp'
        except Exception as e:
            st.out = classify_exc(e)
    finally:
        st.depth_after = len(manager.stack)
        del manager.stack[:]
    LAST_SK[0] = st.sk_tree()
    return st.tree()


def run_policy(case):
    """one WSGI call through the real Router.__call__ of an application with a CUSTOM execution policy; returns
    {'attempts': [tree per attempt], 'post': tree of the policy's own exception-view call | None, 'out', 'depth'}"""
    app = make_app(bool(case.get('xv')), case['policy'])
    del manager.stack[:]
    for _ in range(int(case.get('base', 0))):
        manager.push({'request': None, 'registry': app.registry})
    base = len(manager.stack)
    states = []
    for spec in case['reqs']:
        st = ReqState(spec, base)
        st.xv = bool(case.get('xv'))
        states.append(st)
    environ = Request.blank('/r' if case['reqs'][0].get('route') else '/').environ
    environ['c13'] = states[0]
    environ['c13.states'] = states
    out = None
    try:
        try:
            list(app(environ, lambda s, h, e=None: None))
            out = 'resp'
        except Exception as e:
            out = classify_exc(e)
    finally:
        depth = len(manager.stack)
        del manager.stack[:]
    n = environ.get('c13.attempts', 1)
    post = environ.get('c13.post')
    trees = []
    for i, st in enumerate(states[:n]):
        # an attempt's own outcome: the last one has the call's (before the policy's post-processing), earlier ones were retried
        st.depth_after = depth
        st.out = 'plain' if i + 1 < n else (getattr(st, 'escaped', None) or out)
        trees.append(st.tree())
    ptree = None
    if post is not None:
        post.out = out
        post.depth_after = depth
        ptree = post.tree()
        # what the policy's exception view registered stays in the deques (finish_request is over)
        ptree['left'] = [sum(1 for e in post.own if e[0] == 'reg' and e[1] == k) for k in ('resp', 'fin')]
    return {'attempts': trees, 'post': ptree, 'out': out, 'depth': depth}


def policy_wf(case):
    try:
        if case.get('policy') not in POLICIES or not isinstance(case.get('reqs'), list):
            return False
        n = len(case['reqs'])
        if not ((case['policy'] == 'simple' and n == 1) or (case['policy'] == 'retry' and 1 <= n <= 3)):
            return False
        return all(pipeline_wf({'base': case.get('base', 0), 'req': r}) for r in case['reqs'])
    except Exception:
        return False


def policy_model_line(case):
    return {'op': 'policy', 'policy': case['policy'], 'xv': bool(case.get('xv')), 'base': int(case.get('base', 0)),
            # every attempt is made over the same environ: the path (route or traversal) is that of the first
            'reqs': [dict(norm_req(r), route=bool(case['reqs'][0].get('route'))) for r in case['reqs']]}


def check_policy(case, obs):
    """the property under a custom execution policy: every attempt is a request of its own — finished callbacks of
    every attempt run once, in order, after everything else of that attempt; stack balanced; current request identity"""
    bad = []
    base = int(case.get('base', 0))
    for i, (spec, node) in enumerate(zip(case['reqs'], obs['attempts'])):
        bad += check_node(spec, node, base, 'attempt%d' % i)
    if obs['depth'] != base:
        bad.append('policy %s: stack depth %s after the WSGI call, %s before' % (case['policy'], obs['depth'], base))
    if obs.get('post'):
        for e in obs['post']['own']:
            if e[0] == 'hook' and e[1] == 'excView' and not e[2]:
                bad.append('policy %s: inside the exception view the policy renders, the current request is not the request' % case['policy'])
    return bad


def policy_cases():
    """the execution-policy dimension of the cube: docstring policy and retrying policy x exception view x where the
    attempt fails (nowhere, view, renderer, NewResponse, a response callback, tween over) x kind, callbacks registered
    at six stages and by callbacks"""
    out = []
    regs = [list(r) for r in STD_REGS] + [['cb:0', 'fin', None], ['cb:2', 'resp', None]]
    injs = [[]] + [[[p, k]] for p in ('viewBody', 'renderer', 'newResponse', 'tweenOverOut', 'excView') for k in ('plain', 'http')]
    for xv in (False, True):
        for inj in injs:
            req = {'tw': True, 'route': False, 'faults': inj, 'regs': [list(r) for r in regs], 'xx': None, 'xo': None, 'subs': []}
            out.append({'kind': 'policy', 'policy': 'simple', 'xv': xv, 'base': 0, 'reqs': [req]})
            ok = {'tw': True, 'route': True, 'faults': [], 'regs': [list(r) for r in regs], 'xx': None, 'xo': None,
                  'subs': [{'tw': False, 'route': False, 'faults': [], 'regs': [['viewBody', 'fin', None]], 'xx': None, 'xo': None, 'subs': []}]}
            out.append({'kind': 'policy', 'policy': 'retry', 'xv': xv, 'base': 1, 'reqs': [req, dict(req), ok]})
            out.append({'kind': 'policy', 'policy': 'retry', 'xv': xv, 'base': 0, 'reqs': [req]})
        cbf = {'tw': True, 'route': False, 'faults': [], 'regs': [['viewBody', 'resp', 'plain'], ['viewBody', 'fin', None], ['cb:1', 'fin', None]],
               'xx': None, 'xo': None, 'subs': []}
        out.append({'kind': 'policy', 'policy': 'simple', 'xv': xv, 'base': 0, 'reqs': [cbf]})
        out.append({'kind': 'policy', 'policy': 'retry', 'xv': xv, 'base': 0, 'reqs': [cbf, cbf]})
    return out


def gen_policy(rng):
    pol = rng.choice(['simple', 'retry'])
    n = 1 if pol == 'simple' else rng.choice([1, 2, 3])
    return {'kind': 'policy', 'policy': pol, 'xv': rng.random() < 0.6, 'base': rng.choice([0, 0, 1]),
            'reqs': [gen_req(rng, rng.choice([0, 0, 1]), top=True) for _ in range(n)]}


# ---- the property, stated on the observation tree (independent of the Lean build) ---------------------------

def reg_fault(spec, i):
    regs = spec.get('regs', [])
    if 0 <= i < len(regs) and regs[i][2] is not None:
        return True
    return False


def check_node(spec, node, depth_before, where='top'):
    """list of property violations of one request (and, recursively, of its subrequests)"""
    bad = []
    own = node['own']
    # balance: the stack is back to its previous depth when the call ends
    if node['depth'] != depth_before:
        bad.append('%s: stack depth %s after the call, %s before' % (where, node['depth'], depth_before))
    # while the view (or exception view) runs the current request is that request
    for e in own:
        if (e[0] == 'hook' and e[1] in ('viewBody', 'excView') and not e[2]) or (e[0] == 'resume' and not e[1]):
            bad.append('%s: current request is not the request being served at %s' % (where, e[:2]))
    # finished callbacks: each registered one (by a hook, by a response callback, or by a finished callback while the
    # deque is drained) exactly once, in registration order, after everything else; nothing left in the deque
    fins = [e[2] for e in own if e[0] == 'cb' and e[1] == 'fin']
    regs_fin = [e[2] for e in own if e[0] == 'reg' and e[1] == 'fin']
    first_fin = next((i for i, e in enumerate(own) if e[0] == 'cb' and e[1] == 'fin'), len(own))
    if any(not ((e[0] == 'cb' and e[1] == 'fin') or e[0] == 'reg') for e in own[first_fin:]):
        bad.append('%s: something other than finished callbacks (and what they register) runs after a finished callback' % where)
    if any(reg_fault(spec, i) for i in fins):
        pass        # a failing finished callback is outside the statement's fault list: nothing is demanded of the rest
    elif fins != regs_fin:
        bad.append('%s: finished callbacks ran %s, registered %s' % (where, fins, regs_fin))
    elif node.get('left', [0, 0])[1] != 0:
        bad.append('%s: %d finished callback(s) left in the deque' % (where, node['left'][1]))
    # response callbacks, then NewResponse, exactly when a response came out of the tween chain
    marks = [i for i, e in enumerate(own) if e[0] == 'chain']
    if len(marks) != 1:
        bad.append('%s: %d chain markers' % (where, len(marks)))
    else:
        k = marks[0]
        pre, post = own[:k], own[k + 1:]
        isresp = lambda e: (e[0] == 'cb' and e[1] == 'resp') or (e[0] == 'hook' and e[1] == 'newResponse')
        if any(isresp(e) for e in pre):
            bad.append('%s: response callback / NewResponse before the tween chain ended' % where)
        got = [('cb', e[2]) if e[0] == 'cb' else ('new',) for e in post if isresp(e)]
        if not own[k][1]:
            if got:
                bad.append('%s: response callbacks / NewResponse although no response came out of the tween chain' % where)
        else:
            # the phase ends with NewResponse, with a failing response callback, or with the first finished callback;
            # response callbacks registered before that (also by response callbacks of this pass) are owed a run
            end = next((i for i, e in enumerate(post)
                        if (e[0] == 'hook' and e[1] == 'newResponse') or (e[0] == 'cb' and e[1] == 'fin')
                        or (e[0] == 'cb' and e[1] == 'resp' and reg_fault(spec, e[2]))), len(post))
            regs_resp = [e[2] for e in pre + post[:end] if e[0] == 'reg' and e[1] == 'resp']
            exp = []
            for i in regs_resp:
                exp.append(('cb', i))
                if reg_fault(spec, i):
                    break
            else:
                exp.append(('new',))
            if got != exp:
                bad.append('%s: after a response left the tween chain expected %s, observed %s' % (where, exp, got))
    # subrequests
    subs = spec.get('subs', [])
    d_view = next((e[3] for e in own if e[0] == 'hook' and e[1] == 'viewBody'), None)
    for i, kid in enumerate(node['kids']):
        if i < len(subs):
            bad += check_node(subs[i], kid, d_view, '%s.sub%d' % (where, i))
        else:
            # the request handed to invoke_exception_view(request=…): it must be the current one in its exception view
            if kid['depth'] != d_view:
                bad.append('%s.other: stack depth %s after invoke_exception_view(request=other), %s before' % (where, kid['depth'], d_view))
            for e in kid['own']:
                if e[0] == 'hook' and e[1] == 'excView' and not e[2]:
                    bad.append('%s.other: inside the exception view the current request/registry is not the request being rendered' % where)
    return bad


def pipeline_wf(case):
    def req_ok(r, top):
        if not isinstance(r, dict):
            return False
        for f in r.get('faults', []):
            if not (isinstance(f, list) and len(f) == 2 and f[0] in POINTS and f[1] in KINDS):
                return False
        for gi, g in enumerate(r.get('regs', [])):
            if not (isinstance(g, list) and len(g) in (3, 4) and isinstance(g[0], str) and g[1] in ('resp', 'fin')
                    and (g[2] is None or g[2] in KINDS)):
                return False
            if g[0] not in POINTS:
                # registered by callback <parent> while it runs; parents come first (no cycles)
                if not (g[0].startswith('cb:') and g[0][3:].isdigit() and int(g[0][3:]) < gi):
                    return False
            if len(g) == 4 and not (g[3] == 'cache' and g[1] == 'fin' and g[2] is None):
                return False
        if r.get('xx') is not None and r.get('xx') not in KINDS:
            return False
        xo = r.get('xo')
        if xo is not None and not (isinstance(xo, list) and len(xo) == 3 and xo[0] in KINDS and (xo[1] is None or xo[1] in KINDS)
                                   and isinstance(xo[2], bool)):
            return False
        if not isinstance(r.get('subs', []), list):
            return False
        return all(req_ok(s, False) for s in r.get('subs', []))
    try:
        return isinstance(case.get('base', 0), int) and 0 <= case.get('base', 0) <= 4 and req_ok(case['req'], True)
    except Exception:
        return False


def norm_req(r, top=True):
    return {'tw': True if top else bool(r.get('tw')), 'route': bool(r.get('route')),
            'faults': [list(f) for f in r.get('faults', [])],
            'regs': [[(['cb', int(g[0][3:])] if g[0].startswith('cb:') else g[0]), g[1], g[2]] for g in r.get('regs', [])],
            'xx': r.get('xx'), 'xo': r.get('xo'), 'subs': [norm_req(s, False) for s in r.get('subs', [])]}


def model_line(case):
    return {'op': 'pipeline', 'xv': bool(case.get('xv')), 'base': int(case.get('base', 0)), 'req': norm_req(case['req'])}


def gen_req(rng, depth, top=False):
    r = {'tw': True if top else rng.random() < 0.5, 'route': rng.random() < 0.4}
    nf = rng.choice([0, 1, 1, 1, 2, 2, 3])
    faults = []
    for _ in range(nf):
        p = rng.choice(POINTS)
        k = rng.choice(KINDS) if p in SOFT_POINTS else rng.choice(['plain', 'plain', 'http', 'soft'])
        faults.append([p, k])
    r['faults'] = faults
    regs = []
    for _ in range(rng.choice([0, 1, 2, 2, 3, 4, 5])):
        regs.append([rng.choice(POINTS), rng.choice(['resp', 'fin', 'fin']),
                     None if rng.random() < 0.8 else rng.choice(['plain', 'http'])])
    # callbacks that register callbacks while they run (two levels), also through RequestLocalCache
    for _level in (1, 2):
        for pi in range(len(regs)):
            if rng.random() < 0.15 and len(regs) < 9:
                reg = ['cb:%d' % pi, rng.choice(['resp', 'fin', 'fin']), None if rng.random() < 0.85 else rng.choice(['plain', 'http'])]
                if reg[1] == 'fin' and reg[2] is None and rng.random() < 0.3:
                    reg.append('cache')
                regs.append(reg)
    if regs and rng.random() < 0.1:
        j = rng.randrange(len(regs))
        if regs[j][1] == 'fin' and regs[j][2] is None and len(regs[j]) == 3:
            regs[j].append('cache')
    r['regs'] = regs
    r['xx'] = None if rng.random() < 0.75 else rng.choice(['plain', 'http'])
    r['xo'] = None if rng.random() < 0.8 else [rng.choice(['plain', 'http']), rng.choice([None, None, 'plain', 'http']), rng.random() < 0.3]
    subs = []
    if depth > 0:
        for _ in range(rng.choice([0, 0, 1, 1, 2])):
            subs.append(gen_req(rng, depth - 1))
    r['subs'] = subs
    return r


def gen_pipeline(rng):
    return {'kind': 'pipeline', 'xv': rng.random() < 0.6, 'base': rng.choice([0, 0, 1, 2]),
            'req': gen_req(rng, rng.choice([0, 1, 1, 2, 2, 3]), top=True)}


def walk_reqs(r):
    yield r
    for s in r.get('subs', []):
        yield from walk_reqs(s)


# ---- scope cases: the real entry points against `exec` of the generated skeletons ---------------------------

_PROBE = [None]


class Probe:
    """collects (label, stack depth, raised) of every instrumented user hook of a scope scenario"""

    def __init__(self, fail):
        self.fail = set(fail)
        self.visits = []
        self.expect = None       # the registry of the scope the hooks run in (identity)
        self.regok = []          # per hook: get_current_registry() IS that registry

    def visit(self, label):
        bad = label in self.fail
        self.visits.append([label, len(manager.stack), bad, site_here()])
        if self.expect is not None and not label.startswith('mkreq'):
            self.regok.append([label, get_current_registry() is self.expect])
        if bad:
            raise Boom(label)


def visit(label):
    _PROBE[0].visit(label)


def scope_config(**kw):
    """a NEW application's configurator (fresh registry — its dict contents equal those of any other registry); the
    hooks of the scope it opens must see exactly this registry as the current one"""
    c = Configurator(**kw)
    _PROBE[0].expect = c.registry
    return c


def inc_target(config):
    visit('inc')


class ExtProbe:
    __name__ = 'c13ext'

    def __get__(self, obj, cls):
        visit('ext')
        return lambda: None


class ProbeRequest(Request):
    @classmethod
    def blank(cls, *a, **kw):
        visit('mkreq')
        return super().blank(*a, **kw)


def probe_root_factory(request):
    visit('root')
    return ROOT


def _script_config():
    config = Configurator(root_factory=probe_root_factory)
    config.set_request_factory(ProbeRequest)
    config.add_request_method(ExtProbe(), 'c13ext')
    config.commit()
    return config


# scenario -> (skeleton entry, {label: name of the translator's synthetic site for a body that is the scenario's own code},
#              labels in the order they can occur).  Every other hook is located by source position (site_here).
SCOPES = {
    'include': ('Configurator_include', {}, ['inc']),
    'commit': ('Configurator_commit', {}, ['act']),
    'action_autocommit': ('Configurator_action', {}, ['act']),
    'with_configurator': ('with_Configurator', {'body': 'user|with Configurator body|1'}, ['body', 'act']),
    'route_prefix_context': ('with_route_prefix_context', {'body': 'user|route_prefix_context body|1'}, ['body']),
    'make_wsgi_app': ('Configurator_make_wsgi_app', {}, ['act', 'created']),
    'begin_end': ('begin_then_end', {'body': 'user|begin/end body|1'}, ['body']),
    'request_context': ('with_RequestContext', {'body': 'user|RequestContext body|1'}, ['body']),
    'prepare_closer': ('prepare_then_closer', {'body': 'user|prepare then closer body|1'}, ['mkreq', 'ext', 'root', 'body', 'fin0', 'fin1']),
    'with_prepare': ('with_prepare', {'body': 'user|with prepare body|1'}, ['mkreq', 'ext', 'root', 'body', 'fin0', 'fin1']),
    'get_root_closer': ('get_root_then_closer', {'body': 'user|get_root then closer body|1'}, ['mkreq', 'root', 'body']),
    'explicit_excview': ('invoke_exception_view', {}, ['excView']),
    # invoke_exception_view(exc_info, request=<same | a fresh request | a request of another registry>) called from a
    # scripting scope / from a tween over the excview tween / with no request current: identity at the top of the stack
    'xother_prepare': (None, {}, ['excView']),
    'xother_tween': (None, {}, ['excView']),
    'xother_bare': (None, {}, ['excView']),
}
XTARGETS = ('same', 'fresh', 'otherreg')
# scopes also opened while a request of another application (registry with equal dict contents) is being served
OUTER_SCOPES = ('include', 'commit', 'action_autocommit', 'with_configurator', 'route_prefix_context', 'make_wsgi_app',
                'begin_end', 'request_context', 'prepare_closer', 'with_prepare', 'get_root_closer')


def scope_explicit(request, st, target, fail, ident):
    """`request.invoke_exception_view(exc_info, request=<target>)` from code that serves `request`; appends to `ident`
    one [is the rendered request current?, depth, site] per exception-view run"""
    if target == 'same':
        tgt, rec = request, st
    else:
        tgt = other_request(request, st, target == 'otherreg')
        rec = ReqState({'faults': [['excView', 'plain']] if fail else [], 'regs': []}, st.base)
        tgt.environ['c13'] = rec
    if target == 'same' and fail:
        rec.spec = dict(rec.spec, faults=list(rec.spec.get('faults', [])) + [['excView', 'plain']])
    n0, k0 = len(rec.own), len(rec.sk)
    try:
        try:
            raise Boom('to be viewed')
        except Boom:
            request.invoke_exception_view(sys.exc_info(), request=tgt)
    finally:
        hooks = [e for e in rec.own[n0:] if e[0] == 'hook' and e[1] == 'excView']
        sks = [k for k in rec.sk[k0:] if k[0] == 'excView']
        for e, k in zip(hooks, sks):
            ident.append([e[2], e[3], k[1]])


def run_scope(case):
    """run one scope scenario on the real code: visits [[label, depth, raised]…], raised?, depth before/after"""
    sc = case['scenario']
    probe = Probe(case.get('fail', []))
    _PROBE[0] = probe
    ident = []
    ncb = int(case.get('ncb', 0))
    del manager.stack[:]
    for _ in range(int(case.get('base', 0))):
        manager.push({'request': None, 'registry': None})
    outer = None
    if case.get('outer') == 'request':
        # the scope is opened while a request of ANOTHER application is being served (a frame with that request and
        # that application's registry on top; the two registries have equal dict contents)
        from pyramid.threadlocal import RequestContext as _RC
        req_a = Request.blank('/outer')
        req_a.registry = make_app(False).registry
        outer = _RC(req_a)
        outer.begin()
    base = len(manager.stack)
    raised = False
    meas = {'before': base, 'after': None}

    def scoped():
        meas['before'] = len(manager.stack)
        try:
            if sc == 'include':
                scope_config().include(inc_target)
            elif sc == 'commit':
                c = scope_config()
                c.action(None, callable=lambda: visit('act'))
                c.commit()
            elif sc == 'action_autocommit':
                scope_config(autocommit=True).action(None, callable=lambda: visit('act'))
            elif sc == 'with_configurator':
                with scope_config() as c:
                    c.action(None, callable=lambda: visit('act'))
                    visit('body')
            elif sc == 'route_prefix_context':
                with scope_config().route_prefix_context('p'):
                    visit('body')
            elif sc == 'make_wsgi_app':
                c = scope_config()
                c.add_subscriber(lambda ev: visit('created'), ApplicationCreated)
                c.commit()
                c.action(None, callable=lambda: visit('act'))
                c.make_wsgi_app()
            elif sc == 'begin_end':
                c = scope_config()
                c.begin()
                try:
                    visit('body')
                finally:
                    c.end()
            elif sc == 'request_context':
                from pyramid.threadlocal import RequestContext
                r = Request.blank('/')
                r.registry = make_app(False).registry
                probe.expect = r.registry
                with RequestContext(r):
                    visit('body')
            elif sc in ('prepare_closer', 'with_prepare'):
                from pyramid.scripting import prepare
                reg = _script_config().registry
                probe.expect = reg

                def add_cbs(env):
                    for i in range(ncb):
                        env['request'].add_finished_callback(lambda req, i=i: visit('fin%d' % i))
                if sc == 'with_prepare':
                    with prepare(registry=reg) as env:
                        add_cbs(env)
                        visit('body')
                else:
                    env = prepare(registry=reg)
                    try:
                        add_cbs(env)
                        visit('body')
                    finally:
                        env['closer']()
            elif sc == 'get_root_closer':
                from pyramid.scripting import get_root
                cfg = _script_config()
                app = cfg.make_wsgi_app()
                probe.expect = cfg.registry
                root, closer = get_root(app)
                try:
                    visit('body')
                finally:
                    closer()
            elif sc == 'explicit_excview':
                app = make_app(True)
                r = Request.blank('/')
                r.registry = app.registry
                st = ReqState({'faults': [['excView', 'plain']] if 'excView' in probe.fail else []}, base)
                r.environ['c13'] = st
                try:
                    raise Boom('to be viewed')
                except Boom:
                    try:
                        r.invoke_exception_view(sys.exc_info())
                    finally:
                        for k in st.sk:
                            if k[0] == 'excView':
                                probe.visits.append(['excView', k[2], 'excView' in probe.fail, k[1]])
            elif sc in ('xother_prepare', 'xother_tween', 'xother_bare'):
                target, fail = case.get('target', 'fresh'), 'excView' in probe.fail
                has_xv = target != 'otherreg'      # so that the OTHER registry is the one with the exception view
                app = make_app(has_xv)
                if sc == 'xother_tween':
                    st = ReqState({'faults': [], 'regs': []}, base)
                    st.xv = has_xv
                    environ = Request.blank('/').environ
                    environ['c13'] = st
                    environ['c13.tween_xo'] = (target, fail, ident)
                    list(app(environ, lambda s, h, e=None: None))
                else:
                    req = Request.blank('/')
                    req.registry = app.registry
                    st = ReqState({'faults': [], 'regs': []}, base)
                    st.xv = has_xv
                    req.environ['c13'] = st
                    if sc == 'xother_prepare':
                        from pyramid.scripting import prepare
                        with prepare(request=req, registry=app.registry):
                            scope_explicit(req, st, target, fail, ident)
                    else:
                        scope_explicit(req, st, target, fail, ident)
            else:
                raise ValueError('unknown scenario %r' % sc)
        finally:
            meas['after'] = len(manager.stack)
    try:
        try:
            if case.get('outer') == 'view':
                # … or from inside the view of a real request of the other application
                st_v = ReqState({'faults': [], 'regs': []}, base)
                environ = Request.blank('/').environ
                environ['c13'] = st_v
                environ['c13.scope'] = scoped
                list(make_app(False)(environ, lambda s, h, e=None: None))
            else:
                scoped()
        except Exception:
            raised = True
    finally:
        after = meas['after'] if meas['after'] is not None else len(manager.stack)
        base = meas['before']
        del manager.stack[:]
        _PROBE[0] = None
    return {'visits': probe.visits, 'raised': raised, 'before': base, 'after': after, 'ident': ident, 'regok': probe.regok}


def scope_wf(case):
    try:
        sc = case['scenario']
        return (sc in SCOPES and isinstance(case.get('fail', []), list) and all(f in SCOPES[sc][2] for f in case.get('fail', []))
                and isinstance(case.get('base', 0), int) and 0 <= case.get('base', 0) <= 3
                and isinstance(case.get('ncb', 0), int) and 0 <= case.get('ncb', 0) <= 2
                and case.get('target', 'fresh') in XTARGETS and case.get('outer') in (None, 'request', 'view'))
    except Exception:
        return False


class SitesMissing(Exception):
    """a hook ran at a place that is not a call site of any translated skeleton (the source was restructured in a
    way the translator does not follow)"""

    def __init__(self, labels):
        Exception.__init__(self, ', '.join(labels))
        self.labels = sorted(set(labels))


def scope_visits(case, obs, sites):
    """[(site id, depth, raised)] of a scope observation"""
    _entry, synth, _order = SCOPES[case['scenario']]
    out, missing = [], []
    for label, d, bad, sid in obs['visits']:
        if label in synth:
            sid = sites.get(synth[label])
        if sid is None:
            missing.append('%s:%s' % (case['scenario'], label))
        out.append((sid, d, bad))
    if missing:
        raise SitesMissing(missing)
    return out


# ---- oracle search: is there an oracle under which `exec` of the skeleton does what the real run did? ---------

def find_oracle(term, depth0, visits, hooked, want_raised, want_depth):
    """Search the branch / loop decisions of a skeleton (JSON term from the driver) for an execution that visits
    the instrumented call sites `hooked` exactly as observed (`visits` = [(site, depth|None, raised)], calls at
    other sites do not raise — only the harness's hooks fail), ends raised / not raised as observed and at the
    observed depth.  Returns the oracle as the driver wants it ({'raises','takes','iters'}) or None.  The search
    only proposes; the comparison is made by the Lean `exec` run with the proposed oracle."""
    memo = {}
    n_vis = len(visits)

    def res(node, d, i):
        key = (id(node), d, i)
        r = memo.get(key)
        if r is not None:
            return r
        r = {}
        if isinstance(node, str):
            if node in ('skip', 'unknown'):
                r[(d, i, 'n')] = ()
            elif node == 'push':
                r[(d + 1, i, 'n')] = ()
            elif node == 'pop':
                r[(max(d - 1, 0), i, 'n')] = ()
            elif node == 'ret':
                r[(d, i, 'r')] = ()
            elif node == 'raise':
                r[(d, i, 'x')] = ()
        else:
            op = node[0]
            if op == 'call':
                s = node[1]
                if s in hooked:
                    if i < n_vis and visits[i][0] == s and (visits[i][1] is None or visits[i][1] == d):
                        r[(d, i + 1, 'x' if visits[i][2] else 'n')] = ()
                else:
                    r[(d, i, 'n')] = ()
            elif op == 'seq':
                for (d1, i1, o1), c1 in res(node[1], d, i).items():
                    if o1 != 'n':
                        r.setdefault((d1, i1, o1), c1)
                    else:
                        for k2, c2 in res(node[2], d1, i1).items():
                            r.setdefault(k2, c1 + c2)
            elif op == 'ite':
                s = node[1]
                for k1, c1 in res(node[2], d, i).items():
                    r.setdefault(k1, (('t', s, True),) + c1)
                for k1, c1 in res(node[3], d, i).items():
                    r.setdefault(k1, (('t', s, False),) + c1)
            elif op == 'scope':
                for (d1, i1, o1), c1 in res(node[1], d, i).items():
                    r.setdefault((d1, i1, 'n' if o1 == 'r' else o1), c1)
            elif op == 'fin':
                for (d1, i1, o1), c1 in res(node[1], d, i).items():
                    for (d2, i2, o2), c2 in res(node[2], d1, i1).items():
                        r.setdefault((d2, i2, o1 if o2 == 'n' else o2), c1 + c2)
            elif op == 'exc':
                for (d1, i1, o1), c1 in res(node[1], d, i).items():
                    if o1 != 'x':
                        r.setdefault((d1, i1, o1), c1)
                    else:
                        for k2, c2 in res(node[2], d1, i1).items():
                            r.setdefault(k2, c1 + c2)
            elif op == 'loop':
                s = node[1]
                r[(d, i, 'n')] = (('l', s, 0),)
                cur, seen, n = {(d, i): ()}, {(d, i)}, 0
                while cur and n <= n_vis + 1:
                    n += 1
                    nxt = {}
                    for (d0, i0), c0 in cur.items():
                        for (d1, i1, o1), c1 in res(node[2], d0, i0).items():
                            if o1 == 'n':
                                r.setdefault((d1, i1, 'n'), (('l', s, n),) + c0 + c1)
                                if (d1, i1) not in seen:
                                    seen.add((d1, i1))
                                    nxt[(d1, i1)] = c0 + c1
                            else:
                                r.setdefault((d1, i1, o1), (('l', s, n),) + c0 + c1)
                    cur = nxt
        memo[key] = r
        return r

    found = None
    for (d1, i1, o1), c in res(term, depth0, 0).items():
        if i1 == n_vis and d1 == want_depth and (o1 == 'x') == bool(want_raised):
            found = c
            break
    if found is None:
        return None
    takes, iters, cnt = [], [], {}
    # visit numbers: `exec` counts earlier visits per site id (call, branch and loop sites have ids of their own)
    for kind, s, v in found:
        k = cnt.get(s, 0)
        cnt[s] = k + 1
        if kind == 't':
            if v:
                takes.append([s, k])
        else:
            iters.append([s, k, v])
    raises, seen = [], {}
    for s, _d, bad in visits:
        k = seen.get(s, 0)
        seen[s] = k + 1
        if bad:
            raises.append([s, k])
    return {'raises': raises, 'takes': takes, 'iters': iters}


def exec_compare(mo, visits, hooked, want_raised, want_depth):
    """None when the Lean `exec` reply visits the instrumented sites as observed and ends the same way"""
    got = [v for v in mo.get('trace', []) if v[0] in hooked]
    ok = (len(got) == len(visits)
          and all(g[0] == w[0] and (w[1] is None or g[1] == w[1]) and bool(g[2]) == bool(w[2]) for g, w in zip(got, visits))
          and (mo.get('outcome') == 'raised') == bool(want_raised) and mo.get('depth') == want_depth)
    if ok:
        return None
    return {'hooked_trace': got, 'expected_trace': [list(v) for v in visits], 'outcome': mo.get('outcome'),
            'depth': mo.get('depth'), 'error': mo.get('error')}


def scope_check(case, obs):
    """the property on a scope: the stack is back at its previous depth when the scope ends, however it ends; inside an
    exception view invoked explicitly the current request is the request being rendered"""
    wrong = [l for l, ok in obs.get('regok', []) if not ok]
    if wrong:
        return {'case': case, 'impl': obs, 'expected': {'regok': 'all true'},
                'detail': 'scope %s: in hook(s) %s get_current_registry() is not the registry of the scope that was opened' % (case['scenario'], wrong)}
    if any(not i[0] for i in obs.get('ident', [])):
        return {'case': case, 'impl': obs, 'expected': {'ident': 'all true'},
                'detail': 'scope %s: inside the exception view the current request/registry is not the request handed to invoke_exception_view' % case['scenario']}
    if obs['after'] != obs['before']:
        return {'case': case, 'impl': obs, 'expected': {'after': obs['before']},
                'detail': 'scope %s leaves the thread-local stack at depth %d, it was %d' % (case['scenario'], obs['after'], obs['before'])}
    return None


def all_scope_cases():
    out = []
    for sc, (_e, _synth, order) in SCOPES.items():
        ncbs = [0, 1, 2] if sc in ('prepare_closer', 'with_prepare') else [0]
        for ncb in ncbs:
            usable = [l for l in order if not l.startswith('fin') or int(l[3:]) < ncb]
            for base in (0, 2):
                out.append({'kind': 'scope', 'scenario': sc, 'fail': [], 'base': base, 'ncb': ncb})
                for l in usable:
                    out.append({'kind': 'scope', 'scenario': sc, 'fail': [l], 'base': base, 'ncb': ncb})
            for a, b in itertools.combinations(usable, 2):
                out.append({'kind': 'scope', 'scenario': sc, 'fail': [a, b], 'base': 1, 'ncb': ncb})
    for c in list(out):
        if c['scenario'] in OUTER_SCOPES and c['base'] == 0 and len(c['fail']) <= 1:
            out.append(dict(c, outer='request'))
            if not c['fail']:
                out.append(dict(c, outer='view'))
    extra = []
    for c in out:
        if c['scenario'].startswith('xother_'):
            for tg in XTARGETS:
                extra.append(dict(c, target=tg))
    return [c for c in out if not c['scenario'].startswith('xother_')] + extra


# ---- every request of a pipeline run against the skeleton of Router.__call__ / invoke_subrequest --------------

def sk_nodes(spec, node, sk, top=True, depth_before=None):
    """(spec, node, sk list, top?, depth before the call) for every request of an observation tree"""
    yield spec, node, sk['sk'], top, depth_before
    d_view = next((e[3] for e in node['own'] if e[0] == 'hook' and e[1] == 'viewBody'), None)
    for i, kid in enumerate(node['kids']):
        if i < len(spec.get('subs', [])) and i < len(sk['kids']):
            yield from sk_nodes(spec['subs'][i], kid, sk['kids'][i], False, d_view)


def pipeline_visits(sk):
    """[(site, depth|None, raised)] of the chain marker, response callbacks, NewResponse and finished callbacks"""
    out, missing = [], []
    for kind, sid, d, bad in sk:
        if kind == 'excView':
            continue
        if sid is None:
            missing.append('pipeline:' + kind)
        out.append((sid, d, bad))
    if missing:
        raise SitesMissing(missing)
    return out


def tree_nodes(spec, node, top=True, depth_before=None):
    """(spec, node, top?, depth before the call) for every request of an observation tree"""
    yield spec, node, top, depth_before
    d_view = next((e[3] for e in node['own'] if e[0] == 'hook' and e[1] == 'viewBody'), None)
    for i, kid in enumerate(node['kids']):
        if i < len(spec.get('subs', [])):
            yield from tree_nodes(spec['subs'][i], kid, False, d_view)


# ---- generators --------------------------------------------------------------------------------------------

STD_REGS = [['newRequest', 'fin', None], ['tweenOverIn', 'resp', None], ['viewBody', 'resp', None], ['viewBody', 'fin', None],
            ['excView', 'fin', None], ['newResponse', 'fin', None]]


def single_fault_cases():
    """every fault point x kind x exception-view setting (none / matching / itself raising) x route or traversal x
    position of the failing request (WSGI request, subrequest at depth 1 or 2, with and without tweens), with
    callbacks registered at six stages; plus each callback failing"""
    out = []
    positions = [[], [False], [True], [False, False], [True, True]]
    for pos in positions:
        for route in (False, True):
            for xvs in ('none', 'matching', 'raising'):
                injections = [[[p, k]] for p in POINTS for k in (KINDS if p in SOFT_POINTS else ['plain', 'http'])]
                injections.append([])
                for inj in injections:
                    if xvs == 'raising':
                        if any(f[0] == 'excView' for f in inj):
                            continue
                        inj = inj + [['excView', 'plain']]
                    leaf = {'tw': True, 'route': route, 'faults': inj, 'regs': [list(r) for r in STD_REGS], 'xx': None, 'subs': []}
                    for tw in reversed(pos):
                        leaf['tw'] = tw
                        leaf = {'tw': True, 'route': False, 'faults': [], 'regs': [list(r) for r in STD_REGS], 'xx': None, 'subs': [leaf]}
                    out.append({'kind': 'pipeline', 'xv': xvs != 'none', 'base': 0, 'req': leaf})
    # callbacks that fail, explicit exception-view invocation
    for xv in (False, True):
        for kind in ('plain', 'http'):
            for which in ('resp', 'fin'):
                regs = [['newRequest', which, None], ['viewBody', which, kind], ['renderer', which, None]]
                out.append({'kind': 'pipeline', 'xv': xv, 'base': 1,
                            'req': {'tw': True, 'route': False, 'faults': [], 'regs': regs, 'xx': None, 'subs': []}})
            for fault in (None, 'plain'):
                for other_reg in (False, True):
                    out.append({'kind': 'pipeline', 'xv': xv, 'base': 1,
                                'req': {'tw': True, 'route': False, 'faults': [], 'regs': [list(r) for r in STD_REGS], 'xx': None,
                                        'xo': [kind, fault, other_reg], 'subs': []}})
                    out.append({'kind': 'pipeline', 'xv': xv, 'base': 0,
                                'req': {'tw': True, 'route': False, 'faults': [], 'regs': [], 'xx': None, 'xo': None,
                                        'subs': [{'tw': True, 'route': False, 'faults': [], 'regs': [], 'xx': None,
                                                  'xo': [kind, fault, other_reg], 'subs': []}]}})
            nested = [['viewBody', 'fin', None], ['cb:0', 'fin', None], ['cb:1', 'fin', None, 'cache'], ['viewBody', 'resp', None],
                      ['cb:3', 'resp', None], ['cb:3', 'fin', None], ['cb:0', 'resp', None], ['newResponse', 'fin', None, 'cache']]
            for inj in ([], [['renderer', kind]], [['newResponse', kind]]):
                out.append({'kind': 'pipeline', 'xv': xv, 'base': 0,
                            'req': {'tw': True, 'route': False, 'faults': inj, 'regs': [list(g) for g in nested], 'xx': None, 'xo': None,
                                    'subs': [{'tw': False, 'route': False, 'faults': inj, 'regs': [list(g) for g in nested], 'xx': None, 'xo': None, 'subs': []}]}})
            for f in ([], [['excView', 'plain']], [['renderer', 'plain']]):
                out.append({'kind': 'pipeline', 'xv': xv, 'base': 0,
                            'req': {'tw': True, 'route': True, 'faults': f, 'regs': [list(r) for r in STD_REGS], 'xx': kind, 'subs': []}})
    return out


def nontrivial(case, tree):
    """a scheduled failure was actually reached somewhere in the tree"""
    if case.get('kind') == 'scope':
        return bool(case.get('fail'))
    if case.get('kind') == 'policy':
        return any(nontrivial({'kind': 'pipeline', 'req': r}, n) for r, n in zip(case['reqs'], tree['attempts']))
    for spec, node, _top, _d in tree_nodes(case['req'], tree):
        for e in node['own']:
            if e[0] == 'hook' and fault_of(spec, e[1]) is not None:
                return True
            if e[0] == 'cb' and reg_fault(spec, e[2]):
                return True
    return False


RULE = ('pipeline cases: one WSGI call of the fault-injection application per case; request trees of depth <= 3 '
        '(0..2 subrequests per view, with/without tweens), 0..3 injected failures per request over 17 hook points x '
        '{plain exception, HTTP exception, predicate/permission "no"}, 0..5 response/finished callbacks registered '
        'at random hooks (20% failing), optional explicit invoke_exception_view, custom exception view present or not, '
        'stack pre-loaded with 0..2 frames; plus the exhaustive single-failure enumeration; scope cases: every '
        'Configurator/scripting/RequestContext scope x every single and double failing hook.  A case is non-trivial '
        'when a scheduled failure is actually reached (a failing hook ran or a failing callback ran); distinct = '
        'distinct canonical case JSON')


# ---- evaluation ----------------------------------------------------------------------------------------------

def get_sites(ctx):
    if ctx.driver_path:
        try:
            r = ctx.run_model([{'op': 'sites'}])[0]
            return {n: i for i, n in enumerate(r['sites'])}, r
        except Exception:
            pass
    sys.path.insert(0, os.path.join(ctx.verif, 'extract'))
    import importlib
    ex = importlib.import_module('c13')
    return ex.site_table(ctx.src), None


_HOOKED = {}      # entry group -> set of instrumented site ids seen so far (scope scenario name / 'pipeline')
_TERMS = {}
_RECOG = {}       # entry -> the translator recognised its skeleton completely (no `unknown` inside)
_UNREC = {}       # entry -> number of cases whose exec comparison was skipped for that reason
_SITELESS = {}    # hook label -> cases whose hook could not be located while the translator reports unknown constructs


def _note_hooked(group, visits):
    _HOOKED.setdefault(group, set()).update(v[0] for v in visits if v[0] is not None)


def ensure_baselines(sites, scenarios, pipeline):
    """one run without failures per scenario, so that every hook of the scenario is known as an instrumented site
    even when a single case is replayed"""
    for sc in scenarios:
        if ('base', sc) in _HOOKED or SCOPES[sc][0] is None:
            continue
        _HOOKED[('base', sc)] = True
        c = {'kind': 'scope', 'scenario': sc, 'fail': [], 'base': 0, 'ncb': 2 if sc in ('prepare_closer', 'with_prepare') else 0}
        try:
            _note_hooked(sc, scope_visits(c, run_scope(c), sites))
        except SitesMissing:
            pass
    if pipeline and ('base', 'pipeline') not in _HOOKED:
        _HOOKED[('base', 'pipeline')] = True
        c = {'kind': 'pipeline', 'xv': False, 'base': 0,
             'req': {'tw': True, 'route': False, 'faults': [], 'xx': None, 'regs': [['newRequest', 'resp', None], ['newRequest', 'fin', None]],
                     'subs': [{'tw': False, 'route': False, 'faults': [], 'xx': None, 'regs': [['newRequest', 'resp', None], ['newRequest', 'fin', None]], 'subs': []}]}}
        run_pipeline(c)
        for _s, _n, sk, _t, _d in sk_nodes(c['req'], {'own': [], 'kids': [{'own': [], 'kids': []}]}, LAST_SK[0]):
            try:
                _note_hooked('pipeline', pipeline_visits(sk))
            except SitesMissing:
                pass


def eval_cases(ctx, cases, use_model=True):
    """run cases on the real code, on the model (if built) and through the oracle"""
    sites, sinfo = get_sites(ctx)
    have_model = bool(use_model and ctx.driver_path and sinfo is not None)
    if have_model:
        if _LOC.get('src') != ctx.src:
            _HOOKED.clear(); _TERMS.clear(); _POS.clear(); _RECOG.clear(); _UNREC.clear(); _SITELESS.clear()
            _LOC['src'] = ctx.src
        set_locator(ctx.src, sinfo.get('locs', []))
    obs, sks = [], []
    for c in cases:
        if c.get('kind') == 'scope':
            obs.append(run_scope(c) if scope_wf(c) else None); sks.append(None)
        elif c.get('kind') == 'policy':
            obs.append(run_policy(c) if policy_wf(c) else None); sks.append(None)
        else:
            if pipeline_wf(c):
                obs.append(run_pipeline(c)); sks.append(LAST_SK[0])
            else:
                obs.append(None); sks.append(None)
    mism, viol, agree = [], [], 0
    bad_case = set()
    missing = {}        # hook -> number of cases whose skeleton comparison could not be made

    def site_break(i, e):
        bad_case.add(i)
        for l in e.labels:
            missing[l] = missing.get(l, 0) + 1

    # what the skeleton comparison needs from each case: (case index, entry, group, depth before, visits, raised?, depth after, shown impl)
    jobs = []
    if have_model:
        try:
            ensure_baselines(sites, sorted({c['scenario'] for c, o in zip(cases, obs) if o is not None and c.get('kind') == 'scope'}),
                             any(o is not None and c.get('kind') not in ('scope', 'policy') for c, o in zip(cases, obs)))
        except Exception as e:
            mism.append({'kind': 'comparison-failed', 'case': None, 'impl': None, 'model': {'error': 'baseline: %s: %s' % (type(e).__name__, e)}})
        for i, (c, o) in enumerate(zip(cases, obs)):
            if o is None:
                continue
            try:
                if c.get('kind') == 'policy':
                    continue        # judged by the pipeline model and the oracle (no skeleton entry for custom policies)
                if c.get('kind') == 'scope':
                    if SCOPES[c['scenario']][0] is None:
                        continue
                    v = scope_visits(c, o, sites)
                    _note_hooked(c['scenario'], v)
                    jobs.append((i, SCOPES[c['scenario']][0], c['scenario'], o['before'], v, o['raised'], o['after'], o))
                else:
                    for spec, node, sk, top, d0 in sk_nodes(c['req'], o, sks[i], True, int(c.get('base', 0))):
                        v = pipeline_visits(sk)
                        _note_hooked('pipeline', v)
                        jobs.append((i, 'Router_call' if top else 'Router_invoke_subrequest', 'pipeline', d0, v,
                                     node['out'] != 'resp', node['depth'], {'own': node['own'], 'out': node['out'], 'depth': node['depth']}))
            except SitesMissing as e:
                site_break(i, e)
    lines, owner = [], []
    try:
        need_terms = sorted({j[1] for j in jobs} - set(_TERMS))
        if need_terms:
            for nm, r in zip(need_terms, ctx.run_model([{'op': 'term', 'entry': nm} for nm in need_terms])):
                _TERMS[nm] = r.get('term')
                _RECOG[nm] = bool(r.get('recognised', True))
        for i, (c, o) in enumerate(zip(cases, obs)):
            if have_model and o is not None and c.get('kind') == 'policy':
                lines.append(policy_model_line(c)); owner.append((i, 'policy', None))
            elif have_model and o is not None and c.get('kind') != 'scope':
                lines.append(model_line(c)); owner.append((i, 'tree', None))
        for job in jobs:
            i, entry, group, d0, v, raised, d_after, shown = job
            term = _TERMS.get(entry)
            if not _RECOG.get(entry, True):
                # a source shape the translator does not follow: its generated obligation is vacuous (Props/C13) and the
                # exec comparison is meaningless; this case is judged by the behavioural cube (model tree + oracle) alone
                _UNREC[entry] = _UNREC.get(entry, 0) + 1
                continue
            orc = find_oracle(term, d0, v, _HOOKED.get(group, set()), raised, d_after) if term is not None else None
            if orc is None:
                mism.append({'kind': 'no-oracle', 'case': cases[i], 'impl': shown,
                             'model': {'entry': entry, 'expected_trace': [list(x) for x in v], 'raised': raised, 'depth_after': d_after,
                                       'note': 'no choice of branches/loop counts makes exec of the regenerated skeleton visit the instrumented sites as the real run did'}})
                bad_case.add(i)
                continue
            lines.append(dict(orc, op='exec', entry=entry, depth=d0)); owner.append((i, 'exec', job))
    except Exception as e:
        mism.append({'kind': 'comparison-failed', 'case': None, 'impl': None, 'model': {'error': '%s: %s' % (type(e).__name__, e)}})
    replies = [None] * len(lines)
    if have_model and lines:
        try:
            replies = ctx.run_model(lines)
        except Exception as e:        # a driver that dies is a correspondence break, not a reason to stop looking at the code
            mism.append({'kind': 'driver-failed', 'case': None, 'impl': None, 'model': {'error': str(e)[:500]}})
            bad_case.update(i for i, _w, _x in owner)
    if missing and (sinfo or {}).get('unknowns'):
        # hooks that ran outside every translated call site while the translator reports constructs it does not follow:
        # not a correspondence break of its own (the unrecognised shape is reported, the behavioural cube decides)
        for l, n in missing.items():
            _SITELESS[l] = _SITELESS.get(l, 0) + n
        bad_case.clear()
        missing = {}
    if missing:
        ex = next(cases[i] for i in sorted(bad_case) if obs[i] is not None)
        mism.append({'kind': 'skeleton-site-missing', 'case': ex, 'impl': None,
                     'model': {'missing_site_labels': sorted(missing), 'cases_affected': dict(missing),
                               'note': 'these hooks ran at a place that is not a call site of any regenerated skeleton; exec comparison skipped for the affected cases, the property is still evaluated on the implementation'}})
    for (i, what, extra), mo in zip(owner, replies):
        c, o = cases[i], obs[i]
        if mo is None:
            continue
        try:
            if what == 'tree':
                if mo.get('tree') != o:
                    mism.append({'case': c, 'impl': o, 'model': mo}); bad_case.add(i)
            elif what == 'policy':
                if mo != o:
                    mism.append({'case': c, 'impl': o, 'model': mo}); bad_case.add(i)
            else:
                _i, entry, group, d0, v, raised, d_after, shown = extra
                d = exec_compare(mo, v, _HOOKED.get(group, set()), raised, d_after)
                if d:
                    mism.append({'case': c, 'impl': shown, 'model': dict(d, stream='exec of the generated skeleton %s' % entry)}); bad_case.add(i)
        except Exception as e:
            mism.append({'kind': 'comparison-failed', 'case': c, 'impl': None, 'model': {'error': '%s: %s' % (type(e).__name__, e)}})
            bad_case.add(i)
    for i, (c, o) in enumerate(zip(cases, obs)):
        if o is None:
            continue
        if have_model and i not in bad_case:
            agree += 1
        if c.get('kind') == 'scope':
            v = scope_check(c, o)
            if v:
                viol.append(v)
        elif c.get('kind') == 'policy':
            bad = check_policy(c, o)
            if bad:
                viol.append({'case': c, 'impl': o, 'expected': 'under a custom execution policy every attempt is a request of its own: finished callbacks once in order last, stack balanced, current request = self',
                             'detail': '; '.join(bad[:4])})
        else:
            bad = check_node(c['req'], o, int(c.get('base', 0)))
            if bad:
                viol.append({'case': c, 'impl': o, 'expected': 'balanced stack, current request = self in views, finished callbacks once in order last, response callbacks then NewResponse iff a response left the tween chain',
                             'detail': '; '.join(bad[:4])})
    return obs, mism, viol, agree


def violates(case):
    try:
        if case.get('kind') not in ('scope', 'pipeline', 'policy'):
            return False
        if case.get('kind') == 'policy':
            return policy_wf(case) and bool(check_policy(case, run_policy(case)))
        if case.get('kind') == 'scope':
            if not scope_wf(case):
                return False
            o = run_scope(case)
            v = scope_check(case, o)
            return bool(v) and not v.get('finding')
        if not pipeline_wf(case):
            return False
        return bool(check_node(case['req'], run_pipeline(case), int(case.get('base', 0))))
    except Exception:
        return False


def shrink_violations(viol, limit=3):
    out = []
    viol = sorted(viol, key=lambda v: (bool(v.get('finding')), len(json.dumps(v.get('case'), default=str))))
    for v in viol:
        if v.get('finding') or len(out) >= limit:
            out.append(v)
            continue
        small = vfutil.shrink(v['case'], violates, max_steps=400)
        if small != v['case'] and violates(small):
            if small.get('kind') == 'scope':
                o = run_scope(small)
                v2 = scope_check(small, o)
            elif small.get('kind') == 'policy':
                o = run_policy(small)
                v2 = {'case': small, 'impl': o, 'expected': v['expected'], 'detail': '; '.join(check_policy(small, o)[:4])}
            else:
                o = run_pipeline(small)
                v2 = {'case': small, 'impl': o, 'expected': v['expected'],
                      'detail': '; '.join(check_node(small['req'], o, int(small.get('base', 0)))[:4])}
            out.append(v2)
        else:
            out.append(v)
    return out


def account(cases, obs, dist, seen, nontriv):
    for c, o in zip(cases, obs):
        if o is None:
            vfutil.bump(dist['kinds'], 'malformed')
            continue
        key = vfutil.canon(c)
        if c.get('kind') == 'scope':
            vfutil.bump(dist['kinds'], 'scope')
            vfutil.bump(dist['scope_scenarios'], c['scenario'])
        elif c.get('kind') == 'policy':
            vfutil.bump(dist['kinds'], 'policy')
            vfutil.bump(dist.setdefault('policies', {}), '%s:%d attempts:%s' % (c['policy'], len(o['attempts']), o['out']))
        else:
            vfutil.bump(dist['kinds'], 'pipeline')
            vfutil.bump(dist['top_outcome'], o['out'])
            vfutil.bump(dist['base_depths'], str(c.get('base', 0)))
            nodes = list(tree_nodes(c['req'], o))
            vfutil.bump(dist['requests_per_tree'], str(min(len(nodes), 6)))

            def depth_of(nd):
                return 1 + max([depth_of(k) for k in nd['kids']] or [0])
            vfutil.bump(dist['tree_depth'], str(depth_of(o)))
            for spec, node, top, _d in nodes:
                if not top and not spec.get('tw'):
                    dist['subrequests_without_tweens'] += 1
                if spec.get('xx') is not None:
                    dist['explicit_excview_cases'] += 1
                for e in node['own']:
                    if e[0] == 'chain':
                        dist['chain']['responded' if e[1] else 'raised'] += 1
                    elif e[0] == 'hook':
                        if e[1] == 'excView':
                            dist['excview_runs'] += 1
                        f = fault_of(spec, e[1])
                        if f is not None:
                            vfutil.bump(dist['fault_points_reached'], '%s:%s' % (e[1], f))
                    elif e[0] == 'cb':
                        dist['callbacks_run'][e[1]] += 1
                        if reg_fault(spec, e[2]):
                            dist['failing_callbacks_run'] += 1
                    elif e[0] == 'reg':
                        st = spec['regs'][e[2]][0]
                        st = 'cb' if st.startswith('cb:') else st
                        vfutil.bump(dist['registration_stages'], '%s:%s' % (st, e[1]))
        if key not in seen:
            seen.add(key)
            if nontrivial(c, o):
                nontriv.add(key)


def run(ctx):
    rng = ctx.rng
    corpus = [c for _, c in ctx.corpus()]
    cases = list(corpus)
    cases += all_scope_cases()
    singles = single_fault_cases()
    cases += singles
    cases += policy_cases()
    n = ctx.n(12000, 150000)
    fixed = len(cases)
    seen, nontriv = set(), set()
    dist = {'kinds': {}, 'top_outcome': {}, 'requests_per_tree': {}, 'tree_depth': {}, 'chain': {'responded': 0, 'raised': 0},
            'fault_points_reached': {}, 'callbacks_run': {'resp': 0, 'fin': 0}, 'failing_callbacks_run': 0,
            'excview_runs': 0, 'explicit_excview_cases': 0, 'subrequests_without_tweens': 0, 'scope_scenarios': {},
            'registration_stages': {}, 'base_depths': {}}
    mism, viol, agree, total, last = [], [], 0, 0, []
    todo = n
    chunk = cases
    while chunk:
        obs, m1, v1, a1 = eval_cases(ctx, chunk)
        mism += m1; viol += v1; agree += a1; total += len(chunk)
        account(chunk, obs, dist, seen, nontriv)
        last = chunk[-3:]
        if ctx.time_left() < 120 or len(mism) > 50 or len(viol) > 200:
            break
        k = min(todo, 4000)
        todo -= k
        chunk = [gen_policy(rng) if rng.random() < 0.12 else gen_pipeline(rng) for _ in range(k)]
    viol = shrink_violations(viol)
    notes = []
    # the excluded point of finished_once_in_order_last (a finished callback fails: outside the statement's fault list)
    ex = {'kind': 'pipeline', 'xv': False, 'base': 0, 'req': {'tw': True, 'route': False, 'faults': [], 'xx': None, 'subs': [],
                                                           'regs': [['newRequest', 'fin', 'plain'], ['viewBody', 'fin', None]]}}
    t = run_pipeline(ex)
    notes.append('excluded point (a finished callback raises; not in the statement\'s fault list): finished callbacks run %s of registered %s, stack depth after %s, outcome %s'
                 % ([e[2] for e in t['own'] if e[0] == 'cb'], [e[2] for e in t['own'] if e[0] == 'reg'], t['depth'], t['out']))
    if _UNREC or _SITELESS:
        notes.append('UNRECOGNISED SKELETON SHAPE: entries %s (cases whose exec comparison was skipped) / hooks outside translated call sites %s; the generated obligations of those entries are vacuous, these cases were judged by the behavioural cube alone (fault-injection runs vs pipeline model vs oracle: %d cases, %d mismatches, %d violations)' % (dict(_UNREC), dict(_SITELESS), total, len(mism), len(viol)))
    _, sinfo = get_sites(ctx)
    if sinfo is not None:
        notes.append('skeleton translator: %d sites, unknown constructs %s, no-raise sites %s' % (len(sinfo['sites']), sinfo.get('unknowns'), sinfo.get('noRaise')))
    samples = [c for c in cases[len(corpus):] if c.get('kind') == 'scope'][:2] + singles[40:42] + last
    return {'evaluations': total, 'distinct_nontrivial': len(nontriv), 'rule': RULE, 'agreeing': agree,
            'samples': samples, 'mismatches': mism[:20], 'violations': viol, 'distribution': dist, 'notes': notes,
            'exhaustive': True,
            'assumptions': ['per-thread model: threading.local (one stack per thread) is the runtime\'s',
                            'user callables (views, tweens, subscribers, factories, predicates, callbacks) leave the stack as they found it',
                            'a failing finished callback is outside the statement\'s fault list (router: later finished callbacks are skipped, stack still balanced)',
                            'reading of the statement: NewResponse is emitted iff the response-callback phase completes (DESIGN.md §3 C13)'],
            'trusted_base': ['translator extract/c13.py: callee resolution table, the no-raise list (AppEnvironment(...)), attribute access/properties not modelled as calls',
                             'exhaustive part: every single failing hook x kind x exception-view setting x route/traversal x request position (depth <= 2), every scope x single/double failing hook']}


def search(ctx):
    """failing-input search on the implementation alone (oracle only): all scope cases, the single-failure
    enumeration, all pairs of failures in one request (no subrequests), then the random stream"""
    viol, n = [], 0

    def feed(cs):
        nonlocal n
        for c in cs:
            n += 1
            if violates(c):
                if c.get('kind') == 'scope':
                    viol.append(scope_check(c, run_scope(c)))
                elif c.get('kind') == 'policy':
                    o = run_policy(c)
                    viol.append({'case': c, 'impl': o, 'expected': 'C13 under a custom execution policy (see harness oracle)',
                                 'detail': '; '.join(check_policy(c, o)[:4])})
                else:
                    o = run_pipeline(c)
                    viol.append({'case': c, 'impl': o, 'expected': 'C13 (see harness oracle)',
                                 'detail': '; '.join(check_node(c['req'], o, int(c.get('base', 0)))[:4])})
                if len(viol) >= 5:
                    return True
        return False
    done = feed([c for _, c in ctx.corpus()]) or feed(all_scope_cases()) or feed(policy_cases()) or feed(single_fault_cases())
    exhaustive = not done
    if not done:
        pts = [(p, k) for p in POINTS for k in (KINDS if p in SOFT_POINTS else ['plain', 'http'])]
        pairs = []
        for (a, b) in itertools.combinations(pts, 2):
            if a[0] == b[0]:
                continue
            for xv in (False, True):
                pairs.append({'kind': 'pipeline', 'xv': xv, 'base': 0,
                              'req': {'tw': True, 'route': True, 'faults': [list(a), list(b)], 'regs': [list(r) for r in STD_REGS], 'xx': None, 'subs': []}})
        done = feed(pairs)
        exhaustive = not done
    if not done:
        for _ in range(ctx.n(20000, 100000)):
            if ctx.time_left() < 60:
                exhaustive = False
                break
            if feed([gen_policy(ctx.rng) if ctx.rng.random() < 0.12 else gen_pipeline(ctx.rng)]):
                break
    return {'violations': shrink_violations(viol), 'searched': n, 'exhaustive': exhaustive}


def replay(ctx, rep):
    case = rep.get('case')
    if case is None:
        return {'violates': False, 'note': 'replay names broken obligations only', 'broken': rep.get('broken_obligations')}
    obs, mism, viol, _ = eval_cases(ctx, [case])
    return {'case': case, 'impl': obs[0], 'mismatch': mism[:1], 'violations': viol,
            'finding': next((v.get('finding') for v in viol if v.get('finding')), None),
            'detail': viol[0].get('detail') if viol else None, 'violates': bool(viol)}


if __name__ == '__main__':
    case = json.loads(sys.argv[1])
    print(json.dumps(run_pipeline(case)))
