"""C13 — request handling restores the thread-local stack and runs callbacks on every path.

Three things are executed here against the real code (ctx.src), in-process:

 * pipeline cases: a fault-injection application whose every hook (tween over / under the exception-view tween,
   NewRequest / BeforeTraversal / ContextFound / NewResponse subscribers, route predicate, route factory, root
   factory, traverser, view predicate, security policy, view body, renderer, response and finished callbacks,
   exception view) logs (current request is self?, len(manager.stack)), registers the callbacks scheduled for its
   stage and then fails as the schedule says; view bodies issue nested subrequests and explicit
   request.invoke_exception_view calls.  The ordered per-request event log, the outcome and the stack depth are
   compared with lean/PyramidModel/Pipeline.lean (driver) and judged by a Python oracle that states the property.
 * scope cases: Configurator.begin/end, commit, include, action(autocommit), `with Configurator()`,
   route_prefix_context, make_wsgi_app, scripting.prepare / get_root / closer / `with prepare()`, RequestContext,
   Router.__call__ / invoke_subrequest / request.invoke_exception_view with a failing user hook: the visited hook
   sites with their depths, the outcome and the final depth are compared with `exec` of the generated skeleton
   (Gen/C13Skeleton.lean) under the same oracle, and judged by the balance oracle.
"""
import json, os, sys, itertools

import vfutil

from pyramid.config import Configurator
from pyramid.events import NewRequest, BeforeTraversal, ContextFound, NewResponse, ApplicationCreated
from pyramid.httpexceptions import HTTPBadRequest, HTTPException
from pyramid.request import Request
from pyramid.response import Response
from pyramid.threadlocal import manager, get_current_request
from pyramid.tweens import EXCVIEW
from pyramid.security import Allowed, Denied

MOD = __name__

POINTS = ['tweenOverIn', 'tweenUnderIn', 'newRequest', 'routePred', 'beforeTraversal', 'routeFactory', 'rootFactory',
          'traverser', 'contextFound', 'viewPred', 'perm', 'viewBody', 'renderer', 'tweenUnderOut', 'excView',
          'tweenOverOut', 'newResponse']
SOFT_POINTS = ('routePred', 'viewPred', 'perm')
KINDS = ['plain', 'http', 'soft']


class Boom(Exception):
    pass


def eff_kind(point, kind):
    """`soft` (predicate says no / permission denied) only exists at the three predicate points"""
    if kind == 'soft' and point not in SOFT_POINTS:
        return 'http'
    return kind


def fault_of(spec, point):
    for p, k in spec.get('faults', []):
        if p == point:
            return eff_kind(point, k)
    return None


def throw(kind):
    if kind == 'plain':
        raise Boom('injected')
    raise HTTPBadRequest('injected')


class ReqState:
    """per-request observation record, carried in environ['c13']"""

    def __init__(self, spec, base):
        self.spec, self.base = spec, base
        self.own, self.kids = [], []
        self.out, self.depth_after = None, None

    def rel(self):
        return len(manager.stack)

    def hook(self, request, point):
        """returns True when the hook must answer `no` (soft), raises when the schedule says so"""
        self.own.append(['hook', point, get_current_request() is request, self.rel()])
        for i, (stage, kind, _f) in enumerate(self.spec.get('regs', [])):
            if stage == point:
                self.own.append(['reg', kind, i])
                if kind == 'resp':
                    request.add_response_callback(self.make_resp_cb(i))
                else:
                    request.add_finished_callback(self.make_fin_cb(i))
        k = fault_of(self.spec, point)
        if k == 'soft':
            return True
        if k is not None:
            throw(k)
        return False

    def make_resp_cb(self, i):
        def cb(request, response):
            self.own.append(['cb', 'resp', i, get_current_request() is request, self.rel()])
            f = self.spec['regs'][i][2]
            if f is not None:
                throw(eff_kind('cb', f))
        return cb

    def make_fin_cb(self, i):
        def cb(request):
            self.own.append(['cb', 'fin', i, get_current_request() is request, self.rel()])
            f = self.spec['regs'][i][2]
            if f is not None:
                throw(eff_kind('cb', f))
        return cb

    def tree(self):
        return {'own': self.own, 'out': self.out, 'depth': self.depth_after, 'kids': [k.tree() for k in self.kids]}


def st_of(request):
    return request.environ['c13']


def classify_exc(e):
    if isinstance(e, Boom):
        return 'plain'
    if isinstance(e, HTTPException):
        return 'http'
    return 'other:' + type(e).__name__


# ---- the application ---------------------------------------------------------------------------------------

def probe_tween_factory(handler, registry):
    def probe(request):
        try:
            r = handler(request)
        except BaseException:
            st_of(request).own.append(['chain', False])
            raise
        st_of(request).own.append(['chain', True])
        return r
    return probe


def tween_over_factory(handler, registry):
    def tween_over(request):
        st_of(request).hook(request, 'tweenOverIn')
        r = handler(request)
        st_of(request).hook(request, 'tweenOverOut')
        return r
    return tween_over


def tween_under_factory(handler, registry):
    def tween_under(request):
        st_of(request).hook(request, 'tweenUnderIn')
        r = handler(request)
        st_of(request).hook(request, 'tweenUnderOut')
        return r
    return tween_under


class Root:
    pass


ROOT = Root()


def root_factory(request):
    st_of(request).hook(request, 'rootFactory')
    return ROOT


def route_factory(request):
    st_of(request).hook(request, 'routeFactory')
    return ROOT


class Traverser:
    def __init__(self, root):
        self.root = root

    def __call__(self, request):
        st_of(request).hook(request, 'traverser')
        return {'context': self.root, 'view_name': '', 'subpath': (), 'traversed': (), 'virtual_root': self.root,
                'virtual_root_path': (), 'root': self.root}


class RoutePred:
    def __init__(self, val, info):
        pass

    def text(self):
        return 'c13rp'
    phash = text

    def __call__(self, info, request):
        return not st_of(request).hook(request, 'routePred')


class ViewPred:
    def __init__(self, val, info):
        pass

    def text(self):
        return 'c13vp'
    phash = text

    def __call__(self, context, request):
        return not st_of(request).hook(request, 'viewPred')


class Policy:
    def identity(self, request):
        return None

    def authenticated_userid(self, request):
        return None

    def permits(self, request, context, permission):
        if st_of(request).hook(request, 'perm'):
            return Denied('injected')
        return Allowed('ok')

    def remember(self, request, userid, **kw):
        return []

    def forget(self, request, **kw):
        return []


class RendererFactory:
    def __init__(self, info):
        pass

    def __call__(self, value, system):
        request = system['request']
        st_of(request).hook(request, 'renderer')
        return 'ok'


def the_view(request):
    st = st_of(request)
    st.hook(request, 'viewBody')
    xx = st.spec.get('xx')
    if xx is not None:
        try:
            throw(eff_kind('xx', xx))
        except Exception:
            try:
                request.invoke_exception_view(sys.exc_info())
            finally:
                st.own.append(['resume', get_current_request() is request, st.rel()])
    for i, child in enumerate(st.spec.get('subs', [])):
        st.own.append(['sub', i])
        sub = Request.blank('/r' if child.get('route') else '/')
        kid = ReqState(child, st.base)
        st.kids.append(kid)
        sub.environ['c13'] = kid
        try:
            try:
                request.invoke_subrequest(sub, use_tweens=bool(child.get('tw')))
                kid.out = 'resp'
            except Exception as e:
                kid.out = classify_exc(e)
                raise
        finally:
            kid.depth_after = st.rel()
            st.own.append(['resume', get_current_request() is request, st.rel()])
    return {}


def exc_view(exc, request):
    st_of(request).hook(request, 'excView')
    return Response('handled')


def sub_new_request(event):
    st_of(event.request).hook(event.request, 'newRequest')


def sub_before_traversal(event):
    st_of(event.request).hook(event.request, 'beforeTraversal')


def sub_context_found(event):
    st_of(event.request).hook(event.request, 'contextFound')


def sub_new_response(event):
    st_of(event.request).hook(event.request, 'newResponse')


_APPS = {}


def make_app(xv):
    if xv in _APPS:
        return _APPS[xv]
    config = Configurator(root_factory=root_factory)
    config.set_security_policy(Policy())
    config.add_tween(MOD + '.tween_over_factory', over=EXCVIEW)
    config.add_tween(MOD + '.probe_tween_factory', over=[MOD + '.tween_over_factory', EXCVIEW])
    config.add_tween(MOD + '.tween_under_factory', under=EXCVIEW)
    config.add_subscriber(sub_new_request, NewRequest)
    config.add_subscriber(sub_before_traversal, BeforeTraversal)
    config.add_subscriber(sub_context_found, ContextFound)
    config.add_subscriber(sub_new_response, NewResponse)
    config.add_route_predicate('c13rp', RoutePred)
    config.add_view_predicate('c13vp', ViewPred)
    config.add_route('r', '/r', c13rp=1, factory=route_factory)
    config.add_traverser(Traverser)
    config.add_renderer('c13r', RendererFactory)
    config.add_view(the_view, renderer='c13r', permission='p', c13vp=1)
    config.add_view(the_view, route_name='r', renderer='c13r', permission='p', c13vp=1)
    if xv:
        config.add_exception_view(exc_view, context=Exception)
        config.add_exception_view(exc_view, context=HTTPException)
    app = config.make_wsgi_app()
    # subrequests issued with use_tweens=False bypass the tween chain: observe the same marker around the main handler
    inner = app.orig_handle_request

    def probed(request):
        try:
            r = inner(request)
        except BaseException:
            st_of(request).own.append(['chain', False])
            raise
        st_of(request).own.append(['chain', True])
        return r
    app.orig_handle_request = probed
    _APPS[xv] = app
    return app


def run_pipeline(case):
    """one WSGI call of the fault-injection application; returns the observation tree"""
    app = make_app(bool(case.get('xv')))
    pre = int(case.get('base', 0))
    del manager.stack[:]
    for _ in range(pre):
        manager.push({'request': None, 'registry': app.registry})
    base = len(manager.stack)
    spec = case['req']
    st = ReqState(spec, base)
    environ = Request.blank('/r' if spec.get('route') else '/').environ
    environ['c13'] = st
    status = []
    try:
        try:
            body = app(environ, lambda s, h, e=None: status.append(s))
            list(body)
            st.out = 'resp'
        except Exception as e:
            st.out = classify_exc(e)
    finally:
        st.depth_after = len(manager.stack)
        del manager.stack[:]
    return st.tree()


# ---- the property, stated on the observation tree (independent of the Lean build) ---------------------------

def reg_fault(spec, i):
    regs = spec.get('regs', [])
    if 0 <= i < len(regs) and regs[i][2] is not None:
        return True
    return False


def check_node(spec, node, depth_before, where='top'):
    """list of property violations of one request (and, recursively, of its subrequests)"""
    bad = []
    own = node['own']
    # balance: the stack is back to its previous depth when the call ends
    if node['depth'] != depth_before:
        bad.append('%s: stack depth %s after the call, %s before' % (where, node['depth'], depth_before))
    # while the view (or exception view) runs the current request is that request
    for e in own:
        if (e[0] == 'hook' and e[1] in ('viewBody', 'excView') and not e[2]) or (e[0] == 'resume' and not e[1]):
            bad.append('%s: current request is not the request being served at %s' % (where, e[:2]))
    # finished callbacks: each registered one exactly once, in registration order, after everything else
    fins = [e[2] for e in own if e[0] == 'cb' and e[1] == 'fin']
    regs_fin = [e[2] for e in own if e[0] == 'reg' and e[1] == 'fin']
    first_fin = next((i for i, e in enumerate(own) if e[0] == 'cb' and e[1] == 'fin'), len(own))
    if any(not (e[0] == 'cb' and e[1] == 'fin') for e in own[first_fin:]):
        bad.append('%s: something runs after a finished callback' % where)
    if any(reg_fault(spec, i) for i in fins):
        pass        # a failing finished callback is outside the statement's fault list: nothing is demanded of the rest
    elif fins != regs_fin:
        bad.append('%s: finished callbacks ran %s, registered %s' % (where, fins, regs_fin))
    # response callbacks, then NewResponse, exactly when a response came out of the tween chain
    marks = [i for i, e in enumerate(own) if e[0] == 'chain']
    if len(marks) != 1:
        bad.append('%s: %d chain markers' % (where, len(marks)))
    else:
        k = marks[0]
        pre, post = own[:k], own[k + 1:]
        isresp = lambda e: (e[0] == 'cb' and e[1] == 'resp') or (e[0] == 'hook' and e[1] == 'newResponse')
        if any(isresp(e) for e in pre):
            bad.append('%s: response callback / NewResponse before the tween chain ended' % where)
        got = [('cb', e[2]) if e[0] == 'cb' else ('new',) for e in post if isresp(e)]
        if not own[k][1]:
            if got:
                bad.append('%s: response callbacks / NewResponse although no response came out of the tween chain' % where)
        else:
            regs_resp = [e[2] for e in pre if e[0] == 'reg' and e[1] == 'resp']
            exp = []
            for i in regs_resp:
                exp.append(('cb', i))
                if reg_fault(spec, i):
                    break
            else:
                exp.append(('new',))
            if got != exp:
                bad.append('%s: after a response left the tween chain expected %s, observed %s' % (where, exp, got))
    # subrequests
    subs = spec.get('subs', [])
    d_view = next((e[3] for e in own if e[0] == 'hook' and e[1] == 'viewBody'), None)
    for i, kid in enumerate(node['kids']):
        if i < len(subs):
            bad += check_node(subs[i], kid, d_view, '%s.sub%d' % (where, i))
    return bad


def pipeline_wf(case):
    def req_ok(r, top):
        if not isinstance(r, dict):
            return False
        for f in r.get('faults', []):
            if not (isinstance(f, list) and len(f) == 2 and f[0] in POINTS and f[1] in KINDS):
                return False
        for g in r.get('regs', []):
            if not (isinstance(g, list) and len(g) == 3 and g[0] in POINTS and g[1] in ('resp', 'fin') and (g[2] is None or g[2] in KINDS)):
                return False
        if r.get('xx') is not None and r.get('xx') not in KINDS:
            return False
        if not isinstance(r.get('subs', []), list):
            return False
        return all(req_ok(s, False) for s in r.get('subs', []))
    try:
        return isinstance(case.get('base', 0), int) and 0 <= case.get('base', 0) <= 4 and req_ok(case['req'], True)
    except Exception:
        return False


def norm_req(r, top=True):
    return {'tw': True if top else bool(r.get('tw')), 'route': bool(r.get('route')),
            'faults': [list(f) for f in r.get('faults', [])], 'regs': [list(g) for g in r.get('regs', [])],
            'xx': r.get('xx'), 'subs': [norm_req(s, False) for s in r.get('subs', [])]}


def model_line(case):
    return {'op': 'pipeline', 'xv': bool(case.get('xv')), 'base': int(case.get('base', 0)), 'req': norm_req(case['req'])}


def gen_req(rng, depth, top=False):
    r = {'tw': True if top else rng.random() < 0.5, 'route': rng.random() < 0.4}
    nf = rng.choice([0, 1, 1, 1, 2, 2, 3])
    faults = []
    for _ in range(nf):
        p = rng.choice(POINTS)
        k = rng.choice(KINDS) if p in SOFT_POINTS else rng.choice(['plain', 'plain', 'http', 'soft'])
        faults.append([p, k])
    r['faults'] = faults
    regs = []
    for _ in range(rng.choice([0, 1, 2, 2, 3, 4, 5])):
        regs.append([rng.choice(POINTS), rng.choice(['resp', 'fin', 'fin']),
                     None if rng.random() < 0.8 else rng.choice(['plain', 'http'])])
    r['regs'] = regs
    r['xx'] = None if rng.random() < 0.75 else rng.choice(['plain', 'http'])
    subs = []
    if depth > 0:
        for _ in range(rng.choice([0, 0, 1, 1, 2])):
            subs.append(gen_req(rng, depth - 1))
    r['subs'] = subs
    return r


def gen_pipeline(rng):
    return {'kind': 'pipeline', 'xv': rng.random() < 0.6, 'base': rng.choice([0, 0, 1, 2]),
            'req': gen_req(rng, rng.choice([0, 1, 1, 2, 2, 3]), top=True)}


def walk_reqs(r):
    yield r
    for s in r.get('subs', []):
        yield from walk_reqs(s)


# ---- scope cases: the real entry points against `exec` of the generated skeletons ---------------------------

_PROBE = [None]


class Probe:
    """collects (label, stack depth, raised) of every instrumented user hook of a scope scenario"""

    def __init__(self, fail):
        self.fail = set(fail)
        self.visits = []

    def visit(self, label):
        bad = label in self.fail
        self.visits.append([label, len(manager.stack), bad])
        if bad:
            raise Boom(label)


def visit(label):
    _PROBE[0].visit(label)


def inc_target(config):
    visit('inc')


class ExtProbe:
    __name__ = 'c13ext'

    def __get__(self, obj, cls):
        visit('ext')
        return lambda: None


class ProbeRequest(Request):
    @classmethod
    def blank(cls, *a, **kw):
        visit('mkreq')
        return super().blank(*a, **kw)


def probe_root_factory(request):
    visit('root')
    return ROOT


def _script_config():
    config = Configurator(root_factory=probe_root_factory)
    config.set_request_factory(ProbeRequest)
    config.add_request_method(ExtProbe(), 'c13ext')
    config.commit()
    return config


# scenario -> (skeleton entry, {label: site name}, [branch sites taken], labels in the order they can occur)
SCOPES = {
    'include': ('Configurator_include', {'inc': 'Configurator.include|c|1'},
                ['Configurator.include|if|3', 'Configurator.begin|if|1'], ['inc']),
    'commit': ('Configurator_commit', {'act': 'ActionConfiguratorMixin.commit|self.action_state.execute_actions|1'},
               ['Configurator.begin|if|1'], ['act']),
    'action_autocommit': ('Configurator_action', {'act': 'ActionConfiguratorMixin.action|callable|1'},
                          ['ActionConfiguratorMixin.action|if|3', 'ActionConfiguratorMixin.action|if|4', 'Configurator.begin|if|1'], ['act']),
    'with_configurator': ('with_Configurator', {'body': 'user|with Configurator body|1',
                                                'act': 'ActionConfiguratorMixin.commit|self.action_state.execute_actions|1'},
                          ['Configurator.begin|if|1'], ['body', 'act']),
    'route_prefix_context': ('with_route_prefix_context', {'body': 'user|route_prefix_context body|1'},
                             ['Configurator.begin|if|1'], ['body']),
    'make_wsgi_app': ('Configurator_make_wsgi_app', {'act': 'ActionConfiguratorMixin.commit|self.action_state.execute_actions|1',
                                                     'created': 'Configurator.make_wsgi_app|self.registry.notify|1'},
                      ['Configurator.begin|if|1'], ['act', 'created']),
    'begin_end': ('begin_then_end', {'body': 'user|begin/end body|1'}, ['Configurator.begin|if|1'], ['body']),
    'request_context': ('with_RequestContext', {'body': 'user|RequestContext body|1'}, [], ['body']),
    'prepare_closer': ('prepare_then_closer', {'mkreq': 'prepare|_make_request|1', 'ext': 'prepare|apply_request_extensions|1',
                                               'root': 'prepare|root_factory|1', 'body': 'user|prepare then closer body|1',
                                               'fin0': 'CallbackMethodsMixin._process_finished_callbacks|callback|1',
                                               'fin1': 'CallbackMethodsMixin._process_finished_callbacks|callback|1'},
                       ['prepare|if|3', 'prepare|if|4'], ['mkreq', 'ext', 'root', 'body', 'fin0', 'fin1']),
    'with_prepare': ('with_prepare', {'mkreq': 'prepare|_make_request|1', 'ext': 'prepare|apply_request_extensions|1',
                                      'root': 'prepare|root_factory|1', 'body': 'user|with prepare body|1',
                                      'fin0': 'CallbackMethodsMixin._process_finished_callbacks|callback|1',
                                      'fin1': 'CallbackMethodsMixin._process_finished_callbacks|callback|1'},
                     ['prepare|if|3', 'prepare|if|4'], ['mkreq', 'ext', 'root', 'body', 'fin0', 'fin1']),
    'get_root_closer': ('get_root_then_closer', {'mkreq': 'get_root|_make_request|1', 'root': 'get_root|app.root_factory|1',
                                                 'body': 'user|get_root then closer body|1'},
                        ['get_root|if|1'], ['mkreq', 'root', 'body']),
    'explicit_excview': ('invoke_exception_view', {'excView': 'ViewMethodsMixin.invoke_exception_view|_call_view|1'},
                         ['ViewMethodsMixin.invoke_exception_view|if|1'], ['excView']),
}
FIN_WHILE = 'CallbackMethodsMixin._process_finished_callbacks|while|1'
FIN_POPLEFT = 'CallbackMethodsMixin._process_finished_callbacks|callbacks.popleft|1'


def run_scope(case):
    """run one scope scenario on the real code: visits [[label, depth, raised]…], raised?, depth before/after"""
    sc = case['scenario']
    probe = Probe(case.get('fail', []))
    _PROBE[0] = probe
    ncb = int(case.get('ncb', 0))
    del manager.stack[:]
    for _ in range(int(case.get('base', 0))):
        manager.push({'request': None, 'registry': None})
    base = len(manager.stack)
    raised = False
    try:
        try:
            if sc == 'include':
                Configurator().include(inc_target)
            elif sc == 'commit':
                c = Configurator()
                c.action(None, callable=lambda: visit('act'))
                c.commit()
            elif sc == 'action_autocommit':
                Configurator(autocommit=True).action(None, callable=lambda: visit('act'))
            elif sc == 'with_configurator':
                with Configurator() as c:
                    c.action(None, callable=lambda: visit('act'))
                    visit('body')
            elif sc == 'route_prefix_context':
                with Configurator().route_prefix_context('p'):
                    visit('body')
            elif sc == 'make_wsgi_app':
                c = Configurator()
                c.add_subscriber(lambda ev: visit('created'), ApplicationCreated)
                c.commit()
                c.action(None, callable=lambda: visit('act'))
                c.make_wsgi_app()
            elif sc == 'begin_end':
                c = Configurator()
                c.begin()
                try:
                    visit('body')
                finally:
                    c.end()
            elif sc == 'request_context':
                from pyramid.threadlocal import RequestContext
                r = Request.blank('/')
                r.registry = make_app(False).registry
                with RequestContext(r):
                    visit('body')
            elif sc in ('prepare_closer', 'with_prepare'):
                from pyramid.scripting import prepare
                reg = _script_config().registry

                def add_cbs(env):
                    for i in range(ncb):
                        env['request'].add_finished_callback(lambda req, i=i: visit('fin%d' % i))
                if sc == 'with_prepare':
                    with prepare(registry=reg) as env:
                        add_cbs(env)
                        visit('body')
                else:
                    env = prepare(registry=reg)
                    try:
                        add_cbs(env)
                        visit('body')
                    finally:
                        env['closer']()
            elif sc == 'get_root_closer':
                from pyramid.scripting import get_root
                cfg = _script_config()
                app = cfg.make_wsgi_app()
                root, closer = get_root(app)
                try:
                    visit('body')
                finally:
                    closer()
            elif sc == 'explicit_excview':
                app = make_app(True)
                r = Request.blank('/')
                r.registry = app.registry
                st = ReqState({'faults': [['excView', 'plain']] if 'excView' in probe.fail else []}, base)
                r.environ['c13'] = st
                try:
                    raise Boom('to be viewed')
                except Boom:
                    try:
                        r.invoke_exception_view(sys.exc_info())
                    finally:
                        for e in st.own:
                            if e[0] == 'hook' and e[1] == 'excView':
                                probe.visits.append(['excView', e[3], 'excView' in probe.fail])
            else:
                raise ValueError('unknown scenario %r' % sc)
        except Exception:
            raised = True
    finally:
        after = len(manager.stack)
        del manager.stack[:]
        _PROBE[0] = None
    return {'visits': probe.visits, 'raised': raised, 'before': base, 'after': after}


def scope_wf(case):
    try:
        sc = case['scenario']
        return (sc in SCOPES and isinstance(case.get('fail', []), list) and all(f in SCOPES[sc][1] for f in case.get('fail', []))
                and isinstance(case.get('base', 0), int) and 0 <= case.get('base', 0) <= 3
                and isinstance(case.get('ncb', 0), int) and 0 <= case.get('ncb', 0) <= 2)
    except Exception:
        return False


class SitesMissing(Exception):
    """the regenerated skeleton no longer has call sites the harness instruments (the source was restructured)"""

    def __init__(self, labels):
        Exception.__init__(self, ', '.join(labels))
        self.labels = sorted(set(labels))


def need(sites, names):
    missing = [n for n in names if n not in sites]
    if missing:
        raise SitesMissing(missing)


def scope_model_line(case, obs, sites):
    """the `exec` query whose oracle is what the real run did (raises SitesMissing when the skeleton lacks a site)"""
    entry, labels, taken, _ = SCOPES[case['scenario']]
    need(sites, [labels[v[0]] for v in obs['visits']])
    raises, seen = [], {}
    for label, _d, bad in obs['visits']:
        sid = sites[labels[label]]
        k = seen.get(sid, 0)
        seen[sid] = k + 1
        if bad:
            raises.append([sid, k])
    takes = [[sites[n], k] for n in taken if n in sites for k in range(4)]
    iters = []
    nfin = sum(1 for v in obs['visits'] if v[0].startswith('fin'))
    if case['scenario'] in ('prepare_closer', 'with_prepare'):
        need(sites, ['prepare.closer|if|1', FIN_WHILE])
        if int(case.get('ncb', 0)) > 0:
            takes += [[sites['prepare.closer|if|1'], 0]]
        iters.append([sites[FIN_WHILE], 0, nfin])
    if case['scenario'] == 'explicit_excview':
        need(sites, ['hide_attrs|for|1', 'hide_attrs|for|2', 'ViewMethodsMixin.invoke_exception_view|except Exception|1'])
        iters += [[sites['hide_attrs|for|1'], 0, 3], [sites['hide_attrs|for|2'], 0, 3]]
        if obs['raised']:
            takes += [[sites['ViewMethodsMixin.invoke_exception_view|except Exception|1'], 0]]
    if case['scenario'] == 'with_configurator' and not any(v[0] == 'body' and v[2] for v in obs['visits']):
        need(sites, ['Configurator.__exit__|if|1'])
        takes += [[sites['Configurator.__exit__|if|1'], 0]]
    return {'op': 'exec', 'entry': entry, 'depth': obs['before'], 'raises': raises, 'takes': takes, 'iters': iters}


def scope_compare(case, obs, mo, sites):
    """None when `exec` under the observed oracle visits the same hooks at the same depths and ends the same way"""
    entry, labels, _, _ = SCOPES[case['scenario']]
    hooked = {sites[n] for n in labels.values() if n in sites}
    want = [[sites[labels[l]], d, bad] for l, d, bad in obs['visits']]
    got = [v for v in mo.get('trace', []) if v[0] in hooked]
    m_raised = mo.get('outcome') == 'raised'
    if got != want or m_raised != obs['raised'] or mo.get('depth') != obs['after']:
        return {'case': case, 'impl': obs, 'model': {'hooked_trace': got, 'outcome': mo.get('outcome'), 'depth': mo.get('depth'), 'error': mo.get('error')}}
    return None


def scope_check(case, obs):
    """the property on a scope: the stack is back at its previous depth when the scope ends, however it ends"""
    if obs['after'] != obs['before']:
        return {'case': case, 'impl': obs, 'expected': {'after': obs['before']},
                'detail': 'scope %s leaves the thread-local stack at depth %d, it was %d' % (case['scenario'], obs['after'], obs['before'])}
    return None


def all_scope_cases():
    out = []
    for sc, (_e, labels, _t, order) in SCOPES.items():
        ncbs = [0, 1, 2] if sc in ('prepare_closer', 'with_prepare') else [0]
        for ncb in ncbs:
            usable = [l for l in order if not l.startswith('fin') or int(l[3:]) < ncb]
            for base in (0, 2):
                out.append({'kind': 'scope', 'scenario': sc, 'fail': [], 'base': base, 'ncb': ncb})
                for l in usable:
                    out.append({'kind': 'scope', 'scenario': sc, 'fail': [l], 'base': base, 'ncb': ncb})
            for a, b in itertools.combinations(usable, 2):
                out.append({'kind': 'scope', 'scenario': sc, 'fail': [a, b], 'base': 1, 'ncb': ncb})
    return out


# ---- the top of a pipeline run against the skeleton of Router.__call__ / invoke_subrequest --------------------

PIPE_SITES = {'chain': 'Router.invoke_request|handle_request|1',
              'resp': 'CallbackMethodsMixin._process_response_callbacks|callback|1',
              'new': 'Router.invoke_request|notify|1',
              'fin': 'CallbackMethodsMixin._process_finished_callbacks|callback|1'}
RESP_WHILE = 'CallbackMethodsMixin._process_response_callbacks|while|1'


def pipeline_skeleton_query(spec, node, top, depth_before, sites):
    """(exec query, expected hooked trace) for one request of an observation tree"""
    need(sites, list(PIPE_SITES.values()) + [RESP_WHILE, FIN_WHILE, 'Router.invoke_request|and|1',
                                            'Router.invoke_request|if|2', 'Router.finish_request|if|1'])
    visits = []
    for e in node['own']:
        if e[0] == 'chain':
            visits.append(['chain', None, not e[1]])
        elif e[0] == 'cb' and e[1] == 'resp':
            visits.append(['resp', e[4], reg_fault(spec, e[2])])
        elif e[0] == 'cb' and e[1] == 'fin':
            visits.append(['fin', e[4], reg_fault(spec, e[2])])
        elif e[0] == 'hook' and e[1] == 'newResponse':
            visits.append(['new', e[3], fault_of(spec, 'newResponse') is not None])
    raises, seen, want = [], {}, []
    for label, d, bad in visits:
        sid = sites[PIPE_SITES[label]]
        k = seen.get(sid, 0)
        seen[sid] = k + 1
        if bad:
            raises.append([sid, k])
        want.append([sid, d, bad])
    nresp = sum(1 for v in visits if v[0] == 'resp')
    nfin = sum(1 for v in visits if v[0] == 'fin')
    # were the deques non-empty when the router looked at them?
    k = next((i for i, e in enumerate(node['own']) if e[0] == 'chain'), len(node['own']))
    resp_regs = sum(1 for e in node['own'][:k] if e[0] == 'reg' and e[1] == 'resp')
    fin_regs = sum(1 for e in node['own'] if e[0] == 'reg' and e[1] == 'fin')
    takes = [[sites['Router.invoke_request|and|1'], 0]]
    if resp_regs:
        takes.append([sites['Router.invoke_request|if|2'], 0])
    if fin_regs:
        takes.append([sites['Router.finish_request|if|1'], 0])
    iters = [[sites[RESP_WHILE], 0, nresp], [sites[FIN_WHILE], 0, nfin]]
    entry = 'Router_call' if top else 'Router_invoke_subrequest'
    return ({'op': 'exec', 'entry': entry, 'depth': depth_before, 'raises': raises, 'takes': takes, 'iters': iters}, want)


def pipeline_skeleton_compare(node, mo, want, sites):
    hooked = {sites[n] for n in PIPE_SITES.values()}
    got = [v for v in mo.get('trace', []) if v[0] in hooked]
    # the chain marker carries no depth observation
    got2 = [[s, (None if s == sites[PIPE_SITES['chain']] else d), b] for s, d, b in got]
    raised = node['out'] != 'resp'
    if got2 != want or (mo.get('outcome') == 'raised') != raised or mo.get('depth') != node['depth']:
        return {'hooked_trace': got, 'expected_trace': want, 'outcome': mo.get('outcome'), 'depth': mo.get('depth'), 'error': mo.get('error')}
    return None


def tree_nodes(spec, node, top=True, depth_before=None):
    """(spec, node, top?, depth before the call) for every request of an observation tree"""
    yield spec, node, top, depth_before
    d_view = next((e[3] for e in node['own'] if e[0] == 'hook' and e[1] == 'viewBody'), None)
    for i, kid in enumerate(node['kids']):
        if i < len(spec.get('subs', [])):
            yield from tree_nodes(spec['subs'][i], kid, False, d_view)


# ---- generators --------------------------------------------------------------------------------------------

STD_REGS = [['newRequest', 'fin', None], ['tweenOverIn', 'resp', None], ['viewBody', 'resp', None], ['viewBody', 'fin', None],
            ['excView', 'fin', None], ['newResponse', 'fin', None]]


def single_fault_cases():
    """every fault point x kind x exception-view setting (none / matching / itself raising) x route or traversal x
    position of the failing request (WSGI request, subrequest at depth 1 or 2, with and without tweens), with
    callbacks registered at six stages; plus each callback failing"""
    out = []
    positions = [[], [False], [True], [False, False], [True, True]]
    for pos in positions:
        for route in (False, True):
            for xvs in ('none', 'matching', 'raising'):
                injections = [[[p, k]] for p in POINTS for k in (KINDS if p in SOFT_POINTS else ['plain', 'http'])]
                injections.append([])
                for inj in injections:
                    if xvs == 'raising':
                        if any(f[0] == 'excView' for f in inj):
                            continue
                        inj = inj + [['excView', 'plain']]
                    leaf = {'tw': True, 'route': route, 'faults': inj, 'regs': [list(r) for r in STD_REGS], 'xx': None, 'subs': []}
                    for tw in reversed(pos):
                        leaf['tw'] = tw
                        leaf = {'tw': True, 'route': False, 'faults': [], 'regs': [list(r) for r in STD_REGS], 'xx': None, 'subs': [leaf]}
                    out.append({'kind': 'pipeline', 'xv': xvs != 'none', 'base': 0, 'req': leaf})
    # callbacks that fail, explicit exception-view invocation
    for xv in (False, True):
        for kind in ('plain', 'http'):
            for which in ('resp', 'fin'):
                regs = [['newRequest', which, None], ['viewBody', which, kind], ['renderer', which, None]]
                out.append({'kind': 'pipeline', 'xv': xv, 'base': 1,
                            'req': {'tw': True, 'route': False, 'faults': [], 'regs': regs, 'xx': None, 'subs': []}})
            for f in ([], [['excView', 'plain']], [['renderer', 'plain']]):
                out.append({'kind': 'pipeline', 'xv': xv, 'base': 0,
                            'req': {'tw': True, 'route': True, 'faults': f, 'regs': [list(r) for r in STD_REGS], 'xx': kind, 'subs': []}})
    return out


def nontrivial(case, tree):
    """a scheduled failure was actually reached somewhere in the tree"""
    if case.get('kind') == 'scope':
        return bool(case.get('fail'))
    for spec, node, _top, _d in tree_nodes(case['req'], tree):
        for e in node['own']:
            if e[0] == 'hook' and fault_of(spec, e[1]) is not None:
                return True
            if e[0] == 'cb' and reg_fault(spec, e[2]):
                return True
    return False


RULE = ('pipeline cases: one WSGI call of the fault-injection application per case; request trees of depth <= 3 '
        '(0..2 subrequests per view, with/without tweens), 0..3 injected failures per request over 17 hook points x '
        '{plain exception, HTTP exception, predicate/permission "no"}, 0..5 response/finished callbacks registered '
        'at random hooks (20% failing), optional explicit invoke_exception_view, custom exception view present or not, '
        'stack pre-loaded with 0..2 frames; plus the exhaustive single-failure enumeration; scope cases: every '
        'Configurator/scripting/RequestContext scope x every single and double failing hook.  A case is non-trivial '
        'when a scheduled failure is actually reached (a failing hook ran or a failing callback ran); distinct = '
        'distinct canonical case JSON')


# ---- evaluation ----------------------------------------------------------------------------------------------

def get_sites(ctx):
    if ctx.driver_path:
        try:
            r = ctx.run_model([{'op': 'sites'}])[0]
            return {n: i for i, n in enumerate(r['sites'])}, r
        except Exception:
            pass
    sys.path.insert(0, os.path.join(ctx.verif, 'extract'))
    import importlib
    ex = importlib.import_module('c13')
    return ex.site_table(ctx.src), None


def eval_cases(ctx, cases, use_model=True):
    """run cases on the real code, on the model (if built) and through the oracle"""
    sites, _ = get_sites(ctx)
    have_model = bool(use_model and ctx.driver_path)
    obs = []
    for c in cases:
        if c.get('kind') == 'scope':
            obs.append(run_scope(c) if scope_wf(c) else None)
        else:
            obs.append(run_pipeline(c) if pipeline_wf(c) else None)
    mism, viol, agree = [], [], 0
    # first model pass: pipeline trees and scope execs
    lines, owner = [], []
    bad_case = set()
    missing = {}        # label -> number of cases whose skeleton comparison could not be made

    def site_break(i, e):
        bad_case.add(i)
        for l in e.labels:
            missing[l] = missing.get(l, 0) + 1

    for i, (c, o) in enumerate(zip(cases, obs)):
        if o is None or not have_model:
            continue
        if c.get('kind') == 'scope':
            try:
                lines.append(scope_model_line(c, o, sites)); owner.append((i, 'scope', None))
            except SitesMissing as e:
                site_break(i, e)
        else:
            lines.append(model_line(c)); owner.append((i, 'tree', None))
            try:
                qs = []
                for spec, node, top, d0 in tree_nodes(c['req'], o, True, int(c.get('base', 0))):
                    q, want = pipeline_skeleton_query(spec, node, top, d0, sites)
                    qs.append((q, (node, want)))
                for q, extra in qs:
                    lines.append(q); owner.append((i, 'skel', extra))
            except SitesMissing as e:
                site_break(i, e)
    replies = [None] * len(lines)
    if have_model and lines:
        try:
            replies = ctx.run_model(lines)
        except Exception as e:        # a driver that dies is a correspondence break, not a reason to stop looking at the code
            mism.append({'kind': 'driver-failed', 'case': None, 'impl': None, 'model': {'error': str(e)[:500]}})
            bad_case.update(i for i, _w, _x in owner)
    if missing:
        ex = next(cases[i] for i in sorted(bad_case) if obs[i] is not None)
        mism.append({'kind': 'skeleton-site-missing', 'case': ex, 'impl': None,
                     'model': {'missing_site_labels': sorted(missing), 'cases_affected': dict(missing),
                               'note': 'the regenerated skeleton has no call site with these labels; exec comparison skipped for the affected cases, the property is still evaluated on the implementation'}})
    for (i, what, extra), mo in zip(owner, replies):
        c, o = cases[i], obs[i]
        if mo is None:
            continue
        try:
            if what == 'scope':
                d = scope_compare(c, o, mo, sites)
                if d:
                    mism.append(d); bad_case.add(i)
            elif what == 'tree':
                if mo.get('tree') != o:
                    mism.append({'case': c, 'impl': o, 'model': mo}); bad_case.add(i)
            else:
                node, want = extra
                d = pipeline_skeleton_compare(node, mo, want, sites)
                if d:
                    mism.append({'case': c, 'impl': {'own': node['own'], 'out': node['out'], 'depth': node['depth']},
                                 'model': dict(d, stream='skeleton exec of Router.__call__/invoke_subrequest')}); bad_case.add(i)
        except Exception as e:
            mism.append({'kind': 'comparison-failed', 'case': c, 'impl': None, 'model': {'error': '%s: %s' % (type(e).__name__, e)}})
            bad_case.add(i)
    for i, (c, o) in enumerate(zip(cases, obs)):
        if o is None:
            continue
        if have_model and i not in bad_case:
            agree += 1
        if c.get('kind') == 'scope':
            v = scope_check(c, o)
            if v:
                viol.append(v)
        else:
            bad = check_node(c['req'], o, int(c.get('base', 0)))
            if bad:
                viol.append({'case': c, 'impl': o, 'expected': 'balanced stack, current request = self in views, finished callbacks once in order last, response callbacks then NewResponse iff a response left the tween chain',
                             'detail': '; '.join(bad[:4])})
    return obs, mism, viol, agree


def violates(case):
    try:
        if case.get('kind') not in ('scope', 'pipeline'):
            return False
        if case.get('kind') == 'scope':
            if not scope_wf(case):
                return False
            o = run_scope(case)
            v = scope_check(case, o)
            return bool(v) and not v.get('finding')
        if not pipeline_wf(case):
            return False
        return bool(check_node(case['req'], run_pipeline(case), int(case.get('base', 0))))
    except Exception:
        return False


def shrink_violations(viol, limit=3):
    out = []
    viol = sorted(viol, key=lambda v: (bool(v.get('finding')), len(json.dumps(v.get('case'), default=str))))
    for v in viol:
        if v.get('finding') or len(out) >= limit:
            out.append(v)
            continue
        small = vfutil.shrink(v['case'], violates, max_steps=400)
        if small != v['case'] and violates(small):
            if small.get('kind') == 'scope':
                o = run_scope(small)
                v2 = scope_check(small, o)
            else:
                o = run_pipeline(small)
                v2 = {'case': small, 'impl': o, 'expected': v['expected'],
                      'detail': '; '.join(check_node(small['req'], o, int(small.get('base', 0)))[:4])}
            out.append(v2)
        else:
            out.append(v)
    return out


def account(cases, obs, dist, seen, nontriv):
    for c, o in zip(cases, obs):
        if o is None:
            vfutil.bump(dist['kinds'], 'malformed')
            continue
        key = vfutil.canon(c)
        if c.get('kind') == 'scope':
            vfutil.bump(dist['kinds'], 'scope')
            vfutil.bump(dist['scope_scenarios'], c['scenario'])
        else:
            vfutil.bump(dist['kinds'], 'pipeline')
            vfutil.bump(dist['top_outcome'], o['out'])
            vfutil.bump(dist['base_depths'], str(c.get('base', 0)))
            nodes = list(tree_nodes(c['req'], o))
            vfutil.bump(dist['requests_per_tree'], str(min(len(nodes), 6)))

            def depth_of(nd):
                return 1 + max([depth_of(k) for k in nd['kids']] or [0])
            vfutil.bump(dist['tree_depth'], str(depth_of(o)))
            for spec, node, top, _d in nodes:
                if not top and not spec.get('tw'):
                    dist['subrequests_without_tweens'] += 1
                if spec.get('xx') is not None:
                    dist['explicit_excview_cases'] += 1
                for e in node['own']:
                    if e[0] == 'chain':
                        dist['chain']['responded' if e[1] else 'raised'] += 1
                    elif e[0] == 'hook':
                        if e[1] == 'excView':
                            dist['excview_runs'] += 1
                        f = fault_of(spec, e[1])
                        if f is not None:
                            vfutil.bump(dist['fault_points_reached'], '%s:%s' % (e[1], f))
                    elif e[0] == 'cb':
                        dist['callbacks_run'][e[1]] += 1
                        if reg_fault(spec, e[2]):
                            dist['failing_callbacks_run'] += 1
                    elif e[0] == 'reg':
                        st = spec['regs'][e[2]][0]
                        vfutil.bump(dist['registration_stages'], '%s:%s' % (st, e[1]))
        if key not in seen:
            seen.add(key)
            if nontrivial(c, o):
                nontriv.add(key)


def run(ctx):
    rng = ctx.rng
    corpus = [c for _, c in ctx.corpus()]
    cases = list(corpus)
    cases += all_scope_cases()
    singles = single_fault_cases()
    cases += singles
    n = ctx.n(12000, 150000)
    fixed = len(cases)
    seen, nontriv = set(), set()
    dist = {'kinds': {}, 'top_outcome': {}, 'requests_per_tree': {}, 'tree_depth': {}, 'chain': {'responded': 0, 'raised': 0},
            'fault_points_reached': {}, 'callbacks_run': {'resp': 0, 'fin': 0}, 'failing_callbacks_run': 0,
            'excview_runs': 0, 'explicit_excview_cases': 0, 'subrequests_without_tweens': 0, 'scope_scenarios': {},
            'registration_stages': {}, 'base_depths': {}}
    mism, viol, agree, total, last = [], [], 0, 0, []
    todo = n
    chunk = cases
    while chunk:
        obs, m1, v1, a1 = eval_cases(ctx, chunk)
        mism += m1; viol += v1; agree += a1; total += len(chunk)
        account(chunk, obs, dist, seen, nontriv)
        last = chunk[-3:]
        if ctx.time_left() < 120 or len(mism) > 50 or len(viol) > 200:
            break
        k = min(todo, 4000)
        todo -= k
        chunk = [gen_pipeline(rng) for _ in range(k)]
    viol = shrink_violations(viol)
    notes = []
    # the excluded point of finished_once_in_order_last (a finished callback fails: outside the statement's fault list)
    ex = {'kind': 'pipeline', 'xv': False, 'base': 0, 'req': {'tw': True, 'route': False, 'faults': [], 'xx': None, 'subs': [],
                                                           'regs': [['newRequest', 'fin', 'plain'], ['viewBody', 'fin', None]]}}
    t = run_pipeline(ex)
    notes.append('excluded point (a finished callback raises; not in the statement\'s fault list): finished callbacks run %s of registered %s, stack depth after %s, outcome %s'
                 % ([e[2] for e in t['own'] if e[0] == 'cb'], [e[2] for e in t['own'] if e[0] == 'reg'], t['depth'], t['out']))
    _, sinfo = get_sites(ctx)
    if sinfo is not None:
        notes.append('skeleton translator: %d sites, unknown constructs %s, no-raise sites %s' % (len(sinfo['sites']), sinfo.get('unknowns'), sinfo.get('noRaise')))
    samples = [c for c in cases[len(corpus):] if c.get('kind') == 'scope'][:2] + singles[40:42] + last
    return {'evaluations': total, 'distinct_nontrivial': len(nontriv), 'rule': RULE, 'agreeing': agree,
            'samples': samples, 'mismatches': mism[:20], 'violations': viol, 'distribution': dist, 'notes': notes,
            'exhaustive': True,
            'assumptions': ['per-thread model: threading.local (one stack per thread) is the runtime\'s',
                            'user callables (views, tweens, subscribers, factories, predicates, callbacks) leave the stack as they found it',
                            'a failing finished callback is outside the statement\'s fault list (router: later finished callbacks are skipped, stack still balanced)',
                            'reading of the statement: NewResponse is emitted iff the response-callback phase completes (DESIGN.md §3 C13)'],
            'trusted_base': ['translator extract/c13.py: callee resolution table, the no-raise list (AppEnvironment(...)), attribute access/properties not modelled as calls',
                             'exhaustive part: every single failing hook x kind x exception-view setting x route/traversal x request position (depth <= 2), every scope x single/double failing hook']}


def search(ctx):
    """failing-input search on the implementation alone (oracle only): all scope cases, the single-failure
    enumeration, all pairs of failures in one request (no subrequests), then the random stream"""
    viol, n = [], 0

    def feed(cs):
        nonlocal n
        for c in cs:
            n += 1
            if violates(c):
                if c.get('kind') == 'scope':
                    viol.append(scope_check(c, run_scope(c)))
                else:
                    o = run_pipeline(c)
                    viol.append({'case': c, 'impl': o, 'expected': 'C13 (see harness oracle)',
                                 'detail': '; '.join(check_node(c['req'], o, int(c.get('base', 0)))[:4])})
                if len(viol) >= 5:
                    return True
        return False
    done = feed([c for _, c in ctx.corpus()]) or feed(all_scope_cases()) or feed(single_fault_cases())
    exhaustive = not done
    if not done:
        pts = [(p, k) for p in POINTS for k in (KINDS if p in SOFT_POINTS else ['plain', 'http'])]
        pairs = []
        for (a, b) in itertools.combinations(pts, 2):
            if a[0] == b[0]:
                continue
            for xv in (False, True):
                pairs.append({'kind': 'pipeline', 'xv': xv, 'base': 0,
                              'req': {'tw': True, 'route': True, 'faults': [list(a), list(b)], 'regs': [list(r) for r in STD_REGS], 'xx': None, 'subs': []}})
        done = feed(pairs)
        exhaustive = not done
    if not done:
        for _ in range(ctx.n(20000, 100000)):
            if ctx.time_left() < 60:
                exhaustive = False
                break
            if feed([gen_pipeline(ctx.rng)]):
                break
    return {'violations': shrink_violations(viol), 'searched': n, 'exhaustive': exhaustive}


def replay(ctx, rep):
    case = rep.get('case')
    if case is None:
        return {'violates': False, 'note': 'replay names broken obligations only', 'broken': rep.get('broken_obligations')}
    obs, mism, viol, _ = eval_cases(ctx, [case])
    return {'case': case, 'impl': obs[0], 'mismatch': mism[:1], 'violations': viol,
            'finding': next((v.get('finding') for v in viol if v.get('finding')), None),
            'detail': viol[0].get('detail') if viol else None, 'violates': bool(viol)}


if __name__ == '__main__':
    case = json.loads(sys.argv[1])
    print(json.dumps(run_pipeline(case)))
