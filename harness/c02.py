"""C02 — traversal resolves context, view name, subpath and traversed as documented.

Correspondence of lean/PyramidModel/Traversal.lean with pyramid.traversal (ResourceTreeTraverser.__call__,
split_path_info, traversal_path_info, traversal_path, traverse, _join_path_tuple) run in-process — through
Router.__call__ from a raw PATH_INFO, through real routes (match dictionary), directly, and through the public
helpers — plus the property itself evaluated on the implementation by a Python oracle that does not need Lean.

Case shapes (JSON; names are str, WSGI strings are str with all characters < 256, i.e. raw bytes):
  {"mode":"router","tree":T,"path":wsgi|null,"vroot":wsgi|null}          PATH_INFO through Router.__call__
  {"mode":"route", "tree":T,"path":wsgi,"vroot":wsgi|null}               PATH_INFO hitting one of the routes
  {"mode":"direct","tree":T,"path":wsgi|null,"vroot":wsgi|null,"md":null|{"traverse":X,"subpath":X}}
  {"mode":"api",   "tree":T,"start":[name…],"path":str|[name…]}          pyramid.traversal.traverse()
  {"mode":"find",  "tree":T,"start":[name…],"path":str|[name…]}          pyramid.traversal.find_resource()
  {"mode":"tpath","path":str} {"mode":"tpi","path":wsgi} {"mode":"split","path":str} {"mode":"join","tuple":[…]}
  {"mode":"hist","tree":T,"ops":[case…]}   a HISTORY: the ops (ordinary cases; "tree" taken from the history when an
                                           op has none) run one after the other in a fresh process state (every memo
                                           of pyramid.traversal emptied first); each call's outcome must equal the
                                           outcome of the same call made alone in a fresh state
  T = {"g":bool,"k":[[name,T],…]}   X = str | [str…]   (key absent = not in the match dictionary)
"""
import io, itertools, json, re, sys

import vfutil
from vfutil import bump

from pyramid import traversal as T
from pyramid.interfaces import VH_ROOT_KEY

RULE = ('a traversal case (router/route/direct/api) is non-trivial when the walk stops strictly inside the path '
        '(a view name is produced) or a virtual-root header is present or the path contains a "", ".", ".." '
        'segment; a helper case (tpath/tpi/split/join/find) when its input holds a "..", a percent escape or a non-ASCII '
        'character; distinct = distinct canonical case JSON')

FIELDS = ('context', 'view_name', 'subpath', 'traversed', 'virtual_root', 'virtual_root_path')

# ------------------------------------------------------------------------------------------------
# real objects


class Node(dict):
    """location-aware container"""


class Leaf:
    """location-aware resource without item lookup"""


def build(tree, name=None, parent=None, pos=(), index=None):
    ob = Node() if tree['g'] else Leaf()
    ob.__name__ = name
    ob.__parent__ = parent
    if index is not None:
        index[id(ob)] = list(pos)
    kids = {}
    for n, sub in tree['k']:
        if n in kids:
            continue                      # dict semantics: the model finds the first entry
        c = build(sub, n, ob, pos + (n,), index if tree['g'] else None)
        kids[n] = c
    if tree['g']:
        dict.update(ob, kids)
    return ob


def kid(tree, name):
    for n, sub in tree['k']:
        if n == name:
            return sub
    return None


def resolve(tree, pos):
    for n in pos:
        tree = kid(tree, n)
        if tree is None:
            return None
    return tree


# ------------------------------------------------------------------------------------------------
# the application used for the Router modes (built once per process)

ROUTES = [('t', '/_t/*traverse', {}), ('s', '/_s/{traverse:.*}', {}), ('u', '/_u/{x}/*subpath', {'traverse': '/{x}'}),
          ('v', '/_v/{traverse}/{subpath}', {}), ('w', '/_w/{traverse}', {}), ('p', '/_p/{y}/*subpath', {})]
_APP = {}


def get_app():
    if 'app' in _APP:
        return _APP
    from pyramid.config import Configurator
    from pyramid.response import Response
    from webob import Request as WR
    holder = _APP

    def rec(context, request):
        idx = holder['index']
        holder['seen'] = {
            'context': idx.get(id(request.context)), 'view_name': request.view_name,
            'subpath': list(request.subpath), 'traversed': list(request.traversed),
            'virtual_root': idx.get(id(request.virtual_root)), 'virtual_root_path': list(request.virtual_root_path),
            'root_ok': request.root is holder['root'], 'matchdict': request.matchdict}
        return Response('ok')

    def build_cfg(with_routes):
        cfg = Configurator(root_factory=lambda request: holder['root'])
        cfg.add_view(rec)
        cfg.add_notfound_view(rec)
        if with_routes:
            for rn, pat, kw in ROUTES:
                cfg.add_route(rn, pat, **kw)
                cfg.add_view(rec, route_name=rn)
        return cfg.make_wsgi_app()

    holder['app'] = build_cfg(True)
    holder['app_noroutes'] = build_cfg(False)
    holder['environ'] = WR.blank('/').environ
    return holder


def err_name(e):
    from pyramid.exceptions import URLDecodeError
    if isinstance(e, URLDecodeError):
        return 'urldecode'
    if isinstance(e, UnicodeDecodeError):
        return 'unicodedecode'
    if isinstance(e, UnicodeEncodeError):
        return 'unicodeencode'
    if isinstance(e, KeyError):
        return 'keyerror'
    return 'raised:' + type(e).__name__


def canon_result(d, index):
    return {'context': index.get(id(d['context'])), 'view_name': d['view_name'], 'subpath': list(d['subpath']),
            'traversed': list(d['traversed']), 'virtual_root': index.get(id(d['virtual_root'])),
            'virtual_root_path': list(d['virtual_root_path'])}


def impl(case):
    """run the real code; returns ({'ok':…}|{'err':…}, extra) — extra carries the observed match dictionary"""
    mode = case['mode']
    extra = {}
    try:
        if mode in ('router', 'route'):
            h = get_app()
            index = {}
            root = build(case['tree'], index=index)
            h['root'], h['index'] = root, index
            h.pop('seen', None)
            env = dict(h['environ'])
            env['wsgi.input'] = io.BytesIO()
            if case.get('path') is None:
                env.pop('PATH_INFO', None)
            else:
                env['PATH_INFO'] = case['path']
            if case.get('vroot') is not None:
                env[VH_ROOT_KEY] = case['vroot']
            app = h['app'] if (mode == 'route' or case.get('with_routes')) else h['app_noroutes']
            app(env, lambda *a, **k: None)
            seen = h.get('seen')
            if seen is None:
                return {'err': 'no-view-called'}, extra
            md = seen.pop('matchdict')
            extra['md'] = None if md is None else {k: (list(v) if isinstance(v, tuple) else v) for k, v in md.items()}
            if not seen.pop('root_ok'):
                return {'err': 'request.root is not the root'}, extra
            return {'ok': seen}, extra
        if mode == 'direct':
            from pyramid.request import Request
            index = {}
            root = build(case['tree'], index=index)
            env = {}
            if case.get('path') is not None:
                env['PATH_INFO'] = case['path']
            if case.get('vroot') is not None:
                env[VH_ROOT_KEY] = case['vroot']
            req = Request(env)
            md = case.get('md')
            if md is not None:
                md = {k: (tuple(v) if isinstance(v, list) else v) for k, v in md.items()}
            req.matchdict = md
            d = T.ResourceTreeTraverser(root)(req)
            if d['root'] is not root:
                return {'err': 'root is not the root'}, extra
            return {'ok': canon_result(d, index)}, extra
        if mode == 'api':
            index = {}
            root = build(case['tree'], index=index)
            start = root
            for n in case['start']:
                if not isinstance(start, Node) or n not in start:
                    return {'err': 'badcase'}, extra
                start = start[n]
            path = case['path']
            if isinstance(path, list):
                path = tuple(path)
            d = T.traverse(start, path)
            base = index[id(d['root'])]
            r = canon_result(d, index)
            for f in ('context', 'virtual_root'):      # positions relative to the resource the walk started from
                if r[f] is None or r[f][:len(base)] != base:
                    return {'err': 'result outside the start resource'}, extra
                r[f] = r[f][len(base):]
            return {'ok': {'base': base, 'res': r}}, extra
        if mode == 'find':
            index = {}
            root = build(case['tree'], index=index)
            start = root
            for n in case['start']:
                if not isinstance(start, Node) or n not in start:
                    return {'err': 'badcase'}, extra
                start = start[n]
            path = case['path']
            if isinstance(path, list):
                path = tuple(path)
            ob = T.find_resource(start, path)
            pos = index.get(id(ob))
            return ({'ok': pos} if pos is not None else {'err': 'result is not a resource of the tree'}), extra
        if mode == 'tpath':
            return {'ok': list(T.traversal_path(case['path']))}, extra
        if mode == 'tpi':
            return {'ok': list(T.traversal_path_info(case['path']))}, extra
        if mode == 'split':
            return {'ok': list(T.split_path_info(case['path']))}, extra
        if mode == 'join':
            return {'ok': T._join_path_tuple(tuple(case['tuple']))}, extra
    except Exception as e:          # noqa
        return {'err': err_name(e)}, extra
    return {'err': 'bad-mode'}, extra


# ------------------------------------------------------------------------------------------------
# the model side

def codes(s):
    return [ord(c) for c in s]


def jtree(t):
    return {'g': t['g'], 'k': [[codes(n), jtree(s)] for n, s in t['k']]}


def jsot(x):
    if x is None:
        return None
    if isinstance(x, str):
        return {'s': codes(x)}
    return {'t': [codes(y) for y in x]}


def model_case(case, extra):
    mode = case['mode']
    if mode in ('router', 'route', 'direct'):
        md = extra.get('md') if mode != 'direct' else case.get('md')
        j = {'op': 'trav', 'tree': jtree(case['tree']),
             'path': None if case.get('path') is None else codes(case['path']),
             'vroot': None if case.get('vroot') is None else codes(case['vroot']), 'md': None}
        if md is not None:
            j['md'] = {'traverse': jsot(md.get('traverse')), 'subpath': jsot(md.get('subpath'))}
        return j
    if mode in ('api', 'find'):
        return {'op': 'api', 'tree': jtree(case['tree']), 'start': [codes(n) for n in case['start']], 'path': jsot(case['path'])}
    if mode == 'tpath':
        return {'op': 'tpath', 'path': codes(case['path'])}
    if mode == 'tpi':
        return {'op': 'tpi', 'path': codes(case['path'])}
    if mode == 'split':
        return {'op': 'split', 'path': codes(case['path'])}
    if mode == 'join':
        return {'op': 'join', 'tuple': [codes(x) for x in case['tuple']]}
    raise ValueError(mode)


def txt(cs):
    return ''.join(map(chr, cs))


def find_of_api(r):
    """find_resource in terms of traverse(): the context when the path is exhausted, KeyError otherwise"""
    if r is None or 'ok' not in r:
        return r
    res = r['ok']['res']
    if res['view_name']:
        return {'err': 'keyerror'}
    return {'ok': r['ok']['base'] + res['context']}


def decode_result(r):
    return {'context': [txt(x) for x in r['context']], 'view_name': txt(r['view_name']),
            'subpath': [txt(x) for x in r['subpath']], 'traversed': [txt(x) for x in r['traversed']],
            'virtual_root': [txt(x) for x in r['virtual_root']], 'virtual_root_path': [txt(x) for x in r['virtual_root_path']]}


def decode_model(case, mo):
    """model reply in the canonical form of impl()"""
    if mo is None:
        return None, None
    if 'error' in mo:
        return {'err': 'driver:' + str(mo['error'])}, None
    mode = case['mode']
    spec = None
    if 'err' in mo:
        out = {'err': mo['err']}
    elif mode in ('router', 'route', 'direct'):
        out = {'ok': decode_result(mo['ok'])}
    elif mode == 'api':
        out = {'ok': {'base': [txt(x) for x in mo['ok']['base']], 'res': decode_result(mo['ok']['res'])}}
    elif mode == 'find':
        out = find_of_api({'ok': {'base': [txt(x) for x in mo['ok']['base']], 'res': decode_result(mo['ok']['res'])}})
    elif mode == 'join':
        out = {'ok': txt(mo['ok'])}
    else:
        out = {'ok': [txt(x) for x in mo['ok']]}
    if 'spec' in mo:
        s = mo['spec']
        spec = {'err': s['err']} if 'err' in s else {'ok': decode_result(s['ok'])}
    return out, spec


# ------------------------------------------------------------------------------------------------
# the property, stated directly (independent of Lean)

def spec_split(text):
    """drop '' and '.', '..' drops the previous segment but never climbs above the root"""
    out = []
    for seg in text.split('/'):
        if seg == '' or seg == '.':
            continue
        if seg == '..':
            if out:
                out.pop()
        else:
            out.append(seg)
    return out


def spec_walk(tree, vt, pt, sub0):
    """walk vt ++ pt from the root by item lookup"""
    segs = vt + pt
    node, k = tree, 0
    spec_walk.why = 'exhausted'
    while k < len(segs):
        s = segs[k]
        if s.startswith('@@'):
            spec_walk.why = 'selector'; break
        if not node['g']:
            spec_walk.why = 'leaf'; break
        nxt = kid(node, s)
        if nxt is None:
            spec_walk.why = 'keyerror'; break
        node, k = nxt, k + 1
    if k == len(segs):
        return {'context': segs, 'view_name': '', 'subpath': list(sub0), 'traversed': segs,
                'virtual_root': vt, 'virtual_root_path': vt}, k
    s = segs[k]
    return {'context': segs[:k], 'view_name': s[2:] if s.startswith('@@') else s, 'subpath': segs[k + 1:],
            'traversed': segs[:k], 'virtual_root': vt if len(vt) <= k else [], 'virtual_root_path': vt}, k


def utf8(wsgi):
    try:
        return wsgi.encode('latin-1').decode('utf-8')
    except UnicodeDecodeError:
        return None


_PCT = re.compile(r'%([0-9a-fA-F]{2})')


def pct_decode(s):
    """independent percent-decoder: ASCII text -> WSGI string"""
    return _PCT.sub(lambda m: chr(int(m.group(1), 16)), s)


def request_path(case, extra):
    """(path text, subpath, error) as the traverser is to derive them from the request"""
    md = extra.get('md') if case['mode'] != 'direct' else case.get('md')
    if md is not None:
        tr = md.get('traverse', '/')
        if isinstance(tr, list):
            path = '/' + '/'.join(tr) if tr else '/'
        else:
            path = tr or '/'
        sp = md.get('subpath', [])
        if isinstance(sp, str):
            sp = spec_split(sp)
        return path, list(sp), None
    raw = case.get('path') or ''
    p = utf8(raw)
    if p is None:
        return None, None, 'urldecode'
    return p or '/', [], None


def expected(case, extra):
    """what the property demands: ({'ok':…}|{'err':…}|None when the case is outside the property, info)"""
    mode = case['mode']
    info = {}
    if mode in ('router', 'route', 'direct'):
        if mode == 'route' or case.get('with_routes'):
            # the routes mapper decodes PATH_INFO first
            if utf8(case.get('path') or '') is None:
                return {'err': 'urldecode'}, info
        path, sub0, err = request_path(case, extra)
        if err:
            return {'err': err}, info
        vt = []
        if case.get('vroot') is not None:
            v = utf8(case['vroot'])
            if v is None:
                return {'err': 'unicodedecode'}, info
            vt = spec_split(v)
            info['vroot_text'] = v
        pt = spec_split(path)
        info['path_text'] = path
        out, k = spec_walk(case['tree'], vt, pt, sub0)
        info.update(vt=vt, pt=pt, k=k, why=spec_walk.why)
        return {'ok': out}, info
    if mode == 'find':
        exp, info = expected(dict(case, mode='api'), extra)
        return find_of_api(exp), info
    if mode == 'api':
        path = case['path']
        start = list(case['start'])
        if isinstance(path, list):
            # a path tuple: names as they are; '' first = absolute.  '/'.join + normalisation is the documented reading
            if path and re.match(r'^[A-Za-z]+:', path[0]):
                return None, {'outside': 'scheme'}       # F-C07c, stated and recorded under C07
            absolute = bool(path) and path[0] == ''
            text = '/'.join(path)
        else:
            try:
                path.encode('ascii')
            except UnicodeEncodeError:
                return {'err': 'unicodeencode'}, info
            if re.match(r'^[A-Za-z]+:', path):
                return None, {'outside': 'scheme'}
            if '?' in path or re.search(r'%(?![0-9a-fA-F]{2})', path):
                return None, {'outside': 'unescaped'}
            absolute = path.startswith('/')
            text = utf8(pct_decode(path))
            if text is None:
                return {'err': 'urldecode'}, info
        base = [] if absolute else start
        if resolve(case['tree'], start) is None:
            return None, {'outside': 'badcase'}
        sub = resolve(case['tree'], base)
        out, k = spec_walk(sub, [], spec_split(text), [])
        info.update(vt=[], pt=spec_split(text), k=k, why=spec_walk.why)
        return {'ok': {'base': base, 'res': out}}, info
    if mode == 'tpath':
        p = case['path']
        try:
            p.encode('ascii')
        except UnicodeEncodeError:
            return {'err': 'unicodeencode'}, info
        t = utf8(pct_decode(p))
        return ({'err': 'urldecode'} if t is None else {'ok': spec_split(t)}), info
    if mode == 'tpi':
        t = utf8(case['path'])
        return ({'err': 'urldecode'} if t is None else {'ok': spec_split(t)}), info
    if mode == 'split':
        return {'ok': spec_split(case['path'])}, info
    if mode == 'join':
        return None, {'outside': 'join is checked against the model only (C07 states its property)'}
    return None, info


def classify(case, extra, got, exp, info):
    """finding id for a violating case, or None.  One class is left (F-C02b / F-C02c were repaired in 939e5de and are
    no longer tolerated anywhere): F-C02a = a virtual-root header that normalises to at least one segment AND the
    walk stops before the combined path is exhausted.  Then — and only then — 'traversed' is allowed to be the
    consumed segments plus the next len(virtual_root_path) segments (vpath_tuple[: vroot_idx + i + 1]); every other
    field must be what the property demands, and any other value of 'traversed' is an unknown violation."""
    if case['mode'] not in ('router', 'route', 'direct') or 'ok' not in got or 'ok' not in exp:
        return None
    if info.get('vroot_text') is None or 'vt' not in info:
        return None
    vt, pt, k = info['vt'], info['pt'], info['k']
    segs = vt + pt
    if not (vt and k < len(segs)):
        return None
    diff = [f for f in FIELDS if got['ok'][f] != exp['ok'][f]]
    if diff == ['traversed'] and got['ok']['traversed'] == segs[:k + len(vt)]:
        return 'F-C02a'
    return None


# ------------------------------------------------------------------------------------------------
# generators

SIMPLE = ['a', 'b', 'c', 'foo', 'bar', 'abc', 'x', 'y1']
UNI = ['é', 'ß', '日本', '語', '€', '😀', 'я', 'La Peña', 'ñ', '𝔘', 'é']
TRICKY = [' ', 'a b', '%41', 'a%2Fb', '100%', '+', 'x;y', ':', 'http:', 'a:b', "it's", '~t', 'a.b', '.a', '...', '@', '@x',
          'x@@y', '?', 'q?r', '#', '&=', '(1)', 'A', '%', '%zz', '\\', '\t', 'a\nb', '\x7f', '\x00']
UNREACHABLE = ['', '.', '..', '@@', '@@v', 'a/b', '/']
VIEWS = ['@@', '@@v', '@@edit', '@@é', 'view', 'edit.html', 'zz', 'missing', 'é2', '%2e']
HEX = '0123456789abcdefABCDEF'


def gen_name(rng):
    r = rng.random()
    if r < 0.5:
        return rng.choice(SIMPLE)
    if r < 0.7:
        return rng.choice(UNI)
    if r < 0.88:
        return rng.choice(TRICKY)
    if r < 0.93:
        return rng.choice(UNREACHABLE)
    return vfutil.rand_text(rng, 5, allow_empty=False, p_control=0.05)


def gen_tree(rng, depth, fan=3):
    """random tree; leaves without item lookup appear at every level below the root"""
    def go(d, is_root):
        if not is_root and rng.random() < (0.25 if d > 0 else 0.5):
            return {'g': False, 'k': ([[gen_name(rng), go(0, False)]] if rng.random() < 0.1 else [])}
        if d == 0:
            return {'g': True, 'k': []}
        kids, seen = [], set()
        for _ in range(rng.randint(0 if not is_root else 1, fan)):
            n = gen_name(rng)
            if n in seen and rng.random() < 0.9:
                continue
            seen.add(n)
            kids.append([n, go(d - 1, False)])
        return {'g': True, 'k': kids}
    return go(depth, True)


def descent(rng, tree, maxlen=6, p_stop=0.25):
    """a chain of existing names from the root"""
    out, node = [], tree
    while node['g'] and node['k'] and len(out) < maxlen and rng.random() > p_stop:
        n, sub = rng.choice(node['k'])
        if n in ('', '.', '..') or '/' in n or n.startswith('@@'):
            if rng.random() < 0.7:
                break
        out.append(n)
        node = kid(node, n)             # duplicates: the first entry is the one that exists
    return out


def noise(rng, segs, p=0.25):
    """sprinkle '', '.', and 'x/..' detours that do not change the meaning, sometimes a real '..'"""
    out = []
    for s in segs:
        r = rng.random()
        if r < p * 0.3:
            out.append('')
        elif r < p * 0.6:
            out.append('.')
        elif r < p * 0.85:
            out += [rng.choice(SIMPLE + UNI), '..']
        elif r < p:
            out.append('..')
        out.append(s)
    return out


def gen_tail(rng):
    r = rng.random()
    if r < 0.35:
        return []
    tail = [rng.choice(VIEWS + SIMPLE)]
    while rng.random() < 0.5 and len(tail) < 4:
        tail.append(rng.choice(SIMPLE + UNI + ['', '.', '..', '@@x', 'a b']))
    return tail


def to_wsgi(text):
    return text.encode('utf-8').decode('latin-1')


BAD_UTF8 = ['\xff', '\xc3', '\xc0\x80', '\xed\xa0\x80', '\xf4\x90\x80\x80', '\xe2\x82', '\x80', '\xc3\x28', '\xf8\x88\x80\x80\x80']


def join_path(rng, segs, lead=True):
    p = '/'.join(segs)
    if lead:
        p = '/' + p
    r = rng.random()
    if r < 0.15:
        p += '/'
    elif r < 0.2:
        p += '//'
    elif r < 0.23:
        p = '/' + p
    return p


def gen_vroot(rng, tree, chain, j):
    """(vroot text or None, kind)"""
    r = rng.random()
    if r < 0.45:
        return None, 'absent'
    if r < 0.50:
        return '/', 'slash'
    if r < 0.53:
        return '', 'empty'
    if r < 0.80:
        segs = chain[:j]
        kind = 'existing'
    elif r < 0.90:
        segs = chain[:j] + [rng.choice(['zz', 'missing', 'é9'])] + ([rng.choice(SIMPLE)] if rng.random() < 0.3 else [])
        kind = 'missing'
    else:
        segs = noise(rng, chain[:j], 0.6)
        kind = 'noisy'
    v = '/' + '/'.join(segs)
    q = rng.random()
    if q < 0.2:
        v += '/'
        kind += '+trailing'
    elif q < 0.25 and segs:
        v = v[1:]
        kind += '+nolead'
    return v, kind


def gen_traversal(rng, deep):
    tree = gen_tree(rng, rng.choice([1, 2, 2, 3, 3, 4] + ([5, 6] if deep else [])))
    chain = descent(rng, tree)
    j = rng.randint(0, len(chain))
    vroot, vkind = gen_vroot(rng, tree, chain, j)
    if vkind.startswith('existing') or vkind.startswith('noisy'):
        rest = chain[j:]
    elif vkind.startswith('missing'):
        rest = chain[j:] if rng.random() < 0.5 else chain
    else:
        rest = chain
    segs = rest + gen_tail(rng)
    if rng.random() < 0.35:
        segs = noise(rng, segs)
    return tree, vroot, vkind, segs


def gen_case(rng, deep=False):
    if rng.random() < 0.06:
        return gen_twin_single(rng)          # the confusable-twins family (defined with the history checks below)
    r = rng.random()
    if r < 0.62:
        tree, vroot, vkind, segs = gen_traversal(rng, deep)
        m = rng.random()
        case = {'tree': tree, 'vroot': None if vroot is None else to_wsgi(vroot)}
        if m < 0.40:
            case['mode'] = 'router'
            case['path'] = to_wsgi(join_path(rng, segs))
            if rng.random() < 0.3:
                case['with_routes'] = True
            q = rng.random()
            if q < 0.06:
                case['path'] = ''
            elif q < 0.09:
                case['path'] = case['path'][1:]
            elif q < 0.15:
                i = rng.randint(0, len(case['path']))
                case['path'] = case['path'][:i] + rng.choice(BAD_UTF8) + case['path'][i:]
            if case['vroot'] is not None and rng.random() < 0.04:
                case['vroot'] += rng.choice(BAD_UTF8)
        elif m < 0.62:
            case['mode'] = 'route'
            rn = rng.choice(['t', 't', 's', 's', 'u', 'v', 'w', 'p'])
            if rn in ('t', 's'):
                p = '/_%s%s' % (rn, join_path(rng, segs))
            elif rn in ('u', 'p'):
                p = '/_%s/%s%s' % (rn, (segs[0] if segs and segs[0] and '/' not in segs[0] else 'a'), join_path(rng, segs[1:]))
            elif rn == 'v':
                p = '/_v/%s/%s' % ((segs[0] if segs and segs[0] and '/' not in segs[0] else 'a'), (segs[1] if len(segs) > 1 and segs[1] else 'b'))
            else:
                p = '/_w/%s' % (segs[0] if segs and segs[0] and '/' not in segs[0] else 'a')
            case['path'] = to_wsgi(p)
            if rng.random() < 0.04:
                case['path'] += rng.choice(BAD_UTF8)
        else:
            case['mode'] = 'direct'
            case['path'] = to_wsgi(join_path(rng, segs)) if rng.random() < 0.8 else rng.choice([None, '', '/', 'x'])
            q = rng.random()
            if q < 0.5:
                md = {}
                t = rng.random()
                if t < 0.35:
                    md['traverse'] = list(segs)
                elif t < 0.6:
                    md['traverse'] = join_path(rng, segs, lead=rng.random() < 0.6)
                elif t < 0.7:
                    md['traverse'] = rng.choice(['', [], '/', ['']])
                s = rng.random()
                if s < 0.3:
                    md['subpath'] = [rng.choice(SIMPLE + UNI + ['..', '.', '']) for _ in range(rng.randint(0, 3))]
                elif s < 0.6:
                    md['subpath'] = '/'.join(rng.choice(SIMPLE + UNI + ['..', '.', '']) for _ in range(rng.randint(0, 4)))
                case['md'] = md
                if rng.random() < 0.1:
                    case['path'] = '/\xff'          # never read when a match dictionary is present
            else:
                case['md'] = None
                if rng.random() < 0.06 and case['path']:
                    case['path'] += rng.choice(BAD_UTF8)
        return case
    if r < 0.78:
        # traverse(resource, path)
        tree = gen_tree(rng, rng.choice([1, 2, 3, 3, 4]))
        chain = descent(rng, tree, p_stop=0.15)
        j = rng.randint(0, len(chain))
        start = chain[:j]
        # the start resource must be reachable by plain item lookup from the harness' point of view
        node = tree
        ok = []
        for n in start:
            if not node['g']:
                break
            node = kid(node, n)
            ok.append(n)
        start = ok
        absolute = rng.random() < 0.5
        segs = (chain if absolute else chain[len(start):]) + gen_tail(rng)
        if rng.random() < 0.25:
            segs = noise(rng, segs)
        if rng.random() < 0.5:
            path = ([''] if absolute else []) + segs
            if not absolute and path and path[0] == '':
                path = path[1:]
        else:
            path = '/'.join(quote_some(rng, s) for s in segs)
            if absolute:
                path = '/' + path
            q = rng.random()
            if q < 0.1:
                path += '/'
            elif q < 0.13:
                path += rng.choice(['%', '%4', '%zz', '?x=1', 'é'])
        return {'mode': 'find' if rng.random() < 0.2 else 'api', 'tree': tree, 'start': start, 'path': path}
    segs = [gen_name(rng) for _ in range(rng.randint(0, 5))]
    if rng.random() < 0.5:
        segs = noise(rng, segs, 0.5)
    m = rng.random()
    if m < 0.3:
        p = '/'.join(quote_some(rng, s) for s in segs)
        if rng.random() < 0.7:
            p = '/' + p
        if rng.random() < 0.1:
            p += rng.choice(['%', '%4', '%zz', '%C3', '%ff', 'é'])
        return {'mode': 'tpath', 'path': p}
    if m < 0.55:
        p = to_wsgi(join_path(rng, segs, lead=rng.random() < 0.8))
        if rng.random() < 0.12:
            i = rng.randint(0, len(p))
            p = p[:i] + rng.choice(BAD_UTF8) + p[i:]
        return {'mode': 'tpi', 'path': p}
    if m < 0.8:
        return {'mode': 'split', 'path': join_path(rng, segs, lead=rng.random() < 0.8)}
    return {'mode': 'join', 'tuple': ([''] if rng.random() < 0.5 else []) + segs}


def quote_some(rng, seg):
    """percent-encode a segment the way a client may: everything that must be, and at random more"""
    out = []
    for b in seg.encode('utf-8'):
        c = chr(b)
        must = not (c.isalnum() and b < 128 or c in "_.-~!$&'()*+,;=:@")
        if must or rng.random() < 0.1:
            h = '%02X' % b
            if rng.random() < 0.3:
                h = h.lower()
            out.append('%' + h)
        else:
            out.append(c)
    return ''.join(out)


# ------------------------------------------------------------------------------------------------
# checking

def check_case(case, model_reply=None, want_model=False):
    """returns (got, extra, mismatch|None, violation|None, info)"""
    if case.get('mode') == 'hist':
        replies = None if model_reply is None else model_reply
        r = eval_hist(case, replies)
        unknown = [v for v in r['violations'] if not v.get('finding')]
        v = (unknown or r['violations'] or [None])[0]
        return {'ok': r['seq']}, {}, (r['mismatches'] or [None])[0], v, {'hist': r}
    got, extra = impl(case)
    exp, info = expected(case, extra)
    viol = mism = None
    if exp is not None and got != exp:
        viol = {'case': case, 'impl': got, 'expected': exp,
                'detail': 'the implementation does not give the outcome the property demands' + (
                    ' (fields: %s)' % [f for f in FIELDS if got['ok'].get(f) != exp['ok'].get(f)]
                    if 'ok' in got and 'ok' in exp and isinstance(got['ok'], dict) and 'context' in got['ok'] else '')}
        f = classify(case, extra, got, exp, info)
        if f:
            viol['finding'] = f
    if model_reply is not None:
        mo, mspec = decode_model(case, model_reply)
        if mo != got and not (mo == {'err': 'outside'}):
            mism = {'case': case, 'impl': got, 'model': mo}
        info['model_spec'] = mspec
        info['model_outside'] = (mo == {'err': 'outside'})
    return got, extra, mism, viol, info


def features(case, info):
    f = []
    p = case.get('path')
    txts = []
    if isinstance(p, str):
        txts.append(p)
    elif isinstance(p, list):
        txts += p
    md = case.get('md') or {}
    for v in md.values():
        txts += v if isinstance(v, list) else [v]
    if 'tuple' in case:
        txts += case['tuple']
    blob = '/'.join(txts)
    segs = blob.split('/')
    if '..' in segs: f.append('dotdot')
    if '.' in segs: f.append('dot')
    if '' in segs[1:-1]: f.append('empty')
    if '%' in blob: f.append('pct')
    if any(ord(c) > 127 for c in blob): f.append('nonascii')
    if '@@' in blob: f.append('selector')
    if blob.endswith('/') and len(blob) > 1: f.append('trailing')
    return f


def nontrivial(case, got, info, feats):
    if case['mode'] in ('router', 'route', 'direct', 'api'):
        r = got.get('ok')
        if isinstance(r, dict) and 'res' in r:
            r = r['res']
        return bool(r and r.get('view_name')) or case.get('vroot') is not None or any(x in feats for x in ('dotdot', 'dot', 'empty'))
    return any(x in feats for x in ('dotdot', 'pct', 'nonascii'))


def clear_caches():
    """fresh-process state of pyramid.traversal: EVERY memo of the module is emptied — each function carrying a
    cache_clear() (functools.lru_cache or a home-made wrapper) and each module-level container whose name says
    cache / memo (`_segment_cache`, …) — whatever the tree under test calls them"""
    for name, ob in list(vars(T).items()):
        if name.startswith('__'):
            continue
        cc = getattr(ob, 'cache_clear', None)
        if callable(ob) and callable(cc):
            try:
                cc()
            except Exception:      # noqa
                pass
        elif isinstance(ob, (dict, set, list)) and re.search(r'cache|memo', name, re.I):
            ob.clear()


# ------------------------------------------------------------------------------------------------
# histories: "the outcome never depends on paths resolved earlier in the process"

TREE_MODES = ('router', 'route', 'direct', 'api', 'find')


def fresh_state():
    """the nearest thing to a new process: every pyramid module is dropped and imported again (so memos hidden in
    closures / default arguments / class attributes go too), and the harness' own application is rebuilt.  Slow
    (~0.1 s): used to confirm what is reported and in replays; the streams use clear_caches()."""
    global T, VH_ROOT_KEY
    for m in [k for k in sys.modules if k == 'pyramid' or k.startswith('pyramid.')]:
        del sys.modules[m]
    import importlib
    T = importlib.import_module('pyramid.traversal')
    VH_ROOT_KEY = importlib.import_module('pyramid.interfaces').VH_ROOT_KEY
    _APP.clear()


def hist_ops(H):
    t = H.get('tree')
    return [dict(op, tree=t) if ('tree' not in op and op.get('mode') in TREE_MODES and t is not None) else op for op in H['ops']]


def cold_call(op, reset=None):
    """the reference: the call made alone in a fresh state"""
    (reset or clear_caches)()
    return impl(op)


def op_brief(op):
    d = {k: v for k, v in op.items() if k != 'tree'}
    return d


def last_differs(ops, reset=None):
    """does the LAST call of the history give another outcome than the same call made cold?"""
    (reset or clear_caches)()
    got = None
    for op in ops:
        got, _ = impl(op)
    cold, _ = cold_call(ops[-1], reset)
    return got != cold


def eval_hist(H, replies=None, oracle=True, reset=None):
    """run a history from a fresh state; every call must give what the same call gives cold.  With `oracle` the cold
    outcomes are also held against the property oracle (and the model replies, when given)."""
    ops = hist_ops(H)
    (reset or clear_caches)()
    seq = [impl(op)[0] for op in ops]
    cold, extras = [], []
    for op in ops:
        g, e = cold_call(op, reset)
        cold.append(g); extras.append(e)
    viol, mism = [], []
    for i, (x, y) in enumerate(zip(seq, cold)):
        if x != y:
            viol.append({'case': H, 'history': True,
                         'impl': {'at_call': i, 'call': op_brief(ops[i]), 'in_this_history': x, 'in_a_fresh_process': y},
                         'expected': {'the outcome of the same call in a fresh process': y},
                         'detail': 'call #%d of this history (%d calls, started with every memo of pyramid.traversal empty) gives a '
                                   'different outcome than the same call made alone: the outcome depends on the paths resolved '
                                   'earlier in the process' % (i, len(ops))})
            break
    if oracle:
        for i, op in enumerate(ops):
            exp, info = expected(op, extras[i])
            if exp is not None and cold[i] != exp:
                v = {'case': op, 'impl': cold[i], 'expected': exp,
                     'detail': 'the implementation does not give the outcome the property demands (call #%d of a history, made cold)' % i}
                f = classify(op, extras[i], cold[i], exp, info)
                if f:
                    v['finding'] = f
                viol.append(v)
            if replies is not None and replies[i] is not None:
                mo, mspec = decode_model(op, replies[i])
                if mo != cold[i] and mo != {'err': 'outside'}:
                    mism.append({'case': op, 'impl': cold[i], 'model': mo})
                if mspec is not None and exp is not None and mspec != exp:
                    mism.append({'case': op, 'impl': {'python_oracle': exp}, 'model': {'lean_spec': mspec}})
    return {'seq': seq, 'cold': cold, 'extras': extras, 'violations': viol, 'mismatches': mism}


def minimise_history(ops, budget=400, reset=None):
    """delta debugging on the calls before the last one (the last call is the one that misbehaves)"""
    pre, last = list(ops[:-1]), ops[-1]
    n, tests = 2, 0
    while pre and tests < budget:
        chunk = max(1, (len(pre) + n - 1) // n)
        removed = False
        for i in range(0, len(pre), chunk):
            cand = pre[:i] + pre[i + chunk:]
            tests += 1
            if last_differs(cand + [last], reset):
                pre, n, removed = cand, max(n - 1, 2), True
                break
        if not removed:
            if chunk == 1:
                break
            n = min(n * 2, len(pre))
    return pre + [last]


class Recorder:
    """what ran since the memos were last emptied — so that a call that misbehaves in the middle of the stream can be
    turned into a self-contained history that reproduces from a fresh state"""
    CAP = 1500

    def __init__(self):
        self.ops, self.captured, self.dependent, self.tried = [], [], 0, 0

    def cleared(self):
        self.ops = []

    def ran(self, case):
        self.ops.append(case)
        if len(self.ops) > 2 * self.CAP:
            self.ops = self.ops[-self.CAP:]

    def suspicious(self, case, got):
        """`case` (just run, outcome `got`) looks wrong.  Returns None when a cold call gives the same (then it is not
        a matter of history), else a violation: a minimised reproducing history if one can be cut out of the recent
        calls, the bare case otherwise.  Empties the memos."""
        ops = self.ops[-self.CAP:]
        if not ops or ops[-1] is not case:
            ops = ops + [case]
        cold, _ = cold_call(case)
        self.cleared()
        if cold == got:
            return None
        self.dependent += 1
        if self.tried < 3:
            self.tried += 1
            if last_differs(ops):
                ops = minimise_history(ops)
                H = {'mode': 'hist', 'ops': ops}
                r = eval_hist(H, oracle=False)
                if r['violations']:
                    self.captured.append(r['violations'][0])
                    return r['violations'][0]
        if self.captured:
            return False            # counted; a reproducing history of the same kind is already reported
        return {'case': case, 'impl': {'in_the_stream': got, 'in_a_fresh_process': cold}, 'expected': 'same outcome', 'history': 'uncaptured',
                'detail': 'outcome depends on the paths resolved earlier (memoised helpers); no reproducing history could be cut '
                          'out of the last %d calls' % len(ops)}


# --- the "confusable twins": a str that means one path as a WSGI string (UTF-8 bytes read as latin-1) and ANOTHER path
# as decoded text.  traversal_path_info / PATH_INFO take the former, split_path_info / match-dictionary strings the latter.

TWIN_NAMES = ['é', 'café', 'ß', 'ñ', 'La Peña', '日本', '€', 'я', '😀', 'Ã©', 'ü.txt']
TWIN_TAILS = ['', '', '/a', '/a/', '/@@v', '/zz/x', '/leaf/y', '/a/../a']


def wsgi_of(text):
    return text.encode('utf-8').decode('latin-1')


def is_latin1(text):
    return all(ord(c) < 256 for c in text)


def pct_path(text):
    from urllib.parse import quote
    return '/'.join(quote(seg, safe="@!$&'()*+,;=:") for seg in text.split('/'))


def twin_tree(name):
    """the root holds the name AND the texts its WSGI spellings look like (three levels), each a container with the
    same small subtree — so that taking one for the other changes the context"""
    kids, n = [], name
    for _ in range(4):
        kids.append([n, {'g': True, 'k': [['a', {'g': True, 'k': []}], ['leaf', {'g': False, 'k': []}]]}])
        n = wsgi_of(n)
    return {'g': True, 'k': kids + [['a', {'g': True, 'k': []}]]}


TWIN_KINDS = ('tpi', 'split', 'tpath', 'direct', 'md', 'mdtuple', 'vroot', 'router', 'route_s', 'route_t', 'api', 'find')
TEXT_KINDS = ('split', 'md', 'mdtuple')                     # take decoded text
WSGI_KINDS = ('tpi', 'direct', 'router', 'vroot')          # take a WSGI string


def twin_op(kind, s):
    """one call of `kind` that hands the string `s` to a memoised helper (as text or as WSGI string, see above)"""
    if kind == 'tpi':
        return {'mode': 'tpi', 'path': s}
    if kind == 'split':
        return {'mode': 'split', 'path': s}
    if kind == 'tpath':
        return {'mode': 'tpath', 'path': pct_path(s)}          # unquotes to wsgi_of(s), decodes to s
    if kind == 'direct':
        return {'mode': 'direct', 'path': s, 'vroot': None, 'md': None}
    if kind == 'md':
        return {'mode': 'direct', 'path': '/', 'vroot': None, 'md': {'traverse': s}}
    if kind == 'mdtuple':
        return {'mode': 'direct', 'path': '/', 'vroot': None, 'md': {'traverse': [x for x in s.split('/') if x]}}
    if kind == 'vroot':
        return {'mode': 'direct', 'path': '/a', 'vroot': s, 'md': None}
    if kind == 'router':
        return {'mode': 'router', 'path': s, 'vroot': None}
    if kind == 'route_s':
        return {'mode': 'route', 'path': wsgi_of('/_s' + s), 'vroot': None}      # {traverse:.*}: the text s as a string
    if kind == 'route_t':
        return {'mode': 'route', 'path': wsgi_of('/_t' + s), 'vroot': None}      # *traverse: urldispatch splits the text s
    if kind == 'api':
        return {'mode': 'api', 'start': [], 'path': pct_path(s)}
    if kind == 'find':
        return {'mode': 'find', 'start': [], 'path': pct_path(s)}
    raise ValueError(kind)


def twin_levels(rng):
    name = rng.choice(TWIN_NAMES)
    L = ['/' + name + rng.choice(TWIN_TAILS)]
    for _ in range(3):
        L.append(wsgi_of(L[-1]))
    return name, L


def twin_random_op(rng, L):
    kind = rng.choice(TWIN_KINDS)
    if kind in WSGI_KINDS:
        s = rng.choice([x for x in L if is_latin1(x)])
    else:
        s = rng.choice(L[:3])
    return twin_op(kind, s)


def gen_twin_single(rng):
    """one ordinary case of the twins family for the main stream (its collisions come from the stream's own order)"""
    name, L = twin_levels(rng)
    op = twin_random_op(rng, L)
    if op['mode'] in TREE_MODES:
        op['tree'] = twin_tree(name)
    return op


def gen_hist(rng):
    """a history over one twins chain: some helper sees the string S as a WSGI string right before / after another sees
    the SAME string as text (both orders), then more calls over the chain"""
    name, L = twin_levels(rng)
    S = rng.choice(L[1:3])                                   # latin-1 by construction; as text it is a level further up
    pair = [twin_op(rng.choice(WSGI_KINDS), S), twin_op(rng.choice(TEXT_KINDS + ('tpath', 'route_s', 'route_t', 'api', 'find')), S)]
    if rng.random() < 0.5:
        pair.reverse()
    ops = [twin_random_op(rng, L) for _ in range(rng.randint(0, 2))] + pair + [twin_random_op(rng, L) for _ in range(rng.randint(0, 3))]
    if rng.random() < 0.3:
        ops.insert(rng.randint(0, len(ops)), {'mode': 'tpi', 'path': '/a/b'})
    return {'mode': 'hist', 'tree': twin_tree(name), 'ops': ops}


def small_scope_histories(maxlen, limit=3):
    """every sequence of at most `maxlen` calls of {traversal_path_info(s), split_path_info(s), traverser(PATH_INFO=s)}
    over six strings (an ASCII path, '/é', its WSGI spelling, the WSGI spelling of that, and two two-segment twins), each
    run from a fresh state; every call must give its cold outcome.  Returns (violations, sequences run, atoms)."""
    w1 = wsgi_of('/é'); w2 = wsgi_of(w1)
    pool = ['/a', '/é', w1, w2, w1 + '/a', '/é/a']
    tree = {'g': True, 'k': [['a', {'g': True, 'k': []}]] + [[n, {'g': True, 'k': [['a', {'g': True, 'k': []}]]}] for n in ('é', w1[1:], w2[1:])]}
    atoms = []
    for s in pool:
        atoms.append({'mode': 'tpi', 'path': s})
        atoms.append({'mode': 'split', 'path': s})
        atoms.append({'mode': 'direct', 'path': s, 'vroot': None, 'md': None, 'tree': tree})
    cold = [cold_call(a)[0] for a in atoms]
    viol, n = [], 0
    idx = range(len(atoms))
    for L in range(1, maxlen + 1):
        for seq in itertools.product(idx, repeat=L):
            n += 1
            clear_caches()
            for j, i in enumerate(seq):
                if impl(atoms[i])[0] != cold[i]:
                    H = {'mode': 'hist', 'tree': tree, 'ops': [op_brief(atoms[k]) for k in seq[:j + 1]]}
                    r = eval_hist(H, oracle=False)
                    viol += r['violations'][:1]
                    break
            if len(viol) >= limit:
                return viol, n, atoms
    return viol, n, atoms


WITNESSES = [
    # F-C02a (known) — the repository's own test_withroute_and_traverse_and_vroot in miniature
    ({'mode': 'direct', 'tree': {'g': True, 'k': [['abc', {'g': True, 'k': []}]]}, 'path': '/foo/bar', 'vroot': '/abc', 'md': None},
     'F-C02a'),
    # former F-C02b (repaired in 939e5de) — '..' climbed out of the virtual root: context / virtual_root were /a/c.
    # Now the walk stays below /a/b and stops at 'c' — an early stop under a virtual root, i.e. an F-C02a case
    ({'mode': 'direct', 'tree': {'g': True, 'k': [['a', {'g': True, 'k': [['b', {'g': True, 'k': []}], ['c', {'g': True, 'k': []}]]}]]},
      'path': '/../c', 'vroot': '/a/b', 'md': None}, 'F-C02a'),
    # the same with a 'c' below /a/b too: the context must be /a/b/c (not the sibling /a/c), path exhausted, no finding
    ({'mode': 'direct', 'tree': {'g': True, 'k': [['a', {'g': True, 'k': [['b', {'g': True, 'k': [['c', {'g': True, 'k': []}]]}],
                                                                         ['c', {'g': True, 'k': []}]]}]]},
      'path': '/../c', 'vroot': '/a/b', 'md': None}, None),
    # former F-C02c (repaired in 939e5de) — {traverse} placeholder (no leading slash) was glued to the virtual root
    ({'mode': 'route', 'tree': {'g': True, 'k': [['a', {'g': True, 'k': [['x', {'g': True, 'k': []}]]}]]}, 'path': '/_w/x', 'vroot': '/a'},
     None),
]


def run(ctx):
    rng = ctx.rng
    n = ctx.n(15000, 250000)
    corpus_all = [c for _, c in ctx.corpus()]
    corpus = [c for c in corpus_all if c.get('mode') != 'hist']
    hist_cases = [c for c in corpus_all if c.get('mode') == 'hist']
    cases = corpus + [gen_case(rng, deep=(ctx.tier == 'thorough')) for _ in range(n)]
    hist_cases += [gen_hist(rng) for _ in range(ctx.n(1500, 25000))]
    clear_caches()
    rec = Recorder()

    def flag(case, got, what, plain):
        """a call in the stream that looks wrong: if a cold call gives something else it is a matter of history — report
        a reproducing history; otherwise the plain violation (None: nothing to add)"""
        w = rec.suspicious(case, got)
        if w is None:
            return plain
        if w is False:
            return None
        return w
    # --- first evaluation: every case cold-ish, then warm (same case again at once) ------------------
    first, extras = [], []
    hist_viol = []
    for i, case in enumerate(cases):
        if i % 7 == 0:
            clear_caches()                      # really cold for these
            rec.cleared()
        got, extra = impl(case)
        rec.ran(case)
        again, _ = impl(case)                   # warm
        if again != got:
            w = flag(case, again, 'warm', {'case': case, 'impl': {'cold': got, 'warm': again}, 'expected': 'same outcome',
                                           'detail': 'outcome differs between the first (cold) and the second (warm) evaluation'})
            if w:
                hist_viol.append(w)
        else:
            exp0, info0 = expected(case, extra)
            if exp0 is not None and got != exp0 and not classify(case, extra, got, exp0, info0):
                w = flag(case, got, 'first', None)       # a plain violation is reported by the third evaluation below
                if w:
                    hist_viol.append(w)
        first.append(got); extras.append(extra)
    # --- model ------------------------------------------------------------------------------------------
    replies = [None] * len(cases)
    if ctx.driver_path:
        replies = ctx.run_model([model_case(c, e) for c, e in zip(cases, extras)])
    # --- compare, evaluate the property -----------------------------------------------------------------
    mism, viol, agree = [], list(hist_viol), 0
    seen, nontriv = set(), set()
    dist = {'mode': {}, 'outcome': {}, 'stop': {}, 'vroot': {}, 'features': {}, 'tree_depth': {}, 'segments': {},
            'matchdict': {}, 'model_outside': 0, 'oracle_skipped': 0, 'spec_vs_model_equal': 0, 'spec_vs_model_differ': 0}
    rec.cleared()
    for case, got0, extra, mo in zip(cases, first, extras, replies):
        got, extra2, m, v, info = check_case(case, mo)          # third evaluation (warm, later)
        rec.ran(case)
        if got != got0:
            w = flag(case, got, 'later', {'case': case, 'impl': {'first': got0, 'later': got}, 'expected': 'same outcome',
                                          'detail': 'outcome changed when the case was evaluated again later'})
            if w:
                viol.append(w)
            if w is not None and w is not False and w.get('history'):
                v = None                        # the same deviation, already reported with its history
        if m:
            mism.append(m)
        elif mo is not None:
            agree += 1
        if v and not v.get('finding'):
            v = flag(case, got, 'oracle', v)
        if v:
            viol.append(v)
        if info.get('model_outside'):
            dist['model_outside'] += 1
        if 'outside' in info:
            dist['oracle_skipped'] += 1
        ms = info.get('model_spec')
        if ms is not None:
            bump(dist, 'spec_vs_model_equal' if ms == got else 'spec_vs_model_differ')
            # the Lean-side spec and the Python oracle must agree with each other
            exp, _ = expected(case, extra)
            if exp is not None and ms != exp:
                mism.append({'case': case, 'impl': {'python_oracle': exp}, 'model': {'lean_spec': ms}})
        feats = features(case, info)
        key = vfutil.canon(case)
        bump(dist['mode'], case['mode'])
        bump(dist['outcome'], 'ok' if 'ok' in got else got['err'])
        for f in feats:
            bump(dist['features'], f)
        if case['mode'] in ('router', 'route', 'direct', 'api'):
            bump(dist['tree_depth'], depth(case['tree']))
            if 'k' in info:
                total = len(info['vt']) + len(info['pt'])
                bump(dist['segments'], min(total, 8))
                bump(dist['stop'], info['why'])
                if info['k'] < len(info['vt']):
                    bump(dist['stop'], 'inside-vroot')
            if case['mode'] != 'api':
                v_ = case.get('vroot')
                vk = 'absent' if v_ is None else 'undecodable' if utf8(v_) is None else 'root' if not spec_split(utf8(v_)) else \
                    ('existing' if resolve(case['tree'], spec_split(utf8(v_))) is not None else 'missing') + ('+trailing' if v_.endswith('/') else '')
                bump(dist['vroot'], vk)
                md = extra.get('md') if case['mode'] != 'direct' else case.get('md')
                if md is not None:
                    bump(dist['matchdict'], 'traverse:%s subpath:%s' % tuple(
                        'absent' if k_ not in md else 'tuple' if isinstance(md[k_], list) else 'str' for k_ in ('traverse', 'subpath')))
        if key not in seen:
            seen.add(key)
            if nontrivial(case, got, info, feats):
                nontriv.add(key)
    # --- history: everything again in shuffled order, long after (> 1000 distinct paths in between) --------
    order = list(range(len(cases)))
    rng.shuffle(order)
    for i in order:
        got, _ = impl(cases[i])
        rec.ran(cases[i])
        if got != first[i]:
            w = flag(cases[i], got, 'shuffled', {'case': cases[i], 'impl': {'first': first[i], 'after_history': got}, 'expected': 'same outcome',
                                                  'detail': 'outcome depends on the paths resolved earlier (memoised helpers)'})
            if w:
                viol.append(w)
    dist['history'] = {'evaluations_per_case': 4, 'cache_clears': (len(cases) + 6) // 7,
                       'cache_sizes_at_end': {f: getattr(T, f).cache_info().currsize for f in ('traversal_path_info', 'split_path_info', '_join_path_tuple')
                                              if hasattr(getattr(T, f), 'cache_info')},
                       'segment_cache': len(T._segment_cache)}
    # --- small-scope exhaustive enumeration (every case: impl vs oracle vs model) ---------------------------
    ex = exhaustive_cases(3 if ctx.tier == 'quick' else 4)
    ex_replies = ctx.run_model([model_case(c, {}) for c in ex]) if ctx.driver_path else [None] * len(ex)
    ex_known = {}
    rec.cleared()
    for case, mo in zip(ex, ex_replies):
        got, extra, m, v, info = check_case(case, mo)
        rec.ran(case)
        if m:
            mism.append(m)
        elif mo is not None:
            agree += 1
        if v and not v.get('finding'):
            v = flag(case, got, 'exhaustive', v)
        if v:
            if v.get('finding'):
                bump(ex_known, v['finding'])
                if ex_known[v['finding']] > 1:
                    continue
            viol.append(v)
    dist['exhaustive_scope'] = {'cases': len(ex), 'known_finding_cases': ex_known,
                                'what': 'all trees of depth <= 2 over names {a,b} (36) x all paths of <= %d segments over '
                                        '{a,b,.,..,@@a,""} x vroot in {none,/,/a,/a/b,/zz,/a/}; plus the same segment sequences '
                                        'without leading slash as a match-dictionary traverse string x vroot in {/a,/a/b}'
                                        % (3 if ctx.tier == 'quick' else 4)}
    # --- histories: the confusable-twins family and the small scope --------------------------------------------
    flat = [op for H in hist_cases for op in hist_ops(H)]
    flat_replies = [None] * len(flat)
    if ctx.driver_path and flat:
        # route-mode calls need the observed match dictionary: take it from a cold call
        flat_replies = ctx.run_model([model_case(op, cold_call(op)[1] if op['mode'] in ('router', 'route') else {}) for op in flat])
    hdist = {'histories': len(hist_cases), 'calls': len(flat), 'call_kinds': {}, 'history_violations': 0}
    pos = 0
    for H in hist_cases:
        k = len(H['ops'])
        r = eval_hist(H, flat_replies[pos:pos + k])
        pos += k
        for op in H['ops']:
            bump(hdist['call_kinds'], op['mode'] + ('+md' if op.get('md') else '') + ('+vroot' if op.get('vroot') else ''))
        mism += r['mismatches']
        if not r['mismatches']:
            agree += k
        for v in r['violations']:
            if v.get('history'):
                hdist['history_violations'] += 1
                if hdist['history_violations'] > 3:
                    continue
            elif v.get('finding'):
                bump(ex_known, v['finding'])
                if ex_known[v['finding']] > 1:
                    continue
            viol.append(v)
    sv, sn, atoms = small_scope_histories(3 if ctx.tier == 'quick' else 4)
    viol += sv
    if ctx.driver_path:
        for a_, mo in zip(atoms, ctx.run_model([model_case(a_, {}) for a_ in atoms])):
            clear_caches()
            got_a, _, m_a, v_a, _ = check_case(a_, mo)
            if m_a:
                mism.append(m_a)
            if v_a:
                viol.append(v_a)
    hdist['small_scope'] = {'sequences': sn, 'what': 'all sequences of <= %d calls of {traversal_path_info, split_path_info, traverser(PATH_INFO)} '
                                                     'over 6 strings incl. the twins, each from a fresh state' % (3 if ctx.tier == 'quick' else 4)}
    hdist['stream'] = {'history_dependent_calls': rec.dependent, 'histories_captured': len(rec.captured)}
    dist['histories'] = hdist
    # --- witnesses of the recorded finding and of the repaired ones, replayed on the real code ---------------------
    notes = []
    for w, want in WITNESSES:
        got, extra, m, v, info = check_case(w)
        has = (v or {}).get('finding') if v else None
        notes.append('witness %s: impl=%s -> %s' % (json.dumps(w, ensure_ascii=True)[:160], json.dumps(got, ensure_ascii=True)[:200],
                                                    has or ('VIOLATION' if v else 'as the property demands')))
        if v:
            viol.append(v)
        elif want is not None:
            notes.append('recorded finding %s is no longer reproduced by its witness (repaired? update known/C02.json)' % want)
    viol = confirm(shrink_all(viol), dist, cases)
    for v in viol:
        v.pop('_origin', None)
    dist['known_finding_cases'] = {}
    for v in viol:
        if v.get('finding'):
            bump(dist['known_finding_cases'], v['finding'])
    return {'evaluations': len(cases) * 4 + len(ex) + 2 * len(flat) + sn, 'exhaustive': True, 'distinct_nontrivial': len(nontriv), 'rule': RULE, 'agreeing': agree,
            'samples': cases[len(corpus):len(corpus) + 4] + cases[-2:], 'mismatches': mism[:50], 'violations': viol,
            'distribution': dist, 'notes': notes,
            'assumptions': ['resource names and path text are Python str without lone surrogates',
                            'children are found by dict lookup (==/hash of str); the model uses list lookup by equality',
                            'each case is evaluated four times (cold/warm/later/after the whole shuffled stream) and must not change',
                            'fresh-process semantics are produced by emptying every memo of pyramid.traversal (cache_clear() functions, *cache*/*memo* containers)'],
            'trusted_base': ['Python codecs (utf-8, latin-1, ascii), str.split/strip, urllib.parse.unquote_to_bytes/quote, '
                             'WebOb Request (path_info, blank), route matching (the match dictionary is taken as observed) — tied only by this run',
                             'core Lean UTF-8 codec (List.utf8Encode / ByteArray.utf8Decode?) stands for Python\'s strict utf-8 codec']}


def depth(t):
    return 1 + max([depth(s) for _, s in t['k']], default=0)


def reproduces_fresh(v):
    """does the reported input fail again when started from fresh_state() — i.e. would it in a new process?"""
    c = v.get('case')
    try:
        if isinstance(c, dict) and c.get('mode') == 'hist':
            return bool(eval_hist(c, oracle=False, reset=fresh_state)['violations'])
        fresh_state()
        _, _, _, w, _ = check_case(c)
        return bool(w) and not w.get('finding')
    except Exception:      # noqa
        return False


def capture_from_stream(bad, stream, window=2000):
    """last resort for a memo that clear_caches() cannot reach (closure, default argument, …): the calls that preceded
    the misbehaving one in the first pass of the stream are replayed from fresh_state() and cut down"""
    where = {id(c): i for i, c in enumerate(stream)}
    for v in bad:
        i = where.get(id(v.get('_origin', v.get('case'))))
        if i is None:
            continue
        ops = stream[max(0, i - window):i + 1]
        try:
            if not last_differs(ops, fresh_state):
                continue
            ops = minimise_history(ops, budget=80, reset=fresh_state)
            r = eval_hist({'mode': 'hist', 'ops': ops}, oracle=False, reset=fresh_state)
        except Exception:      # noqa
            continue
        if r['violations']:
            return r['violations'][0]
    return None


def confirm(viol, dist, stream=(), limit=12):
    """every reported failing input must fail from a fresh state.  Unknown violations are re-run after fresh_state():
    the complete histories first, then the bare cases smallest first (at most `limit`).  Those that do not fail again
    alone (their outcome was a matter of what ran before them) are dropped as soon as something is confirmed — and so
    are unchecked ones smaller than the smallest confirmed input, so that the input the runner writes to the replay
    file is one that reproduces.  If nothing can be confirmed, a history is cut out of the stream from fresh_state();
    failing that everything stays (the run still fails) and says so."""
    unknown = [v for v in viol if not v.get('finding')]
    if not unknown:
        return viol

    def size(v):
        return len(json.dumps(v.get('case'), default=str))
    unknown.sort(key=size)
    good, bad, seen = [], [], set()
    for v in [v for v in unknown if v.get('history') is True][:4]:
        seen.add(id(v))
        (good if reproduces_fresh(v) else bad).append(v)
    k = 0
    for v in unknown:
        if id(v) in seen:
            continue
        if k >= limit or (good and size(v) > min(map(size, good))):
            break
        k += 1
        seen.add(id(v))
        (good if reproduces_fresh(v) else bad).append(v)
    fresh_state()
    st = dist['confirmed_from_fresh_state'] = {'confirmed': len(good), 'not_reproducing_alone': len(bad)}
    if not good and bad:
        w = capture_from_stream(bad[:3], list(stream))
        fresh_state()
        if w:
            good.append(w)
            viol = viol + [w]
            st['captured_from_stream'] = 1
    if not good:
        for v in bad:
            v['detail'] = (v.get('detail') or '') + ' [NOT reproduced from a fresh state by this input alone: it depends on calls made earlier in the run]'
        return viol
    m = min(map(size, good))
    keep = {id(v) for v in good}
    out = [v for v in viol if v.get('finding') or id(v) in keep or (id(v) not in seen and size(v) > m)]
    st['dropped'] = len(viol) - len(out)
    return out


def shrink_all(viol, limit=6):
    """shrink unknown violations (known-finding ones are kept as they are: one example is enough)"""
    out, done, hdone = [], 0, 0
    for v in viol:
        if v.get('history') is True and hdone < 2:
            hdone += 1

            def hstill(c):
                try:
                    return c.get('mode') == 'hist' and bool(c.get('ops')) and bool(eval_hist(c, oracle=False)['violations'])
                except Exception:
                    return False
            small = vfutil.shrink(v['case'], hstill, max_steps=500)
            r = eval_hist(small, oracle=False)
            out.append(r['violations'][0] if r['violations'] else v)
            continue
        if v.get('finding') or v.get('history') or done >= limit or 'first' in (v.get('impl') or {}) or 'cold' in (v.get('impl') or {}):
            out.append(v)
            continue
        done += 1

        def still(c):
            try:
                clear_caches()
                _, _, _, w, _ = check_case(c)
            except Exception:
                return False
            return bool(w) and not w.get('finding')
        small = vfutil.shrink(v['case'], still, max_steps=600) if still(v['case']) else v['case']
        clear_caches()
        _, _, _, w, _ = check_case(small)
        w = w or v
        w['_origin'] = v['case']
        out.append(w)
    return out


# ------------------------------------------------------------------------------------------------
# search / replay

def small_trees():
    def sub():
        yield None
        yield {'g': False, 'k': []}
        for mask in range(4):
            yield {'g': True, 'k': [[n, {'g': True, 'k': []}] for i, n in enumerate('ab') if mask >> i & 1]}
    for ta in sub():
        for tb in sub():
            yield {'g': True, 'k': [[n, t] for n, t in (('a', ta), ('b', tb)) if t is not None]}


ALPHABET = ['a', 'b', '.', '..', '@@a', '']
VROOTS = (None, '/', '/a', '/a/b', '/zz', '/a/')


def exhaustive_cases(maxlen):
    """PATH_INFO cases (leading slash) for every virtual root, and — for the virtual roots that are not empty — the
    same segment sequences WITHOUT a leading slash as the `traverse` string of a match dictionary (what a
    {traverse} placeholder delivers)"""
    seqs = [p for L in range(1, maxlen + 1) for p in itertools.product(ALPHABET, repeat=L)]
    paths = ['/'] + ['/' + '/'.join(p) for p in seqs]
    out = [{'mode': 'direct', 'tree': tree, 'path': p, 'vroot': vroot, 'md': None}
           for tree in small_trees() for vroot in VROOTS for p in paths]
    bare = sorted({'/'.join(p) for p in seqs if p[0] != ''} - {''})
    out += [{'mode': 'direct', 'tree': tree, 'path': '/', 'vroot': vroot, 'md': {'traverse': t}}
            for tree in small_trees() for vroot in ('/a', '/a/b') for t in bare]
    return out


def search(ctx):
    """small-scope exhaustive search for an input on which the implementation violates the property:
    all trees of depth <= 2 over {a,b} x all paths of <= 4 segments over {a,b,.,..,@@a,''} x
    vroot in {none,'/','/a','/a/b','/zz','/a/'} through the traverser (plus the slash-less traverse strings under
    /a and /a/b), then the seeded stream."""
    viol, n = [], 0
    paths = ['/'] + ['/' + '/'.join(p) for L in range(1, 5) for p in itertools.product(ALPHABET, repeat=L)]
    exhaustive = True
    todo = exhaustive_cases(4)
    for j, case in enumerate(todo):
        n += 1
        _, _, _, v, _ = check_case(case)
        if v and not v.get('finding'):
            viol.append(v)
            if len(viol) >= 3:
                return {'violations': shrink_all(viol), 'searched': n, 'exhaustive': False}
        if j % 5000 == 0 and ctx.time_left() < 60:
            exhaustive = False
            break
    for p in paths:
        for mode in ('split', 'tpi', 'tpath'):
            n += 1
            _, _, _, v, _ = check_case({'mode': mode, 'path': p})
            if v:
                viol.append(v)
    sv, sn, _ = small_scope_histories(4)
    viol += sv
    n += sn
    k = 0
    while not viol and k < 40000 and ctx.time_left() > 45:
        case = gen_case(ctx.rng, deep=True) if k % 4 else gen_hist(ctx.rng)
        k += 1
        _, _, _, v, _ = check_case(case)
        if v and not v.get('finding'):
            viol.append(v)
    return {'violations': shrink_all(viol), 'searched': n + k, 'exhaustive': exhaustive}


def replay(ctx, rep):
    case = rep.get('case')
    if case is None:
        return {'violates': False, 'note': 'replay names broken obligations only', 'broken': rep.get('broken_obligations')}
    if case.get('mode') == 'hist':
        ops = hist_ops(case)
        replies = None
        if ctx.driver_path and ops:
            replies = ctx.run_model([model_case(op, cold_call(op)[1] if op['mode'] in ('router', 'route') else {}) for op in ops])
        r = eval_hist(case, replies, reset=fresh_state)
        unknown = [v for v in r['violations'] if not v.get('finding')]
        return {'case': case, 'calls': [op_brief(op) for op in ops], 'in_this_history': r['seq'], 'in_a_fresh_process': r['cold'],
                'model': None if replies is None else [decode_model(op, mo)[0] for op, mo in zip(ops, replies)],
                'mismatch': (r['mismatches'] or [None])[0], 'violations': unknown[:3],
                'detail': (unknown or [{}])[0].get('detail'), 'violates': bool(unknown)}
    got, extra = impl(case)
    mo = None
    if ctx.driver_path:
        mo = ctx.run_model([model_case(case, extra)])[0]
    got, extra, m, v, info = check_case(case, mo)
    exp, _ = expected(case, extra)
    return {'case': case, 'impl': got, 'model': decode_model(case, mo)[0] if mo else None, 'spec': exp,
            'lean_spec': info.get('model_spec'), 'mismatch': m, 'finding': (v or {}).get('finding'),
            'detail': (v or {}).get('detail'), 'violates': bool(v)}
