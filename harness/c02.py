"""C02 — traversal resolves context, view name, subpath and traversed as documented.

Correspondence of lean/PyramidModel/Traversal.lean with pyramid.traversal (ResourceTreeTraverser.__call__,
split_path_info, traversal_path_info, traversal_path, traverse, _join_path_tuple) run in-process — through
Router.__call__ from a raw PATH_INFO, through real routes (match dictionary), directly, and through the public
helpers — plus the property itself evaluated on the implementation by a Python oracle that does not need Lean.

Case shapes (JSON; names are str, WSGI strings are str with all characters < 256, i.e. raw bytes):
  {"mode":"router","tree":T,"path":wsgi|null,"vroot":wsgi|null}          PATH_INFO through Router.__call__
  {"mode":"route", "tree":T,"path":wsgi,"vroot":wsgi|null}               PATH_INFO hitting one of the routes
  {"mode":"direct","tree":T,"path":wsgi|null,"vroot":wsgi|null,"md":null|{"traverse":X,"subpath":X}}
  {"mode":"api",   "tree":T,"start":[name…],"path":str|[name…]}          pyramid.traversal.traverse()
  {"mode":"tpath","path":str} {"mode":"tpi","path":wsgi} {"mode":"split","path":str} {"mode":"join","tuple":[…]}
  T = {"g":bool,"k":[[name,T],…]}   X = str | [str…]   (key absent = not in the match dictionary)
"""
import io, itertools, json, re, sys

import vfutil
from vfutil import bump

from pyramid import traversal as T
from pyramid.interfaces import VH_ROOT_KEY

RULE = ('a traversal case (router/route/direct/api) is non-trivial when the walk stops strictly inside the path '
        '(a view name is produced) or a virtual-root header is present or the path contains a "", ".", ".." '
        'segment; a helper case (tpath/tpi/split/join) when its input holds a "..", a percent escape or a non-ASCII '
        'character; distinct = distinct canonical case JSON')

FIELDS = ('context', 'view_name', 'subpath', 'traversed', 'virtual_root', 'virtual_root_path')

# ------------------------------------------------------------------------------------------------
# real objects


class Node(dict):
    """location-aware container"""


class Leaf:
    """location-aware resource without item lookup"""


def build(tree, name=None, parent=None, pos=(), index=None):
    ob = Node() if tree['g'] else Leaf()
    ob.__name__ = name
    ob.__parent__ = parent
    if index is not None:
        index[id(ob)] = list(pos)
    kids = {}
    for n, sub in tree['k']:
        if n in kids:
            continue                      # dict semantics: the model finds the first entry
        c = build(sub, n, ob, pos + (n,), index if tree['g'] else None)
        kids[n] = c
    if tree['g']:
        dict.update(ob, kids)
    return ob


def kid(tree, name):
    for n, sub in tree['k']:
        if n == name:
            return sub
    return None


def resolve(tree, pos):
    for n in pos:
        tree = kid(tree, n)
        if tree is None:
            return None
    return tree


# ------------------------------------------------------------------------------------------------
# the application used for the Router modes (built once per process)

ROUTES = [('t', '/_t/*traverse', {}), ('s', '/_s/{traverse:.*}', {}), ('u', '/_u/{x}/*subpath', {'traverse': '/{x}'}),
          ('v', '/_v/{traverse}/{subpath}', {}), ('w', '/_w/{traverse}', {}), ('p', '/_p/{y}/*subpath', {})]
_APP = {}


def get_app():
    if 'app' in _APP:
        return _APP
    from pyramid.config import Configurator
    from pyramid.response import Response
    from webob import Request as WR
    holder = _APP

    def rec(context, request):
        idx = holder['index']
        holder['seen'] = {
            'context': idx.get(id(request.context)), 'view_name': request.view_name,
            'subpath': list(request.subpath), 'traversed': list(request.traversed),
            'virtual_root': idx.get(id(request.virtual_root)), 'virtual_root_path': list(request.virtual_root_path),
            'root_ok': request.root is holder['root'], 'matchdict': request.matchdict}
        return Response('ok')

    def build_cfg(with_routes):
        cfg = Configurator(root_factory=lambda request: holder['root'])
        cfg.add_view(rec)
        cfg.add_notfound_view(rec)
        if with_routes:
            for rn, pat, kw in ROUTES:
                cfg.add_route(rn, pat, **kw)
                cfg.add_view(rec, route_name=rn)
        return cfg.make_wsgi_app()

    holder['app'] = build_cfg(True)
    holder['app_noroutes'] = build_cfg(False)
    holder['environ'] = WR.blank('/').environ
    return holder


def err_name(e):
    from pyramid.exceptions import URLDecodeError
    if isinstance(e, URLDecodeError):
        return 'urldecode'
    if isinstance(e, UnicodeDecodeError):
        return 'unicodedecode'
    if isinstance(e, UnicodeEncodeError):
        return 'unicodeencode'
    if isinstance(e, KeyError):
        return 'keyerror'
    return 'raised:' + type(e).__name__


def canon_result(d, index):
    return {'context': index.get(id(d['context'])), 'view_name': d['view_name'], 'subpath': list(d['subpath']),
            'traversed': list(d['traversed']), 'virtual_root': index.get(id(d['virtual_root'])),
            'virtual_root_path': list(d['virtual_root_path'])}


def impl(case):
    """run the real code; returns ({'ok':…}|{'err':…}, extra) — extra carries the observed match dictionary"""
    mode = case['mode']
    extra = {}
    try:
        if mode in ('router', 'route'):
            h = get_app()
            index = {}
            root = build(case['tree'], index=index)
            h['root'], h['index'] = root, index
            h.pop('seen', None)
            env = dict(h['environ'])
            env['wsgi.input'] = io.BytesIO()
            if case.get('path') is None:
                env.pop('PATH_INFO', None)
            else:
                env['PATH_INFO'] = case['path']
            if case.get('vroot') is not None:
                env[VH_ROOT_KEY] = case['vroot']
            app = h['app'] if (mode == 'route' or case.get('with_routes')) else h['app_noroutes']
            app(env, lambda *a, **k: None)
            seen = h.get('seen')
            if seen is None:
                return {'err': 'no-view-called'}, extra
            md = seen.pop('matchdict')
            extra['md'] = None if md is None else {k: (list(v) if isinstance(v, tuple) else v) for k, v in md.items()}
            if not seen.pop('root_ok'):
                return {'err': 'request.root is not the root'}, extra
            return {'ok': seen}, extra
        if mode == 'direct':
            from pyramid.request import Request
            index = {}
            root = build(case['tree'], index=index)
            env = {}
            if case.get('path') is not None:
                env['PATH_INFO'] = case['path']
            if case.get('vroot') is not None:
                env[VH_ROOT_KEY] = case['vroot']
            req = Request(env)
            md = case.get('md')
            if md is not None:
                md = {k: (tuple(v) if isinstance(v, list) else v) for k, v in md.items()}
            req.matchdict = md
            d = T.ResourceTreeTraverser(root)(req)
            if d['root'] is not root:
                return {'err': 'root is not the root'}, extra
            return {'ok': canon_result(d, index)}, extra
        if mode == 'api':
            index = {}
            root = build(case['tree'], index=index)
            start = root
            for n in case['start']:
                if not isinstance(start, Node) or n not in start:
                    return {'err': 'badcase'}, extra
                start = start[n]
            path = case['path']
            if isinstance(path, list):
                path = tuple(path)
            d = T.traverse(start, path)
            base = index[id(d['root'])]
            r = canon_result(d, index)
            for f in ('context', 'virtual_root'):      # positions relative to the resource the walk started from
                if r[f] is None or r[f][:len(base)] != base:
                    return {'err': 'result outside the start resource'}, extra
                r[f] = r[f][len(base):]
            return {'ok': {'base': base, 'res': r}}, extra
        if mode == 'tpath':
            return {'ok': list(T.traversal_path(case['path']))}, extra
        if mode == 'tpi':
            return {'ok': list(T.traversal_path_info(case['path']))}, extra
        if mode == 'split':
            return {'ok': list(T.split_path_info(case['path']))}, extra
        if mode == 'join':
            return {'ok': T._join_path_tuple(tuple(case['tuple']))}, extra
    except Exception as e:          # noqa
        return {'err': err_name(e)}, extra
    return {'err': 'bad-mode'}, extra


# ------------------------------------------------------------------------------------------------
# the model side

def codes(s):
    return [ord(c) for c in s]


def jtree(t):
    return {'g': t['g'], 'k': [[codes(n), jtree(s)] for n, s in t['k']]}


def jsot(x):
    if x is None:
        return None
    if isinstance(x, str):
        return {'s': codes(x)}
    return {'t': [codes(y) for y in x]}


def model_case(case, extra):
    mode = case['mode']
    if mode in ('router', 'route', 'direct'):
        md = extra.get('md') if mode != 'direct' else case.get('md')
        j = {'op': 'trav', 'tree': jtree(case['tree']),
             'path': None if case.get('path') is None else codes(case['path']),
             'vroot': None if case.get('vroot') is None else codes(case['vroot']), 'md': None}
        if md is not None:
            j['md'] = {'traverse': jsot(md.get('traverse')), 'subpath': jsot(md.get('subpath'))}
        return j
    if mode == 'api':
        return {'op': 'api', 'tree': jtree(case['tree']), 'start': [codes(n) for n in case['start']], 'path': jsot(case['path'])}
    if mode == 'tpath':
        return {'op': 'tpath', 'path': codes(case['path'])}
    if mode == 'tpi':
        return {'op': 'tpi', 'path': codes(case['path'])}
    if mode == 'split':
        return {'op': 'split', 'path': codes(case['path'])}
    if mode == 'join':
        return {'op': 'join', 'tuple': [codes(x) for x in case['tuple']]}
    raise ValueError(mode)


def txt(cs):
    return ''.join(map(chr, cs))


def decode_result(r):
    return {'context': [txt(x) for x in r['context']], 'view_name': txt(r['view_name']),
            'subpath': [txt(x) for x in r['subpath']], 'traversed': [txt(x) for x in r['traversed']],
            'virtual_root': [txt(x) for x in r['virtual_root']], 'virtual_root_path': [txt(x) for x in r['virtual_root_path']]}


def decode_model(case, mo):
    """model reply in the canonical form of impl()"""
    if mo is None:
        return None, None
    if 'error' in mo:
        return {'err': 'driver:' + str(mo['error'])}, None
    mode = case['mode']
    spec = None
    if 'err' in mo:
        out = {'err': mo['err']}
    elif mode in ('router', 'route', 'direct'):
        out = {'ok': decode_result(mo['ok'])}
    elif mode == 'api':
        out = {'ok': {'base': [txt(x) for x in mo['ok']['base']], 'res': decode_result(mo['ok']['res'])}}
    elif mode == 'join':
        out = {'ok': txt(mo['ok'])}
    else:
        out = {'ok': [txt(x) for x in mo['ok']]}
    if 'spec' in mo:
        s = mo['spec']
        spec = {'err': s['err']} if 'err' in s else {'ok': decode_result(s['ok'])}
    return out, spec


# ------------------------------------------------------------------------------------------------
# the property, stated directly (independent of Lean)

def spec_split(text):
    """drop '' and '.', '..' drops the previous segment but never climbs above the root"""
    out = []
    for seg in text.split('/'):
        if seg == '' or seg == '.':
            continue
        if seg == '..':
            if out:
                out.pop()
        else:
            out.append(seg)
    return out


def spec_walk(tree, vt, pt, sub0):
    """walk vt ++ pt from the root by item lookup"""
    segs = vt + pt
    node, k = tree, 0
    spec_walk.why = 'exhausted'
    while k < len(segs):
        s = segs[k]
        if s.startswith('@@'):
            spec_walk.why = 'selector'; break
        if not node['g']:
            spec_walk.why = 'leaf'; break
        nxt = kid(node, s)
        if nxt is None:
            spec_walk.why = 'keyerror'; break
        node, k = nxt, k + 1
    if k == len(segs):
        return {'context': segs, 'view_name': '', 'subpath': list(sub0), 'traversed': segs,
                'virtual_root': vt, 'virtual_root_path': vt}, k
    s = segs[k]
    return {'context': segs[:k], 'view_name': s[2:] if s.startswith('@@') else s, 'subpath': segs[k + 1:],
            'traversed': segs[:k], 'virtual_root': vt if len(vt) <= k else [], 'virtual_root_path': vt}, k


def utf8(wsgi):
    try:
        return wsgi.encode('latin-1').decode('utf-8')
    except UnicodeDecodeError:
        return None


_PCT = re.compile(r'%([0-9a-fA-F]{2})')


def pct_decode(s):
    """independent percent-decoder: ASCII text -> WSGI string"""
    return _PCT.sub(lambda m: chr(int(m.group(1), 16)), s)


def request_path(case, extra):
    """(path text, subpath, error) as the traverser is to derive them from the request"""
    md = extra.get('md') if case['mode'] != 'direct' else case.get('md')
    if md is not None:
        tr = md.get('traverse', '/')
        if isinstance(tr, list):
            path = '/' + '/'.join(tr) if tr else '/'
        else:
            path = tr or '/'
        sp = md.get('subpath', [])
        if isinstance(sp, str):
            sp = spec_split(sp)
        return path, list(sp), None
    raw = case.get('path') or ''
    p = utf8(raw)
    if p is None:
        return None, None, 'urldecode'
    return p or '/', [], None


def expected(case, extra):
    """what the property demands: ({'ok':…}|{'err':…}|None when the case is outside the property, info)"""
    mode = case['mode']
    info = {}
    if mode in ('router', 'route', 'direct'):
        if mode == 'route' or case.get('with_routes'):
            # the routes mapper decodes PATH_INFO first
            if utf8(case.get('path') or '') is None:
                return {'err': 'urldecode'}, info
        path, sub0, err = request_path(case, extra)
        if err:
            return {'err': err}, info
        vt = []
        if case.get('vroot') is not None:
            v = utf8(case['vroot'])
            if v is None:
                return {'err': 'unicodedecode'}, info
            vt = spec_split(v)
            info['vroot_text'] = v
        pt = spec_split(path)
        info['path_text'] = path
        out, k = spec_walk(case['tree'], vt, pt, sub0)
        info.update(vt=vt, pt=pt, k=k, why=spec_walk.why)
        return {'ok': out}, info
    if mode == 'api':
        path = case['path']
        start = list(case['start'])
        if isinstance(path, list):
            # a path tuple: names as they are; '' first = absolute.  '/'.join + normalisation is the documented reading
            if path and re.match(r'^[A-Za-z]+:', path[0]):
                return None, {'outside': 'scheme'}       # F-C07c, stated and recorded under C07
            absolute = bool(path) and path[0] == ''
            text = '/'.join(path)
        else:
            try:
                path.encode('ascii')
            except UnicodeEncodeError:
                return {'err': 'unicodeencode'}, info
            if re.match(r'^[A-Za-z]+:', path):
                return None, {'outside': 'scheme'}
            if '?' in path or re.search(r'%(?![0-9a-fA-F]{2})', path):
                return None, {'outside': 'unescaped'}
            absolute = path.startswith('/')
            text = utf8(pct_decode(path))
            if text is None:
                return {'err': 'urldecode'}, info
        base = [] if absolute else start
        if resolve(case['tree'], start) is None:
            return None, {'outside': 'badcase'}
        sub = resolve(case['tree'], base)
        out, k = spec_walk(sub, [], spec_split(text), [])
        info.update(vt=[], pt=spec_split(text), k=k, why=spec_walk.why)
        return {'ok': {'base': base, 'res': out}}, info
    if mode == 'tpath':
        p = case['path']
        try:
            p.encode('ascii')
        except UnicodeEncodeError:
            return {'err': 'unicodeencode'}, info
        t = utf8(pct_decode(p))
        return ({'err': 'urldecode'} if t is None else {'ok': spec_split(t)}), info
    if mode == 'tpi':
        t = utf8(case['path'])
        return ({'err': 'urldecode'} if t is None else {'ok': spec_split(t)}), info
    if mode == 'split':
        return {'ok': spec_split(case['path'])}, info
    if mode == 'join':
        return None, {'outside': 'join is checked against the model only (C07 states its property)'}
    return None, info


def classify(case, extra, got, exp, info):
    """finding id for a violating case, or None.  One class is left (F-C02b / F-C02c were repaired in 939e5de and are
    no longer tolerated anywhere): F-C02a = a virtual-root header that normalises to at least one segment AND the
    walk stops before the combined path is exhausted.  Then — and only then — 'traversed' is allowed to be the
    consumed segments plus the next len(virtual_root_path) segments (vpath_tuple[: vroot_idx + i + 1]); every other
    field must be what the property demands, and any other value of 'traversed' is an unknown violation."""
    if case['mode'] not in ('router', 'route', 'direct') or 'ok' not in got or 'ok' not in exp:
        return None
    if info.get('vroot_text') is None or 'vt' not in info:
        return None
    vt, pt, k = info['vt'], info['pt'], info['k']
    segs = vt + pt
    if not (vt and k < len(segs)):
        return None
    diff = [f for f in FIELDS if got['ok'][f] != exp['ok'][f]]
    if diff == ['traversed'] and got['ok']['traversed'] == segs[:k + len(vt)]:
        return 'F-C02a'
    return None


# ------------------------------------------------------------------------------------------------
# generators

SIMPLE = ['a', 'b', 'c', 'foo', 'bar', 'abc', 'x', 'y1']
UNI = ['é', 'ß', '日本', '語', '€', '😀', 'я', 'La Peña', 'ñ', '𝔘', 'é']
TRICKY = [' ', 'a b', '%41', 'a%2Fb', '100%', '+', 'x;y', ':', 'http:', 'a:b', "it's", '~t', 'a.b', '.a', '...', '@', '@x',
          'x@@y', '?', 'q?r', '#', '&=', '(1)', 'A', '%', '%zz', '\\', '\t', 'a\nb', '\x7f', '\x00']
UNREACHABLE = ['', '.', '..', '@@', '@@v', 'a/b', '/']
VIEWS = ['@@', '@@v', '@@edit', '@@é', 'view', 'edit.html', 'zz', 'missing', 'é2', '%2e']
HEX = '0123456789abcdefABCDEF'


def gen_name(rng):
    r = rng.random()
    if r < 0.5:
        return rng.choice(SIMPLE)
    if r < 0.7:
        return rng.choice(UNI)
    if r < 0.88:
        return rng.choice(TRICKY)
    if r < 0.93:
        return rng.choice(UNREACHABLE)
    return vfutil.rand_text(rng, 5, allow_empty=False, p_control=0.05)


def gen_tree(rng, depth, fan=3):
    """random tree; leaves without item lookup appear at every level below the root"""
    def go(d, is_root):
        if not is_root and rng.random() < (0.25 if d > 0 else 0.5):
            return {'g': False, 'k': ([[gen_name(rng), go(0, False)]] if rng.random() < 0.1 else [])}
        if d == 0:
            return {'g': True, 'k': []}
        kids, seen = [], set()
        for _ in range(rng.randint(0 if not is_root else 1, fan)):
            n = gen_name(rng)
            if n in seen and rng.random() < 0.9:
                continue
            seen.add(n)
            kids.append([n, go(d - 1, False)])
        return {'g': True, 'k': kids}
    return go(depth, True)


def descent(rng, tree, maxlen=6, p_stop=0.25):
    """a chain of existing names from the root"""
    out, node = [], tree
    while node['g'] and node['k'] and len(out) < maxlen and rng.random() > p_stop:
        n, sub = rng.choice(node['k'])
        if n in ('', '.', '..') or '/' in n or n.startswith('@@'):
            if rng.random() < 0.7:
                break
        out.append(n)
        node = kid(node, n)             # duplicates: the first entry is the one that exists
    return out


def noise(rng, segs, p=0.25):
    """sprinkle '', '.', and 'x/..' detours that do not change the meaning, sometimes a real '..'"""
    out = []
    for s in segs:
        r = rng.random()
        if r < p * 0.3:
            out.append('')
        elif r < p * 0.6:
            out.append('.')
        elif r < p * 0.85:
            out += [rng.choice(SIMPLE + UNI), '..']
        elif r < p:
            out.append('..')
        out.append(s)
    return out


def gen_tail(rng):
    r = rng.random()
    if r < 0.35:
        return []
    tail = [rng.choice(VIEWS + SIMPLE)]
    while rng.random() < 0.5 and len(tail) < 4:
        tail.append(rng.choice(SIMPLE + UNI + ['', '.', '..', '@@x', 'a b']))
    return tail


def to_wsgi(text):
    return text.encode('utf-8').decode('latin-1')


BAD_UTF8 = ['\xff', '\xc3', '\xc0\x80', '\xed\xa0\x80', '\xf4\x90\x80\x80', '\xe2\x82', '\x80', '\xc3\x28', '\xf8\x88\x80\x80\x80']


def join_path(rng, segs, lead=True):
    p = '/'.join(segs)
    if lead:
        p = '/' + p
    r = rng.random()
    if r < 0.15:
        p += '/'
    elif r < 0.2:
        p += '//'
    elif r < 0.23:
        p = '/' + p
    return p


def gen_vroot(rng, tree, chain, j):
    """(vroot text or None, kind)"""
    r = rng.random()
    if r < 0.45:
        return None, 'absent'
    if r < 0.50:
        return '/', 'slash'
    if r < 0.53:
        return '', 'empty'
    if r < 0.80:
        segs = chain[:j]
        kind = 'existing'
    elif r < 0.90:
        segs = chain[:j] + [rng.choice(['zz', 'missing', 'é9'])] + ([rng.choice(SIMPLE)] if rng.random() < 0.3 else [])
        kind = 'missing'
    else:
        segs = noise(rng, chain[:j], 0.6)
        kind = 'noisy'
    v = '/' + '/'.join(segs)
    q = rng.random()
    if q < 0.2:
        v += '/'
        kind += '+trailing'
    elif q < 0.25 and segs:
        v = v[1:]
        kind += '+nolead'
    return v, kind


def gen_traversal(rng, deep):
    tree = gen_tree(rng, rng.choice([1, 2, 2, 3, 3, 4] + ([5, 6] if deep else [])))
    chain = descent(rng, tree)
    j = rng.randint(0, len(chain))
    vroot, vkind = gen_vroot(rng, tree, chain, j)
    if vkind.startswith('existing') or vkind.startswith('noisy'):
        rest = chain[j:]
    elif vkind.startswith('missing'):
        rest = chain[j:] if rng.random() < 0.5 else chain
    else:
        rest = chain
    segs = rest + gen_tail(rng)
    if rng.random() < 0.35:
        segs = noise(rng, segs)
    return tree, vroot, vkind, segs


def gen_case(rng, deep=False):
    r = rng.random()
    if r < 0.62:
        tree, vroot, vkind, segs = gen_traversal(rng, deep)
        m = rng.random()
        case = {'tree': tree, 'vroot': None if vroot is None else to_wsgi(vroot)}
        if m < 0.40:
            case['mode'] = 'router'
            case['path'] = to_wsgi(join_path(rng, segs))
            if rng.random() < 0.3:
                case['with_routes'] = True
            q = rng.random()
            if q < 0.06:
                case['path'] = ''
            elif q < 0.09:
                case['path'] = case['path'][1:]
            elif q < 0.15:
                i = rng.randint(0, len(case['path']))
                case['path'] = case['path'][:i] + rng.choice(BAD_UTF8) + case['path'][i:]
            if case['vroot'] is not None and rng.random() < 0.04:
                case['vroot'] += rng.choice(BAD_UTF8)
        elif m < 0.62:
            case['mode'] = 'route'
            rn = rng.choice(['t', 't', 's', 's', 'u', 'v', 'w', 'p'])
            if rn in ('t', 's'):
                p = '/_%s%s' % (rn, join_path(rng, segs))
            elif rn in ('u', 'p'):
                p = '/_%s/%s%s' % (rn, (segs[0] if segs and segs[0] and '/' not in segs[0] else 'a'), join_path(rng, segs[1:]))
            elif rn == 'v':
                p = '/_v/%s/%s' % ((segs[0] if segs and segs[0] and '/' not in segs[0] else 'a'), (segs[1] if len(segs) > 1 and segs[1] else 'b'))
            else:
                p = '/_w/%s' % (segs[0] if segs and segs[0] and '/' not in segs[0] else 'a')
            case['path'] = to_wsgi(p)
            if rng.random() < 0.04:
                case['path'] += rng.choice(BAD_UTF8)
        else:
            case['mode'] = 'direct'
            case['path'] = to_wsgi(join_path(rng, segs)) if rng.random() < 0.8 else rng.choice([None, '', '/', 'x'])
            q = rng.random()
            if q < 0.5:
                md = {}
                t = rng.random()
                if t < 0.35:
                    md['traverse'] = list(segs)
                elif t < 0.6:
                    md['traverse'] = join_path(rng, segs, lead=rng.random() < 0.6)
                elif t < 0.7:
                    md['traverse'] = rng.choice(['', [], '/', ['']])
                s = rng.random()
                if s < 0.3:
                    md['subpath'] = [rng.choice(SIMPLE + UNI + ['..', '.', '']) for _ in range(rng.randint(0, 3))]
                elif s < 0.6:
                    md['subpath'] = '/'.join(rng.choice(SIMPLE + UNI + ['..', '.', '']) for _ in range(rng.randint(0, 4)))
                case['md'] = md
                if rng.random() < 0.1:
                    case['path'] = '/\xff'          # never read when a match dictionary is present
            else:
                case['md'] = None
                if rng.random() < 0.06 and case['path']:
                    case['path'] += rng.choice(BAD_UTF8)
        return case
    if r < 0.78:
        # traverse(resource, path)
        tree = gen_tree(rng, rng.choice([1, 2, 3, 3, 4]))
        chain = descent(rng, tree, p_stop=0.15)
        j = rng.randint(0, len(chain))
        start = chain[:j]
        # the start resource must be reachable by plain item lookup from the harness' point of view
        node = tree
        ok = []
        for n in start:
            if not node['g']:
                break
            node = kid(node, n)
            ok.append(n)
        start = ok
        absolute = rng.random() < 0.5
        segs = (chain if absolute else chain[len(start):]) + gen_tail(rng)
        if rng.random() < 0.25:
            segs = noise(rng, segs)
        if rng.random() < 0.5:
            path = ([''] if absolute else []) + segs
            if not absolute and path and path[0] == '':
                path = path[1:]
        else:
            path = '/'.join(quote_some(rng, s) for s in segs)
            if absolute:
                path = '/' + path
            q = rng.random()
            if q < 0.1:
                path += '/'
            elif q < 0.13:
                path += rng.choice(['%', '%4', '%zz', '?x=1', 'é'])
        return {'mode': 'api', 'tree': tree, 'start': start, 'path': path}
    segs = [gen_name(rng) for _ in range(rng.randint(0, 5))]
    if rng.random() < 0.5:
        segs = noise(rng, segs, 0.5)
    m = rng.random()
    if m < 0.3:
        p = '/'.join(quote_some(rng, s) for s in segs)
        if rng.random() < 0.7:
            p = '/' + p
        if rng.random() < 0.1:
            p += rng.choice(['%', '%4', '%zz', '%C3', '%ff', 'é'])
        return {'mode': 'tpath', 'path': p}
    if m < 0.55:
        p = to_wsgi(join_path(rng, segs, lead=rng.random() < 0.8))
        if rng.random() < 0.12:
            i = rng.randint(0, len(p))
            p = p[:i] + rng.choice(BAD_UTF8) + p[i:]
        return {'mode': 'tpi', 'path': p}
    if m < 0.8:
        return {'mode': 'split', 'path': join_path(rng, segs, lead=rng.random() < 0.8)}
    return {'mode': 'join', 'tuple': ([''] if rng.random() < 0.5 else []) + segs}


def quote_some(rng, seg):
    """percent-encode a segment the way a client may: everything that must be, and at random more"""
    out = []
    for b in seg.encode('utf-8'):
        c = chr(b)
        must = not (c.isalnum() and b < 128 or c in "_.-~!$&'()*+,;=:@")
        if must or rng.random() < 0.1:
            h = '%02X' % b
            if rng.random() < 0.3:
                h = h.lower()
            out.append('%' + h)
        else:
            out.append(c)
    return ''.join(out)


# ------------------------------------------------------------------------------------------------
# checking

def check_case(case, model_reply=None, want_model=False):
    """returns (got, extra, mismatch|None, violation|None, info)"""
    got, extra = impl(case)
    exp, info = expected(case, extra)
    viol = mism = None
    if exp is not None and got != exp:
        viol = {'case': case, 'impl': got, 'expected': exp,
                'detail': 'the implementation does not give the outcome the property demands' + (
                    ' (fields: %s)' % [f for f in FIELDS if got['ok'].get(f) != exp['ok'].get(f)]
                    if 'ok' in got and 'ok' in exp and isinstance(got['ok'], dict) and 'context' in got['ok'] else '')}
        f = classify(case, extra, got, exp, info)
        if f:
            viol['finding'] = f
    if model_reply is not None:
        mo, mspec = decode_model(case, model_reply)
        if mo != got and not (mo == {'err': 'outside'}):
            mism = {'case': case, 'impl': got, 'model': mo}
        info['model_spec'] = mspec
        info['model_outside'] = (mo == {'err': 'outside'})
    return got, extra, mism, viol, info


def features(case, info):
    f = []
    p = case.get('path')
    txts = []
    if isinstance(p, str):
        txts.append(p)
    elif isinstance(p, list):
        txts += p
    md = case.get('md') or {}
    for v in md.values():
        txts += v if isinstance(v, list) else [v]
    if 'tuple' in case:
        txts += case['tuple']
    blob = '/'.join(txts)
    segs = blob.split('/')
    if '..' in segs: f.append('dotdot')
    if '.' in segs: f.append('dot')
    if '' in segs[1:-1]: f.append('empty')
    if '%' in blob: f.append('pct')
    if any(ord(c) > 127 for c in blob): f.append('nonascii')
    if '@@' in blob: f.append('selector')
    if blob.endswith('/') and len(blob) > 1: f.append('trailing')
    return f


def nontrivial(case, got, info, feats):
    if case['mode'] in ('router', 'route', 'direct', 'api'):
        r = got.get('ok')
        if isinstance(r, dict) and 'res' in r:
            r = r['res']
        return bool(r and r.get('view_name')) or case.get('vroot') is not None or any(x in feats for x in ('dotdot', 'dot', 'empty'))
    return any(x in feats for x in ('dotdot', 'pct', 'nonascii'))


def clear_caches():
    for fn in (T.traversal_path_info, T.split_path_info, T._join_path_tuple):
        if hasattr(fn, 'cache_clear'):
            fn.cache_clear()
    T._segment_cache.clear()


WITNESSES = [
    # F-C02a (known) — the repository's own test_withroute_and_traverse_and_vroot in miniature
    ({'mode': 'direct', 'tree': {'g': True, 'k': [['abc', {'g': True, 'k': []}]]}, 'path': '/foo/bar', 'vroot': '/abc', 'md': None},
     'F-C02a'),
    # former F-C02b (repaired in 939e5de) — '..' climbed out of the virtual root: context / virtual_root were /a/c.
    # Now the walk stays below /a/b and stops at 'c' — an early stop under a virtual root, i.e. an F-C02a case
    ({'mode': 'direct', 'tree': {'g': True, 'k': [['a', {'g': True, 'k': [['b', {'g': True, 'k': []}], ['c', {'g': True, 'k': []}]]}]]},
      'path': '/../c', 'vroot': '/a/b', 'md': None}, 'F-C02a'),
    # the same with a 'c' below /a/b too: the context must be /a/b/c (not the sibling /a/c), path exhausted, no finding
    ({'mode': 'direct', 'tree': {'g': True, 'k': [['a', {'g': True, 'k': [['b', {'g': True, 'k': [['c', {'g': True, 'k': []}]]}],
                                                                         ['c', {'g': True, 'k': []}]]}]]},
      'path': '/../c', 'vroot': '/a/b', 'md': None}, None),
    # former F-C02c (repaired in 939e5de) — {traverse} placeholder (no leading slash) was glued to the virtual root
    ({'mode': 'route', 'tree': {'g': True, 'k': [['a', {'g': True, 'k': [['x', {'g': True, 'k': []}]]}]]}, 'path': '/_w/x', 'vroot': '/a'},
     None),
]


def run(ctx):
    rng = ctx.rng
    n = ctx.n(15000, 250000)
    corpus = [c for _, c in ctx.corpus()]
    cases = corpus + [gen_case(rng, deep=(ctx.tier == 'thorough')) for _ in range(n)]
    clear_caches()
    # --- first evaluation: every case cold-ish, then warm (same case again at once) ------------------
    first, extras = [], []
    hist_viol = []
    for i, case in enumerate(cases):
        if i % 7 == 0:
            clear_caches()                      # really cold for these
        got, extra = impl(case)
        again, _ = impl(case)                   # warm
        if again != got:
            hist_viol.append({'case': case, 'impl': {'cold': got, 'warm': again}, 'expected': 'same outcome',
                              'detail': 'outcome differs between the first (cold) and the second (warm) evaluation'})
        first.append(got); extras.append(extra)
    # --- model ------------------------------------------------------------------------------------------
    replies = [None] * len(cases)
    if ctx.driver_path:
        replies = ctx.run_model([model_case(c, e) for c, e in zip(cases, extras)])
    # --- compare, evaluate the property -----------------------------------------------------------------
    mism, viol, agree = [], list(hist_viol), 0
    seen, nontriv = set(), set()
    dist = {'mode': {}, 'outcome': {}, 'stop': {}, 'vroot': {}, 'features': {}, 'tree_depth': {}, 'segments': {},
            'matchdict': {}, 'model_outside': 0, 'oracle_skipped': 0, 'spec_vs_model_equal': 0, 'spec_vs_model_differ': 0}
    for case, got0, extra, mo in zip(cases, first, extras, replies):
        got, extra2, m, v, info = check_case(case, mo)          # third evaluation (warm, later)
        if got != got0:
            viol.append({'case': case, 'impl': {'first': got0, 'later': got}, 'expected': 'same outcome',
                         'detail': 'outcome changed when the case was evaluated again later'})
        if m:
            mism.append(m)
        elif mo is not None:
            agree += 1
        if v:
            viol.append(v)
        if info.get('model_outside'):
            dist['model_outside'] += 1
        if 'outside' in info:
            dist['oracle_skipped'] += 1
        ms = info.get('model_spec')
        if ms is not None:
            bump(dist, 'spec_vs_model_equal' if ms == got else 'spec_vs_model_differ')
            # the Lean-side spec and the Python oracle must agree with each other
            exp, _ = expected(case, extra)
            if exp is not None and ms != exp:
                mism.append({'case': case, 'impl': {'python_oracle': exp}, 'model': {'lean_spec': ms}})
        feats = features(case, info)
        key = vfutil.canon(case)
        bump(dist['mode'], case['mode'])
        bump(dist['outcome'], 'ok' if 'ok' in got else got['err'])
        for f in feats:
            bump(dist['features'], f)
        if case['mode'] in ('router', 'route', 'direct', 'api'):
            bump(dist['tree_depth'], depth(case['tree']))
            if 'k' in info:
                total = len(info['vt']) + len(info['pt'])
                bump(dist['segments'], min(total, 8))
                bump(dist['stop'], info['why'])
                if info['k'] < len(info['vt']):
                    bump(dist['stop'], 'inside-vroot')
            if case['mode'] != 'api':
                v_ = case.get('vroot')
                vk = 'absent' if v_ is None else 'undecodable' if utf8(v_) is None else 'root' if not spec_split(utf8(v_)) else \
                    ('existing' if resolve(case['tree'], spec_split(utf8(v_))) is not None else 'missing') + ('+trailing' if v_.endswith('/') else '')
                bump(dist['vroot'], vk)
                md = extra.get('md') if case['mode'] != 'direct' else case.get('md')
                if md is not None:
                    bump(dist['matchdict'], 'traverse:%s subpath:%s' % tuple(
                        'absent' if k_ not in md else 'tuple' if isinstance(md[k_], list) else 'str' for k_ in ('traverse', 'subpath')))
        if key not in seen:
            seen.add(key)
            if nontrivial(case, got, info, feats):
                nontriv.add(key)
    # --- history: everything again in shuffled order, long after (> 1000 distinct paths in between) --------
    order = list(range(len(cases)))
    rng.shuffle(order)
    for i in order:
        got, _ = impl(cases[i])
        if got != first[i]:
            viol.append({'case': cases[i], 'impl': {'first': first[i], 'after_history': got}, 'expected': 'same outcome',
                         'detail': 'outcome depends on the paths resolved earlier (memoised helpers)'})
    dist['history'] = {'evaluations_per_case': 4, 'cache_clears': (len(cases) + 6) // 7,
                       'cache_sizes_at_end': {f: getattr(T, f).cache_info().currsize for f in ('traversal_path_info', 'split_path_info', '_join_path_tuple')
                                              if hasattr(getattr(T, f), 'cache_info')},
                       'segment_cache': len(T._segment_cache)}
    # --- small-scope exhaustive enumeration (every case: impl vs oracle vs model) ---------------------------
    ex = exhaustive_cases(3 if ctx.tier == 'quick' else 4)
    ex_replies = ctx.run_model([model_case(c, {}) for c in ex]) if ctx.driver_path else [None] * len(ex)
    ex_known = {}
    for case, mo in zip(ex, ex_replies):
        got, extra, m, v, info = check_case(case, mo)
        if m:
            mism.append(m)
        elif mo is not None:
            agree += 1
        if v:
            if v.get('finding'):
                bump(ex_known, v['finding'])
                if ex_known[v['finding']] > 1:
                    continue
            viol.append(v)
    dist['exhaustive_scope'] = {'cases': len(ex), 'known_finding_cases': ex_known,
                                'what': 'all trees of depth <= 2 over names {a,b} (36) x all paths of <= %d segments over '
                                        '{a,b,.,..,@@a,""} x vroot in {none,/,/a,/a/b,/zz,/a/}; plus the same segment sequences '
                                        'without leading slash as a match-dictionary traverse string x vroot in {/a,/a/b}'
                                        % (3 if ctx.tier == 'quick' else 4)}
    # --- witnesses of the recorded finding and of the repaired ones, replayed on the real code ---------------------
    notes = []
    for w, want in WITNESSES:
        got, extra, m, v, info = check_case(w)
        has = (v or {}).get('finding') if v else None
        notes.append('witness %s: impl=%s -> %s' % (json.dumps(w, ensure_ascii=True)[:160], json.dumps(got, ensure_ascii=True)[:200],
                                                    has or ('VIOLATION' if v else 'as the property demands')))
        if v:
            viol.append(v)
        elif want is not None:
            notes.append('recorded finding %s is no longer reproduced by its witness (repaired? update known/C02.json)' % want)
    viol = shrink_all(viol)
    dist['known_finding_cases'] = {}
    for v in viol:
        if v.get('finding'):
            bump(dist['known_finding_cases'], v['finding'])
    return {'evaluations': len(cases) * 4 + len(ex), 'exhaustive': True, 'distinct_nontrivial': len(nontriv), 'rule': RULE, 'agreeing': agree,
            'samples': cases[len(corpus):len(corpus) + 4] + cases[-2:], 'mismatches': mism[:50], 'violations': viol,
            'distribution': dist, 'notes': notes,
            'assumptions': ['resource names and path text are Python str without lone surrogates',
                            'children are found by dict lookup (==/hash of str); the model uses list lookup by equality',
                            'each case is evaluated four times (cold/warm/later/after the whole shuffled stream) and must not change'],
            'trusted_base': ['Python codecs (utf-8, latin-1, ascii), str.split/strip, urllib.parse.unquote_to_bytes/quote, '
                             'WebOb Request (path_info, blank), route matching (the match dictionary is taken as observed) — tied only by this run',
                             'core Lean UTF-8 codec (List.utf8Encode / ByteArray.utf8Decode?) stands for Python\'s strict utf-8 codec']}


def depth(t):
    return 1 + max([depth(s) for _, s in t['k']], default=0)


def shrink_all(viol, limit=6):
    """shrink unknown violations (known-finding ones are kept as they are: one example is enough)"""
    out, done = [], 0
    for v in viol:
        if v.get('finding') or done >= limit or 'first' in (v.get('impl') or {}) or 'cold' in (v.get('impl') or {}):
            out.append(v)
            continue
        done += 1

        def still(c):
            try:
                _, _, _, w, _ = check_case(c)
            except Exception:
                return False
            return bool(w) and not w.get('finding')
        small = vfutil.shrink(v['case'], still, max_steps=600)
        _, _, _, w, _ = check_case(small)
        out.append(w or v)
    return out


# ------------------------------------------------------------------------------------------------
# search / replay

def small_trees():
    def sub():
        yield None
        yield {'g': False, 'k': []}
        for mask in range(4):
            yield {'g': True, 'k': [[n, {'g': True, 'k': []}] for i, n in enumerate('ab') if mask >> i & 1]}
    for ta in sub():
        for tb in sub():
            yield {'g': True, 'k': [[n, t] for n, t in (('a', ta), ('b', tb)) if t is not None]}


ALPHABET = ['a', 'b', '.', '..', '@@a', '']
VROOTS = (None, '/', '/a', '/a/b', '/zz', '/a/')


def exhaustive_cases(maxlen):
    """PATH_INFO cases (leading slash) for every virtual root, and — for the virtual roots that are not empty — the
    same segment sequences WITHOUT a leading slash as the `traverse` string of a match dictionary (what a
    {traverse} placeholder delivers)"""
    seqs = [p for L in range(1, maxlen + 1) for p in itertools.product(ALPHABET, repeat=L)]
    paths = ['/'] + ['/' + '/'.join(p) for p in seqs]
    out = [{'mode': 'direct', 'tree': tree, 'path': p, 'vroot': vroot, 'md': None}
           for tree in small_trees() for vroot in VROOTS for p in paths]
    bare = sorted({'/'.join(p) for p in seqs if p[0] != ''} - {''})
    out += [{'mode': 'direct', 'tree': tree, 'path': '/', 'vroot': vroot, 'md': {'traverse': t}}
            for tree in small_trees() for vroot in ('/a', '/a/b') for t in bare]
    return out


def search(ctx):
    """small-scope exhaustive search for an input on which the implementation violates the property:
    all trees of depth <= 2 over {a,b} x all paths of <= 4 segments over {a,b,.,..,@@a,''} x
    vroot in {none,'/','/a','/a/b','/zz','/a/'} through the traverser (plus the slash-less traverse strings under
    /a and /a/b), then the seeded stream."""
    viol, n = [], 0
    paths = ['/'] + ['/' + '/'.join(p) for L in range(1, 5) for p in itertools.product(ALPHABET, repeat=L)]
    exhaustive = True
    todo = exhaustive_cases(4)
    for j, case in enumerate(todo):
        n += 1
        _, _, _, v, _ = check_case(case)
        if v and not v.get('finding'):
            viol.append(v)
            if len(viol) >= 3:
                return {'violations': shrink_all(viol), 'searched': n, 'exhaustive': False}
        if j % 5000 == 0 and ctx.time_left() < 60:
            exhaustive = False
            break
    for p in paths:
        for mode in ('split', 'tpi', 'tpath'):
            n += 1
            _, _, _, v, _ = check_case({'mode': mode, 'path': p})
            if v:
                viol.append(v)
    k = 0
    while not viol and k < 40000 and ctx.time_left() > 45:
        case = gen_case(ctx.rng, deep=True)
        k += 1
        _, _, _, v, _ = check_case(case)
        if v and not v.get('finding'):
            viol.append(v)
    return {'violations': shrink_all(viol), 'searched': n + k, 'exhaustive': exhaustive}


def replay(ctx, rep):
    case = rep.get('case')
    if case is None:
        return {'violates': False, 'note': 'replay names broken obligations only', 'broken': rep.get('broken_obligations')}
    got, extra = impl(case)
    mo = None
    if ctx.driver_path:
        mo = ctx.run_model([model_case(case, extra)])[0]
    got, extra, m, v, info = check_case(case, mo)
    exp, _ = expected(case, extra)
    return {'case': case, 'impl': got, 'model': decode_model(case, mo)[0] if mo else None, 'spec': exp,
            'lean_spec': info.get('model_spec'), 'mismatch': m, 'finding': (v or {}).get('finding'),
            'detail': (v or {}).get('detail'), 'violates': bool(v)}
