"""C05 — a protected view body runs only after the security policy granted its permission.

A *case* is a self-contained JSON description of one application (security policy present or not and how it
is delivered, default permission, view statements of every kind, routes) written in a given statement order
inside ONE commit scope, a policy decision table, and one probe (a request through `Router.__call__`, or a
direct `render_view_to_response(secure=…)`, or `view_execution_permitted`).

`build_app` turns it into a real Configurator/Router whose security policy and view bodies append to an event
log; `abstract` computes, from the real objects, the data the Lean model takes as input (resolution orders,
predicate `order`s); `impl` runs the probe and returns the event trace + outcome.  The Lean model
(lean/PyramidModel/Security.lean through drv_c05) predicts the same trace; the oracle below states the property
directly on the implementation's trace.
"""
import importlib.util, itertools, json, os, shutil, sys, tempfile, warnings

from zope.interface import Interface, providedBy, implementedBy

from pyramid.config import Configurator
from pyramid.events import ContextFound
from pyramid.exceptions import PredicateMismatch
from pyramid.httpexceptions import HTTPForbidden, HTTPNotFound
from pyramid.interfaces import IRequest, IRouteRequest, IExceptionResponse
from pyramid.request import Request
from pyramid.response import Response
from pyramid.security import Allowed, Denied, NO_PERMISSION_REQUIRED, view_execution_permitted
from pyramid.tweens import EXCVIEW
from pyramid.view import (render_view_to_response, view_defaults, view_config, forbidden_view_config,
                          notfound_view_config, exception_view_config)

import vfutil

RULE = ('one case = one application (security policy present/absent, delivered by set_security_policy, the '
        'Configurator constructor or the legacy authn/authz pair; default permission unset/set; 1-7 view '
        'statements over add_view / add_forbidden_view / add_notfound_view / add_exception_view / '
        'add_static_view x permission absent/name/NO_PERMISSION_REQUIRED x function/class/attr/instance views, '
        'decorators, renderers, wrapper views, predicates, route-bound or traversal, exception contexts, class views '
        'with @view_defaults on the class / a base class / both, registered by add_view or by @view_config + scan, '
        'exception_only) written in shuffled statement order in one commit scope, a policy decision table, '
        'and one probe; a case is non-trivial when a security policy is configured and the probe reaches at '
        'least one view whose effective permission is set (a permits call is logged or a protected body is '
        'bypassed with secure=False); distinct = distinct canonical case JSON')

# ---------------------------------------------------------------------------------------------------------
# vocabulary shared with the Lean driver (ids)

NAME_IDS = {'': 0, 'x': 1, 'w1': 2, 'w2': 3}
PERM_IDS = {'p1': 1, 'p2': 2}
ROUTE_IDS = {None: 0, 'r1': 1, 'r2': 2, '__static/': 3}
K_FORBIDDEN, K_NOTFOUND, K_PM, K_VALUEERROR, K_TYPEERROR, K_RECURSION, K_OTHER = 13, 14, 16, 17, 18, 98, 99


class CA(dict):
    cid = 0


class CB(CA):
    pass


class E1(Exception):
    pass


class E2(E1):
    pass


CTX_CLASSES = {None: None, 'CA': CA, 'CB': CB, 'Exception': Exception, 'E1': E1, 'E2': E2,
               'HTTPForbidden': HTTPForbidden, 'HTTPNotFound': HTTPNotFound}
CLASS_IDS = {None: 0, 'CA': 1, 'CB': 2, 'Exception': 10, 'E1': 11, 'E2': 12, 'HTTPForbidden': 13, 'HTTPNotFound': 14,
             'IExceptionResponse': 15, 'PredicateMismatch': 16, 'ValueError': 17}
EXC_CTX = ('Exception', 'E1', 'E2', 'HTTPForbidden', 'HTTPNotFound')
SPEC_IDS = None


def spec_ids():
    global SPEC_IDS
    if SPEC_IDS is None:
        SPEC_IDS = {Interface: 0, IExceptionResponse: 15}
        for nm, cls in (('CA', CA), ('CB', CB), ('Exception', Exception), ('E1', E1), ('E2', E2), ('HTTPForbidden', HTTPForbidden),
                        ('HTTPNotFound', HTTPNotFound), ('PredicateMismatch', PredicateMismatch), ('ValueError', ValueError)):
            SPEC_IDS[implementedBy(cls)] = CLASS_IDS[nm]
    return SPEC_IDS


RAISABLE = {'E1': E1, 'E2': E2, 'forbidden': HTTPForbidden, 'notfound': HTTPNotFound}
ACT_IDS = {'ok': 0, 'E1': 11, 'E2': 12, 'forbidden': 13, 'notfound': 14}


def exc_kind(e):
    t = type(e)
    for cls, k in ((E2, 12), (E1, 11), (HTTPForbidden, 13), (PredicateMismatch, 16), (HTTPNotFound, 14)):
        if t is cls:
            return k
    if t is ValueError:
        return K_VALUEERROR
    if t is TypeError:
        return K_TYPEERROR
    if t is RecursionError:
        return K_RECURSION
    return K_OTHER


def ctx_id(obj):
    if isinstance(obj, BaseException):
        return 100 + exc_kind(obj)
    return getattr(obj, 'cid', 99)


def make_tree():
    root = CA(); root.cid = 1
    b = CB(); b.cid = 2
    a = CA(); a.cid = 3
    root['a'] = a; root['b'] = b
    b['a'] = CA(); b['a'].cid = 4
    return root


def tree_object(cid):
    root = make_tree()
    return {1: root, 2: root['b'], 3: root['a'], 4: root['b']['a']}[cid]


class World:
    """what the instrumented application shares with the harness"""

    def __init__(self, case):
        self.case = case
        self.log = []
        self.deny = {(c, p) for c, p in case.get('deny', [])}
        self.found = None


class LogPolicy:
    """ISecurityPolicy whose `permits` answers from the decision table and logs the call"""

    def __init__(self, world, style):
        self.world, self.style = world, style

    def identity(self, request):
        return None

    def authenticated_userid(self, request):
        return None

    def remember(self, request, userid, **kw):
        return []

    def forget(self, request, **kw):
        return []

    def permits(self, request, context, permission):
        cid = ctx_id(context)
        pid = PERM_IDS.get(permission, 9)
        ans = (cid, pid) not in self.world.deny
        self.world.log.append(['p', cid, pid, ans])
        if self.style == 'bool':
            return ans
        if self.style == 'int':
            return 1 if ans else 0
        if self.style == 'none':
            return 'yes' if ans else None
        return Allowed('ok') if ans else Denied('no')


LEGACY_PRINCIPALS = ['system.Everyone', 'verif:principal']


class LegacyAuthn:
    def effective_principals(self, request):
        return list(LEGACY_PRINCIPALS)

    def authenticated_userid(self, request):
        return None

    def unauthenticated_userid(self, request):
        return None

    def remember(self, request, userid, **kw):
        return []

    def forget(self, request):
        return []


class LegacyAuthz:
    def __init__(self, world, style):
        self.inner = LogPolicy(world, style)

    def permits(self, context, principals, permission):
        # the AUTHORIZATION policy must be asked about (this context, the effective principals, this permission)
        if list(principals) != LEGACY_PRINCIPALS:
            self.inner.world.log.append(['p', 99, PERM_IDS.get(permission, 9), False])
            return False
        return self.inner.permits(None, context, permission)

    def principals_allowed_by_permission(self, context, permission):
        return []


def under_tween_factory(handler, registry):
    """sits between the excview tween and the main handler: logs what the main handler raised"""
    world = registry.verif_world

    def under_tween(request):
        try:
            return handler(request)
        except Exception as e:
            world.log.append(['x', exc_kind(e)])
            raise
    return under_tween


def make_decorator(world, tag):
    """a `decorator=`: user code of the view that runs when the derived view is called, before the inner view"""
    def decorator(view):
        def decorated(context, request):
            world.log.append(['d', tag, ctx_id(context)])
            return view(context, request)
        return decorated
    return decorator


BUILTIN_DERIVERS = ['secured_view', 'csrf_view', 'owrapped_view', 'http_cached_view', 'decorated_view', 'rendered_view', 'mapped_view']
# re-placing a built-in deriver re-places, with it, the built-ins the documented chain hangs below it (audited table;
# `secured_outermost_under_replacement` decides it on the hints the running code records)
MOVED_WITH = {'csrf_view': [], 'mapped_view': [], 'rendered_view': [], 'decorated_view': ['rendered_view'],
              'http_cached_view': ['decorated_view', 'rendered_view'],
              'owrapped_view': ['http_cached_view', 'decorated_view', 'rendered_view']}


def hint_value(h):
    from pyramid.viewderivers import INGRESS, VIEW
    return {'INGRESS': INGRESS, 'VIEW': VIEW}.get(h, h)


def make_deriver(st):
    import pyramid.viewderivers as vd
    if st.get('impl') == 'real' and st['name'] in BUILTIN_DERIVERS:
        return getattr(vd, st['name'])

    def transparent(view, info):
        return view
    if st['name'] in BUILTIN_DERIVERS:
        transparent.options = getattr(getattr(vd, st['name']), 'options', ())
    return transparent


def req_ctx(request):
    exc = getattr(request, 'exception', None)
    return exc if exc is not None else request.context


def make_body(world, tag, act, renderer):
    def body(context, request):
        world.log.append(['b', tag, ctx_id(context)])
        if act != 'ok':
            raise RAISABLE[act]()
        if renderer:
            request.response.headers['X-Tag'] = str(tag)
            return {'tag': tag}
        r = Response('t%d' % tag)
        r.headers['X-Tag'] = str(tag)
        return r
    return body


def make_view(world, v):
    """-> (view object, attr) for this view statement"""
    tag, act, renderer = v['tag'], v.get('act', 'ok'), v.get('renderer')
    body = make_body(world, tag, act, renderer)
    kind = v.get('kind', 'func2')
    if v.get('vd') and kind in CLASS_KINDS:
        return make_class_view(world, v)
    if kind == 'func2':
        def view(context, request):
            return body(context, request)
        return view, None
    if kind == 'func1':
        def view(request):
            return body(req_ctx(request), request)
        return view, None
    if kind == 'class2':
        class V:
            def __init__(self, context, request):
                self.context, self.request = context, request

            def __call__(self):
                return body(self.context, self.request)
        return V, None
    if kind == 'class1':
        class V:
            def __init__(self, request):
                self.request = request

            def __call__(self):
                return body(req_ctx(self.request), self.request)
        return V, None
    if kind == 'class_attr':
        class V:
            def __init__(self, context, request):
                self.context, self.request = context, request

            def go(self):
                return body(self.context, self.request)
        return V, 'go'
    if kind == 'inst':
        class V:
            def __call__(self, context, request):
                return body(context, request)
        return V(), None
    if kind == 'inst_attr':
        class V:
            def go(self, context, request):
                return body(context, request)
        return V(), 'go'
    raise ValueError(kind)


CLASS_KINDS = ('class2', 'class1', 'class_attr')


def vd_kwargs(spec):
    """the keyword arguments of `@view_defaults(...)` for a class-defaults spec: 'absent' = decorated, but without a
    permission (a harmless other default), else a permission"""
    if spec == 'absent':
        return {'http_cache': 0}
    return {'permission': perm_value(spec)}


def make_class_view(world, v):
    """a class view built as Base -> Sub, either of which may carry `@view_defaults`; -> (Sub, attr)"""
    tag, act, renderer, kind = v['tag'], v.get('act', 'ok'), v.get('renderer'), v.get('kind')
    body = make_body(world, tag, act, renderer)
    vd = v.get('vd') or {}
    if kind == 'class1':
        class Base:
            def __init__(self, request):
                self.request = request

            def __call__(self):
                return body(req_ctx(self.request), self.request)
    else:
        class Base:
            def __init__(self, context, request):
                self.context, self.request = context, request

            def __call__(self):
                return body(self.context, self.request)

            def go(self):
                return body(self.context, self.request)
    if vd.get('base') is not None:
        Base = view_defaults(**vd_kwargs(vd['base']))(Base)
    Sub = type('Sub%d' % tag, (Base,), {})
    if vd.get('own') is not None:
        Sub = view_defaults(**vd_kwargs(vd['own']))(Sub)
    return Sub, ('go' if kind == 'class_attr' else None)


_SCAN = {'dir': None, 'n': 0, 'mods': []}

SCAN_TEMPLATE = {
    'class2': """
{base_deco}class Base:
    def __init__(self, context, request):
        self.context, self.request = context, request
{own_deco}@DECO(**SETTINGS)
class Sub(Base):
    def __call__(self):
        return BODY(self.context, self.request)
""",
    'class1': """
{base_deco}class Base:
    def __init__(self, request):
        self.request = request
{own_deco}@DECO(**SETTINGS)
class Sub(Base):
    def __call__(self):
        return BODY(REQ_CTX(self.request), self.request)
""",
    'class_attr': """
{base_deco}class Base:
    def __init__(self, context, request):
        self.context, self.request = context, request
{own_deco}class Sub(Base):
    @DECO(**SETTINGS)
    def go(self):
        return BODY(self.context, self.request)
""",
}


def scan_register(config, world, v, deco, settings):
    """write a module holding the class view with its `@view_config`-style decorator, import it from a scratch
    directory outside /repo and /verif, and `config.scan()` it (the statement takes effect where it is written)"""
    if _SCAN['dir'] is None or not os.path.isdir(_SCAN['dir']):
        _SCAN['dir'] = tempfile.mkdtemp(prefix='verif_c05_scan_')
    _SCAN['n'] += 1
    name = 'verif_c05_scan_%d' % _SCAN['n']
    vd = v.get('vd') or {}
    src = 'from pyramid.view import view_defaults\n' + SCAN_TEMPLATE[v['kind']].format(
        base_deco='@view_defaults(**VD_BASE)\n' if vd.get('base') is not None else '',
        own_deco='@view_defaults(**VD_OWN)\n' if vd.get('own') is not None else '')
    fn = os.path.join(_SCAN['dir'], name + '.py')
    with open(fn, 'w') as f:
        f.write(src)
    spec = importlib.util.spec_from_file_location(name, fn)
    mod = importlib.util.module_from_spec(spec)
    mod.DECO, mod.SETTINGS = deco, settings
    mod.BODY = make_body(world, v['tag'], v.get('act', 'ok'), v.get('renderer'))
    mod.REQ_CTX = req_ctx
    if vd.get('base') is not None:
        mod.VD_BASE = vd_kwargs(vd['base'])
    if vd.get('own') is not None:
        mod.VD_OWN = vd_kwargs(vd['own'])
    sys.modules[name] = mod
    _SCAN['mods'].append(name)
    spec.loader.exec_module(mod)
    world.views[v['tag']] = mod.Sub
    config.scan(mod)


def cleanup_scan():
    for name in _SCAN['mods']:
        sys.modules.pop(name, None)
    _SCAN['mods'] = []
    if _SCAN['dir'] and os.path.isdir(_SCAN['dir']):
        shutil.rmtree(_SCAN['dir'], ignore_errors=True)
    _SCAN['dir'] = None


_STATIC_DIR = [None]


def static_dir():
    if _STATIC_DIR[0] is None or not os.path.isdir(_STATIC_DIR[0]):
        d = tempfile.mkdtemp(prefix='verif_c05_')
        with open(os.path.join(d, 'f.txt'), 'w') as f:
            f.write('static-file-body')
        _STATIC_DIR[0] = d
    return _STATIC_DIR[0]


def cleanup_static():
    cleanup_scan()
    if _STATIC_DIR[0] and os.path.isdir(_STATIC_DIR[0]):
        shutil.rmtree(_STATIC_DIR[0], ignore_errors=True)
    _STATIC_DIR[0] = None


import atexit
atexit.register(cleanup_static)      # whatever path the check leaves by, the scratch directory goes


def perm_value(p):
    return NO_PERMISSION_REQUIRED if p == 'NPR' else p


def apply_stmt(config, world, st, module_name):
    k = st['k']
    if k == 'policy':
        how = st.get('how', 'security')
        if how == 'security':
            config.set_security_policy(LogPolicy(world, st.get('style', 'obj')))
        elif how == 'legacy':
            # the deprecated pair; the shim LegacySecurityPolicy becomes the ISecurityPolicy
            if st.get('authz_first', True):
                config.set_authorization_policy(LegacyAuthz(world, st.get('style', 'obj')))
                config.set_authentication_policy(LegacyAuthn())
            else:
                config.set_authentication_policy(LegacyAuthn())
                config.set_authorization_policy(LegacyAuthz(world, st.get('style', 'obj')))
        # how == 'ctor' is handled at construction
    elif k == 'defperm':
        if st.get('how') != 'ctor':
            config.set_default_permission(perm_value(st['perm']))
    elif k == 'route':
        nm = st['name']
        if nm == 'r1':
            config.add_route('r1', '/r1*traverse')
        else:
            config.add_route('r2', '/r2*traverse', use_global_views=True)
    elif k == 'deriver':
        kw = {}
        if st.get('under') is not None:
            kw['under'] = hint_value(st['under'])
        if st.get('over') is not None:
            kw['over'] = hint_value(st['over'])
        config.add_view_deriver(make_deriver(st), name=st['name'], **kw)
    elif k == 'view':
        v = st
        d = v.get('dir', 'view')
        kw = {}
        if d == 'static':
            if v.get('perm') is not None:
                kw['permission'] = perm_value(v['perm'])
            config.add_static_view('static', static_dir(), **kw)
            return
        scan = v.get('via') == 'scan' and v.get('kind') in CLASS_KINDS
        view, attr = (None, None) if scan else make_view(world, v)
        if not scan:
            world.views[v['tag']] = view
        if attr:
            kw['attr'] = attr
        if v.get('renderer'):
            kw['renderer'] = v['renderer']
        if v.get('decorator'):
            kw['decorator'] = make_decorator(world, v['tag'])
        if v.get('wrapper'):
            kw['wrapper'] = v['wrapper']
        if v.get('route'):
            kw['route_name'] = v['route']
        if v.get('preds'):
            kw['request_param'] = tuple(v['preds'])
        if d == 'view':
            if v.get('perm') is not None:
                kw['permission'] = perm_value(v['perm'])
            if v.get('ctx') is not None:
                kw['context'] = CTX_CLASSES[v['ctx']]
            if v.get('exception_only'):
                kw['exception_only'] = True
            if scan:
                scan_register(config, world, v, view_config, dict(kw, name=v.get('name', '')))
            else:
                config.add_view(view, name=v.get('name', ''), **kw)
        elif d == 'forbidden':
            if scan:
                scan_register(config, world, v, forbidden_view_config, kw)
            else:
                config.add_forbidden_view(view, **kw)
        elif d == 'notfound':
            if scan:
                scan_register(config, world, v, notfound_view_config, kw)
            else:
                config.add_notfound_view(view, **kw)
        elif d == 'excview':
            if scan:
                scan_register(config, world, v, exception_view_config, dict(kw, context=CTX_CLASSES[v.get('ctx') or 'Exception']))
            else:
                config.add_exception_view(view, context=CTX_CLASSES[v.get('ctx') or 'Exception'], **kw)
        else:
            raise ValueError(d)
    else:
        raise ValueError(k)


def build_app(case, module_name):
    """-> (world, config, router)"""
    world = World(case)
    world.views = {}
    stmts = case['stmts']
    ctor = {}
    for st in stmts:
        if st['k'] == 'policy' and st.get('how') == 'ctor':
            ctor['security_policy'] = LogPolicy(world, st.get('style', 'obj'))
        if st['k'] == 'defperm' and st.get('how') == 'ctor':
            ctor['default_permission'] = perm_value(st['perm'])
    with warnings.catch_warnings():
        warnings.simplefilter('ignore')
        config = Configurator(root_factory=lambda request: make_tree(), autocommit=False, **ctor)
        config.registry.verif_world = world
        config.add_tween(module_name + '.under_tween_factory', under=EXCVIEW)

        def found(event):
            r = event.request
            world.found = {'ctx': ctx_id(r.context), 'sro': sro_ids(providedBy(r.context)),
                           'ifaces': iface_ids(config, r.request_iface),
                           'excifaces': iface_ids(config, r.request_iface.combined),
                           'wrapifaces': iface_ids(config, providedBy(r)),
                           'name': NAME_IDS.get(r.view_name, 9)}
        config.add_subscriber(found, ContextFound)
        for st in stmts:
            apply_stmt(config, world, st, module_name)
        router = config.make_wsgi_app()
    return world, config, router


# ---------------------------------------------------------------------------------------------------------
# running a probe on the implementation

def response_tag(world, resp):
    t = resp.headers.get('X-Tag')
    if t is not None:
        return int(t)
    for st in world.case['stmts']:
        if st['k'] == 'view' and st.get('dir') == 'static' and resp.status_int == 200 and resp.body == b'static-file-body':
            return st['tag']
    return 0


def sro_ids(spec):
    m = spec_ids()
    return [m[s] for s in spec.__sro__ if s in m]


def iface_ids(config, iface):
    reg = config.registry
    m = {IRequest: 0}
    for nm, rid in ROUTE_IDS.items():
        if nm is not None:
            ri = reg.queryUtility(IRouteRequest, name=nm)
            if ri is not None:
                m[ri] = rid
    return [m[s] for s in iface.__sro__ if s in m]


def run_impl(case, module_name='harness_c05'):
    """-> dict(trace, out, req) — req is the abstract request record the model needs"""
    world, config, router = build_app(case, module_name)
    probe = case['probe']
    reg = config.registry
    kind = probe['kind']
    res = {}
    qs = '&'.join('%s=1' % p for p in probe.get('params', []))
    if kind == 'router':
        url = probe['path'] + ('?' + qs if qs else '')
        try:
            with warnings.catch_warnings():
                warnings.simplefilter('ignore')
                resp = Request.blank(url).get_response(router)
            out = ['resp', response_tag(world, resp), resp.status_int]
        except Exception as e:
            out = ['raised', exc_kind(e)]
        res['out'] = out
        req = world.found
        if req is not None:
            req = dict(req, preds=sorted(probe.get('params', [])))
        res['req'] = req
    elif kind in ('render', 'vep'):
        ctx = tree_object(probe['ctx'])
        request = Request.blank('/' + ('?' + qs if qs else ''))
        request.registry = reg
        request.context = ctx
        try:
            with warnings.catch_warnings():
                warnings.simplefilter('ignore')
                if kind == 'render':
                    resp = render_view_to_response(ctx, request, probe['name'], secure=probe['secure'])
                    out = ['none'] if resp is None else ['resp', response_tag(world, resp), resp.status_int]
                else:
                    out = ['perm', bool(view_execution_permitted(ctx, request, probe['name']))]
        except Exception as e:
            out = ['raised', exc_kind(e)]
        res['out'] = out
        res['req'] = {'ctx': ctx_id(ctx), 'sro': sro_ids(providedBy(ctx)), 'ifaces': iface_ids(config, providedBy(request)),
                      'excifaces': iface_ids(config, providedBy(request)), 'wrapifaces': iface_ids(config, providedBy(request)),
                      'name': NAME_IDS.get(probe['name'], 9), 'preds': sorted(probe.get('params', []))}
    else:
        raise ValueError(kind)
    res['trace'] = world.log
    # data the model needs about the registrations: the predicate `order` of every view statement
    orders = {}
    for item in config.introspector.get_category('views'):
        intr = item['introspectable']
        for tag, vobj in world.views.items():
            if intr.get('callable') is vobj:
                orders[tag] = intr['order']
        if intr.get('route_name') == '__static/':
            for st in case['stmts']:
                if st['k'] == 'view' and st.get('dir') == 'static':
                    orders[st['tag']] = intr['order']
    res['orders'] = orders
    res['excsro'] = {str(k): sro_ids(providedBy(cls())) for k, cls in
                     ((11, E1), (12, E2), (13, HTTPForbidden), (14, HTTPNotFound), (17, ValueError))}
    res['excsro'][str(K_PM)] = sro_ids(providedBy(PredicateMismatch('x')))
    from pyramid.interfaces import IViewDerivers
    res['sorted'] = [n for n, _ in reg.getUtility(IViewDerivers).sorted()]
    return res


# ---------------------------------------------------------------------------------------------------------
# the model's input, built from the case + the data observed on the real objects

PRED_IDS = {'a': 1, 'b': 2, 'c': 3}
DIR_IDS = {'view': 0, 'forbidden': 1, 'notfound': 2, 'excview': 3, 'static': 4}
MAX_ORDER = 1 << 30
LEGACY_HOW = ('legacy',)


def stmt_cls(v):
    d = v.get('dir', 'view')
    if d == 'forbidden':
        return 13
    if d == 'notfound':
        return 14
    if d == 'excview':
        return CLASS_IDS[v.get('ctx') or 'Exception']
    if d == 'static':
        return 0
    return CLASS_IDS[v.get('ctx')]


def stmt_is_exc(v):
    d = v.get('dir', 'view')
    if d in ('forbidden', 'notfound', 'excview'):
        return True
    return d == 'view' and v.get('ctx') in EXC_CTX


def perm_json(p):
    if p is None:
        return None
    if p == 'NPR':
        return 'npr'
    return PERM_IDS.get(p, 9)


def vd_json(v, which):
    vd = v.get('vd') or {}
    if v.get('kind') not in CLASS_KINDS or vd.get(which) is None:
        return None
    return [None if vd[which] == 'absent' else perm_json(vd[which])]


def view_json(v, orders):
    d = v.get('dir', 'view')
    return {'k': 'view', 'dir': DIR_IDS[d], 'tag': v['tag'],
            'name': NAME_IDS.get(v.get('name', ''), 9) if d == 'view' else 0,
            'route': 3 if d == 'static' else ROUTE_IDS[v.get('route')],
            'cls': stmt_cls(v), 'isexc': stmt_is_exc(v),
            'exconly': bool(v.get('exception_only')) if d == 'view' else False,
            'perm': perm_json(v.get('perm')) if d in ('view', 'static') else None,
            'order': orders.get(str(v['tag']), orders.get(v['tag'], MAX_ORDER)),
            'preds': sorted(PRED_IDS[p] for p in v.get('preds', [])),
            'wrapper': NAME_IDS[v['wrapper']] if v.get('wrapper') else None,
            'act': ACT_IDS[v.get('act', 'ok')], 'deco': bool(v.get('decorator')) and v.get('dir') != 'static',
            'vdown': vd_json(v, 'own'), 'vdbase': vd_json(v, 'base')}


DEFAULT_EXC_VIEW = {'tag': 0, 'name': 0, 'route': 0, 'cls': 15, 'isexc': True, 'exconly': False, 'perm': None,
                    'order': MAX_ORDER, 'preds': [], 'wrapper': None, 'act': 0}


def model_case(case, impl):
    """the JSON line for drv_c05"""
    stmts = []
    for st in case['stmts']:
        k = st['k']
        if k == 'policy':
            stmts.append({'k': 'policy', 'legacy': st.get('how') in LEGACY_HOW})
        elif k == 'defperm':
            stmts.append({'k': 'defperm', 'perm': perm_json(st['perm'])})
        elif k == 'route':
            stmts.append({'k': 'other', 'phase': -10})
        elif k == 'deriver':
            stmts.append({'k': 'other', 'phase': -20})
        else:
            stmts.append(view_json(st, impl['orders']))
    req = dict(impl['req'])
    req['preds'] = sorted(PRED_IDS[p] for p in req.get('preds', []))
    ops, transparent = [], set()
    for st in case['stmts']:
        if st['k'] == 'deriver':
            ops.append({'name': st['name'], 'under': None if st.get('under') is None else [st['under']],
                        'over': None if st.get('over') is None else [st['over']]})
            if st.get('impl') != 'real':
                transparent.add(st['name'])
    chain = ['attr_wrapped_view', 'predicated_view'] + [('user:' + n if n in transparent else n) for n in impl['sorted']]
    return {'chain': chain, 'derivers': ops,
            'pre': [DEFAULT_EXC_VIEW], 'stmts': stmts, 'deny': [list(x) for x in case.get('deny', [])],
            'excsro': [[int(k), v] for k, v in sorted(impl['excsro'].items())],
            'req': req, 'probe': {'kind': case['probe']['kind'], 'secure': bool(case['probe'].get('secure', True))}}


def quiet_tags(case):
    return {0} | {st['tag'] for st in case['stmts'] if st['k'] == 'view' and st.get('dir') == 'static'}


def canon_impl(case, impl):
    out = impl['out']
    if out[0] == 'resp':
        out = ['resp', out[1]]
    return {'trace': impl['trace'], 'out': out, 'sorted': impl.get('sorted')}


def canon_model(case, rep):
    q = quiet_tags(case)
    tr = [e for e in rep['trace'] if not (e[0] == 'b' and e[1] in q)]
    return {'trace': tr, 'out': rep['out'], 'sorted': rep.get('sorted')}


# ---------------------------------------------------------------------------------------------------------
# the property, stated on the implementation's observable trace (independent of the Lean build)

CID_SRO = {1: [1, 0], 2: [2, 1, 0], 3: [1, 0], 4: [1, 0]}
EXC_SRO = {11: [11, 10, 0], 12: [12, 11, 10, 0], 13: [13, 15, 10, 0], 14: [14, 15, 10, 0], 16: [16, 14, 15, 10, 0], 17: [17, 10, 0]}


def has_policy(case):
    return any(st['k'] == 'policy' for st in case['stmts'])


def default_perm(case):
    for st in case['stmts']:
        if st['k'] == 'defperm':
            return st['perm']
    return None


def effective_perm(case, st, exc_variant):
    """the statement's 'effective permission' of a view statement (perm id or None)"""
    if not has_policy(case):
        return None
    d = st.get('dir', 'view')
    if d in ('forbidden', 'notfound', 'excview'):
        return None                      # no explicit permission can be given; they are exception views
    p = st.get('perm')
    if d == 'static' and p is None:
        p = 'NPR'                        # add_static_view hands add_view an explicit NO_PERMISSION_REQUIRED
    if p is None and st.get('kind') in CLASS_KINDS and st.get('vd'):
        # the class-level default of `@view_defaults`: the class's own one if it has one, else an inherited one
        vd = st['vd']
        cd = vd.get('own') if vd.get('own') is not None else vd.get('base')
        if cd is not None and cd != 'absent':
            p = cd
    if p is None and not exc_variant:
        p = default_perm(case)
    if p is None or p == 'NPR':
        return None
    return PERM_IDS.get(p, 9)


def variant_of(st, ctx):
    """which derived variant of the statement ran when its body saw context id `ctx`"""
    return ctx >= 100 and stmt_is_exc(st)


def view_stmts(case):
    return {st['tag']: st for st in case['stmts'] if st['k'] == 'view'}


def could_be_checked(case, st, c, p):
    """could the refusal / grant `permits(c, p)` belong to this view statement?"""
    if c >= 100:
        if stmt_is_exc(st):
            return effective_perm(case, st, True) == p and stmt_cls(st) in EXC_SRO.get(c - 100, [])
        return (not st.get('exception_only')) and effective_perm(case, st, False) == p and stmt_cls(st) == 0
    if st.get('dir', 'view') in ('forbidden', 'notfound', 'excview') or st.get('exception_only'):
        return False
    return effective_perm(case, st, False) == p and stmt_cls(st) in CID_SRO.get(c, [0])


def oracle(case, impl):
    """-> list of (detail, finding-or-None); empty = the implementation meets the property on this case"""
    probe = case['probe']
    tr, out = impl['trace'], impl['out']
    vs = view_stmts(case)
    bad = []
    deny = {(c, p) for c, p in case.get('deny', [])}
    pol = has_policy(case)
    secure = probe['kind'] != 'render' or probe.get('secure', True)
    marker = next((i for i, e in enumerate(tr) if e[0] == 'x'), None)
    for i, e in enumerate(tr):
        if e[0] == 'p':
            if not pol:
                bad.append(('policy consulted although none is configured: %r' % (e,), None))
            if e[3] != ((e[1], e[2]) not in deny):
                bad.append(('harness policy answered against its table: %r' % (e,), None))
            if not any(could_be_checked(case, st, e[1], e[2]) for st in vs.values()):
                bad.append(('policy asked about (context %d, permission %d) although no reachable view has that effective permission' % (e[1], e[2]), None))
    if probe['kind'] == 'vep':
        ps = [e for e in tr if e[0] == 'p']
        if out[0] == 'perm':
            if ps and out[1] != ps[-1][3]:
                bad.append(('view_execution_permitted returned %r but the policy answered %r' % (out[1], ps[-1][3]), None))
            if not ps and out[1] is not True:
                bad.append(('view_execution_permitted refused without asking the policy', None))
        return bad
    if not secure:
        return bad                       # secure=False is the documented bypass; nothing is demanded
    # did the application itself re-place the decorator layer (or something the documented chain hangs it below)?
    moved = set()
    for st in case['stmts']:
        if st['k'] == 'deriver' and st['name'] in MOVED_WITH:
            moved.add(st['name'])
            moved.update(MOVED_WITH[st['name']])
    for i, e in enumerate(tr):
        if e[0] in ('b', 'd') and e[1] in vs:
            st = vs[e[1]]
            p = effective_perm(case, st, variant_of(st, e[2]))
            if p is None:
                continue
            if e[0] == 'd' and 'decorated_view' in moved:
                continue
            ok = False
            for j in range(i - 1, -1, -1):
                f = tr[j]
                if f[0] == 'b' and f[1] == e[1]:
                    break
                if f[0] == 'p' and f[1] == e[2] and f[2] == p and f[3] is True:
                    ok = True
                    break
            if not ok or (e[2], p) in deny:
                bad.append(('%s of view %d ran in context %d although permits(context %d, permission %d) was not asked-and-granted before it'
                            % ('body' if e[0] == 'b' else 'user decorator code', e[1], e[2], e[2], p), None))
        if e[0] == 'p' and e[3] is False:
            # refusal: nothing of this phase may run afterwards, and the 403 handling takes over
            nxt = tr[i + 1] if i + 1 < len(tr) else None
            if probe['kind'] == 'router' and (marker is None or i < marker):
                if nxt != ['x', K_FORBIDDEN]:
                    bad.append(('after the refusal %r the main handler did not raise HTTPForbidden into the 403 handling (next event %r)' % (e, nxt), None))
            elif probe['kind'] == 'router':
                # refusal while the excview tween is already rendering an exception
                if nxt is not None:
                    bad.append(('after the refusal %r (exception phase) something still ran: %r' % (e, nxt), None))
                bad.append(('refusal %r raised while an exception was being rendered: HTTPForbidden leaves the router unrendered (%r), '
                            'no 403 handling runs' % (e, out), 'F-C05a'))
            else:
                if nxt is not None or out != ['raised', K_FORBIDDEN]:
                    bad.append(('render_view_to_response(secure=True): refusal %r not turned into HTTPForbidden (next %r, outcome %r)' % (e, nxt, out), None))
    # never blocked without a refusal
    def forbidden_source_ok(idx):
        if idx < 0:
            return False
        f = tr[idx]
        if f[0] == 'p' and f[3] is False:
            return True
        if f[0] == 'b' and f[1] in vs and vs[f[1]].get('act') == 'forbidden':
            return True
        return False
    for i, e in enumerate(tr):
        if e == ['x', K_FORBIDDEN] and not forbidden_source_ok(i - 1):
            bad.append(('HTTPForbidden was raised although no refusal preceded it (events %r)' % (tr[max(0, i - 2):i + 1],), None))
    # a propagating HTTPForbidden is either raised right now (refusal / a body raising it) or it is the main
    # phase's HTTPForbidden re-raised by `_error_handler` because no exception view rendered it
    if out == ['raised', K_FORBIDDEN] and not (tr and (forbidden_source_ok(len(tr) - 1) or ['x', K_FORBIDDEN] in tr)):
        bad.append(('HTTPForbidden propagated although no refusal preceded it', None))
    if out[0] == 'resp' and out[1] == 0 and len(out) > 2 and marker is not None:
        want = {K_FORBIDDEN: 403, K_NOTFOUND: 404, K_PM: 404}.get(tr[marker][1])
        if want is not None and out[2] != want:
            bad.append(('default exception view answered %d for exception kind %d' % (out[2], tr[marker][1]), None))
    return bad


# ---------------------------------------------------------------------------------------------------------
# generator

KINDS = ['func2', 'func1', 'class2', 'class1', 'class_attr', 'inst', 'inst_attr']
DENY_CTX = [1, 2, 3, 4, 111, 112, 113, 114, 116, 117]


def gen_config(rng, big=False):
    stmts = []
    if rng.random() < 0.82:
        stmts.append({'k': 'policy', 'how': rng.choice(['security', 'security', 'security', 'legacy', 'legacy', 'legacy', 'ctor', 'ctor']),
                      'style': rng.choice(['obj', 'obj', 'bool', 'int', 'none']), 'authz_first': rng.random() < 0.5})
    if rng.random() < 0.55:
        stmts.append({'k': 'defperm', 'perm': rng.choice(['p1', 'p1', 'p2', 'p2', 'NPR']), 'how': rng.choice(['set', 'set', 'ctor'])})
    routes = [r for r in ('r1', 'r2') if rng.random() < 0.4]
    for r in routes:
        stmts.append({'k': 'route', 'name': r})
    n = rng.randint(1, 7 if big else 5)
    seen = set()
    tag = 0
    have_wrappers = []
    for _ in range(n):
        r = rng.random()
        d = 'view' if r < 0.66 else 'forbidden' if r < 0.75 else 'notfound' if r < 0.83 else 'excview' if r < 0.93 else 'static'
        v = {'k': 'view', 'dir': d}
        if d == 'static':
            if ('static',) in seen:
                continue
            seen.add(('static',))
            tag += 1
            v['tag'] = tag
            v['perm'] = rng.choice([None, None, 'p1', 'p2', 'NPR'])
            stmts.append(v)
            continue
        v['kind'] = rng.choice(KINDS)
        v['act'] = rng.choice(['ok'] * 6 + ['E1', 'E2', 'forbidden', 'notfound'])
        if rng.random() < 0.2:
            v['renderer'] = rng.choice(['json', 'string'])
        if rng.random() < 0.25:
            v['decorator'] = True
        if rng.random() < 0.4:
            v['preds'] = sorted(rng.sample(['a', 'b', 'c'], rng.randint(1, 2)))
        if routes and rng.random() < 0.3:
            v['route'] = rng.choice(routes)
        if d == 'view':
            if rng.random() < 0.25:
                v['ctx'] = rng.choice(EXC_CTX)
                v['name'] = ''
                v['exception_only'] = rng.random() < 0.5
                if rng.random() < 0.8:
                    v['act'] = 'ok'
            else:
                v['ctx'] = rng.choice([None, None, 'CA', 'CB'])
                v['name'] = rng.choice(['', '', '', 'x', 'x', 'w1', 'w2'])
            v['perm'] = rng.choice([None, None, 'p1', 'p1', 'p2', 'NPR'])
        else:
            if d == 'excview':
                v['ctx'] = rng.choice(['Exception', 'E1', 'E2', 'HTTPForbidden', 'HTTPNotFound'])
            if rng.random() < 0.85:
                v['act'] = 'ok'
        if v['kind'] in CLASS_KINDS:
            # class views: `@view_defaults` on the class itself, on a base class, on both; registered imperatively or
            # through a `@view_config`-style decorator + `config.scan()` of a generated module
            if rng.random() < 0.5:
                levels = [None, 'absent', 'p1', 'p2', 'NPR'] if d == 'view' else [None, 'absent']
                vd = {'base': rng.choice(levels), 'own': rng.choice([None] + levels)}
                if vd['base'] is not None or vd['own'] is not None:
                    v['vd'] = vd
            if rng.random() < 0.4:
                v['via'] = 'scan'
        nm = v.get('name', '')
        if nm != 'w2' and rng.random() < 0.3:
            v['wrapper'] = rng.choice([w for w in ('w1', 'w2') if w != nm])
        if nm in ('w1', 'w2'):
            v.pop('route', None)          # wrapper targets are looked up without the route interface
            if rng.random() < 0.7:
                v['ctx'] = None
        key = (stmt_cls(v), nm if d == 'view' else '', v.get('route'), tuple(v.get('preds', [])))
        if key in seen:
            continue
        seen.add(key)
        tag += 1
        v['tag'] = tag
        stmts.append(v)
    r = rng.random()
    if r < 0.14:
        # the application REPLACES a built-in deriver by name (the real function re-added, or its own transparent one)
        name = rng.choice(['csrf_view', 'csrf_view', 'csrf_view', 'owrapped_view', 'http_cached_view', 'decorated_view', 'rendered_view', 'mapped_view'])
        under, over = rng.choice([('INGRESS', None), ('INGRESS', 'VIEW'), ('INGRESS', 'VIEW'), (None, None),
                                  ('INGRESS', rng.choice([b for b in BUILTIN_DERIVERS if b != name]))])
        impl = 'real' if name in ('rendered_view', 'mapped_view') or rng.random() < 0.5 else 'transparent'
        stmts.append({'k': 'deriver', 'name': name, 'impl': impl, 'under': under, 'over': over})
    elif r < 0.24:
        stmts.append({'k': 'deriver', 'name': 'u1', 'impl': 'transparent',
                      'under': rng.choice([None, 'INGRESS', 'secured_view', 'owrapped_view', 'decorated_view']),
                      'over': rng.choice([None, 'VIEW', 'rendered_view', 'mapped_view', 'secured_view', 'decorated_view'])})
    rng.shuffle(stmts)
    deny = [[c, p] for c in DENY_CTX for p in (1, 2) if rng.random() < 0.35]
    return {'stmts': stmts, 'deny': deny}


def gen_probe(rng, cfg):
    views = [st for st in cfg['stmts'] if st['k'] == 'view']
    routes = [st['name'] for st in cfg['stmts'] if st['k'] == 'route']
    r = rng.random()
    params = []
    target = rng.choice(views) if views and rng.random() < 0.8 else None
    if target is not None and rng.random() < 0.75:
        params = list(target.get('preds', []))
    else:
        params = sorted(rng.sample(['a', 'b', 'c'], rng.randint(0, 3)))
    if r < 0.76:
        if target is not None and target.get('dir') == 'static':
            return {'kind': 'router', 'path': '/static/f.txt', 'params': params}
        seg = ''
        if target is not None and target.get('dir', 'view') == 'view' and target.get('ctx') not in EXC_CTX:
            seg = {'CB': '/b', 'CA': rng.choice(['', '/a', '/b']), None: rng.choice(['', '/a', '/b'])}[target.get('ctx')]
            nm = target.get('name', '')
            prefix = '/' + target['route'] if target.get('route') else ''
        else:
            seg = rng.choice(['', '/a', '/b', '/b/a'])
            nm = rng.choice(['', '', 'x', 'w1', 'zz'])
            prefix = '/' + rng.choice(routes) if routes and rng.random() < 0.3 else ''
        path = prefix + seg + ('/' + nm if nm else '')
        return {'kind': 'router', 'path': path or '/', 'params': params}
    nm = target.get('name', '') if (target is not None and target.get('dir', 'view') == 'view') else rng.choice(['', 'x', 'w1'])
    ctx = rng.choice([1, 2, 3])
    if target is not None and target.get('ctx') == 'CB':
        ctx = 2
    if r < 0.92:
        return {'kind': 'render', 'ctx': ctx, 'name': nm, 'secure': rng.random() < 0.5, 'params': params}
    return {'kind': 'vep', 'ctx': ctx, 'name': nm, 'params': params}


def gen_cases(rng, n_configs, probes_per, big=False):
    for _ in range(n_configs):
        cfg = gen_config(rng, big)
        for _ in range(probes_per):
            yield {'stmts': cfg['stmts'], 'deny': cfg['deny'], 'probe': gen_probe(rng, cfg)}


def reorder_variants(rng, case, k):
    """the same statements in other written orders (the property says the order does not matter)"""
    out = []
    for _ in range(k):
        st = list(case['stmts'])
        rng.shuffle(st)
        out.append(dict(case, stmts=st))
    return out


# ---------------------------------------------------------------------------------------------------------
# evaluation of one case

def evaluate(case, module_name, model_reply=None):
    """-> dict(impl, mcase, violations)  (model comparison is done by the caller in batch)"""
    try:
        impl = run_impl(case, module_name)
    except Exception as e:
        return {'error': '%s: %s' % (type(e).__name__, e)}
    if impl.get('req') is None:
        return {'error': 'request never reached ContextFound'}
    if (impl['out'] == ['raised', K_OTHER] or ['x', K_OTHER] in impl['trace']) and any(st['k'] == 'deriver' for st in case['stmts']):
        # the application re-placed built-in derivers so that they no longer fit each other (e.g. rendered_view over
        # owrapped_view: the wrapper deriver gets the renderer's dict): an AttributeError of the application's own
        # making, outside the model
        return {'error': 'unmodelled: re-placed derivers break each other'}
    return {'impl': impl, 'mcase': model_case(case, impl), 'bad': oracle(case, impl)}


def nontrivial(case, impl):
    if not has_policy(case):
        return False
    if any(e[0] == 'p' for e in impl['trace']):
        return True
    vs = view_stmts(case)
    return any(e[0] == 'b' and e[1] in vs and effective_perm(case, vs[e[1]], variant_of(vs[e[1]], e[2])) is not None
               for e in impl['trace'])


MODULE_NAME = __name__


def _violation(case, impl, detail, finding):
    v = {'case': case, 'impl': canon_impl(case, impl) if impl else None, 'expected': 'see detail', 'detail': detail}
    if finding:
        v['finding'] = finding
    return v


def shrink_case(case, pred):
    """drop statements / denials / params while `pred(case)` stays true"""
    def ok(c):
        try:
            return bool(pred(c))
        except Exception:
            return False
    cur = case
    changed = True
    while changed:
        changed = False
        for i in range(len(cur['stmts'])):
            c = dict(cur, stmts=cur['stmts'][:i] + cur['stmts'][i + 1:])
            if ok(c):
                cur, changed = c, True
                break
        if changed:
            continue
        for i in range(len(cur.get('deny', []))):
            c = dict(cur, deny=cur['deny'][:i] + cur['deny'][i + 1:])
            if ok(c):
                cur, changed = c, True
                break
        if changed:
            continue
        for i, st in enumerate(cur['stmts']):
            for key in ('decorator', 'renderer', 'wrapper', 'preds', 'route', 'via', 'style', 'how', 'vd'):
                if key in st:
                    st2 = {k: v for k, v in st.items() if k != key}
                    c = dict(cur, stmts=cur['stmts'][:i] + [st2] + cur['stmts'][i + 1:])
                    if ok(c):
                        cur, changed = c, True
                        break
            if changed:
                break
    return cur


def run_stream(ctx, cases, stats, res, label):
    """evaluate cases on the implementation, batch them through the model, compare"""
    evs = []
    for case in cases:
        if ctx.time_left() < 60:
            res['notes'].append('time budget reached in stream %s' % label)
            break
        ev = evaluate(case, MODULE_NAME)
        if 'error' in ev:
            vfutil.bump(stats, 'config_error')
            stats.setdefault('config_error_samples', [])
            if len(stats['config_error_samples']) < 3:
                stats['config_error_samples'].append([ev['error'][:200], case])
            continue
        evs.append((case, ev))
    replies = None
    if ctx.driver_path and evs:
        replies = ctx.run_model([ev['mcase'] for _, ev in evs])
    for idx, (case, ev) in enumerate(evs):
        impl = ev['impl']
        res['evaluations'] += 1
        key = vfutil.canon(case)
        if nontrivial(case, impl) and key not in res['_seen']:
            res['_seen'].add(key)
            res['distinct_nontrivial'] += 1
        if len(res['samples']) < 8:
            res['samples'].append(case)
        # distribution
        vfutil.bump(stats, 'probe_' + case['probe']['kind'] + ('' if case['probe'].get('secure', True) else '_insecure'))
        vfutil.bump(stats, 'out_' + impl['out'][0] + ('_%s' % impl['out'][1] if impl['out'][0] == 'raised' else ''))
        vfutil.bump(stats, 'policy_' + next((st.get('how', 'security') for st in case['stmts'] if st['k'] == 'policy'), 'absent'))
        vfutil.bump(stats, 'defperm_' + str(default_perm(case)))
        vfutil.bump(stats, 'n_permits_%d' % min(4, sum(1 for e in impl['trace'] if e[0] == 'p')))
        vfutil.bump(stats, 'n_bodies_%d' % min(4, sum(1 for e in impl['trace'] if e[0] == 'b')))
        if any(e[0] == 'p' and e[3] is False for e in impl['trace']):
            vfutil.bump(stats, 'refusals')
        if any(e[0] == 'x' for e in impl['trace']):
            vfutil.bump(stats, 'exception_phase')
        for st in case['stmts']:
            if st['k'] == 'deriver':
                vfutil.bump(stats, 'deriver_' + ('replace_' + st['name'] if st['name'] in BUILTIN_DERIVERS else 'new'))
        if impl.get('sorted') != BUILTIN_DERIVERS:
            vfutil.bump(stats, 'chain_not_default')
        if any(e[0] == 'd' for e in impl['trace']):
            vfutil.bump(stats, 'decorator_ran')
        groups = {}
        for st in case['stmts']:
            if st['k'] == 'view' and st.get('dir') != 'static':
                gk = (stmt_cls(st), st.get('name', '') if st.get('dir', 'view') == 'view' else '', st.get('route'))
                groups.setdefault(gk, []).append(st['tag'])
        ran = {e[1] for e in impl['trace'] if e[0] == 'b'}
        if any(len(g) > 1 for g in groups.values()):
            vfutil.bump(stats, 'apps_with_multiview')
        if any(len(g) > 1 and ran & set(g) for g in groups.values()):
            vfutil.bump(stats, 'multiview_constituent_ran')
        written = [st['k'] for st in case['stmts']]
        if 'policy' in written and 'view' in written and written.index('view') < written.index('policy'):
            vfutil.bump(stats, 'view_written_before_policy')
        if 'defperm' in written and 'view' in written and written.index('view') < written.index('defperm'):
            vfutil.bump(stats, 'view_written_before_default_permission')
        for st in case['stmts']:
            if st['k'] == 'view':
                vfutil.bump(stats, 'dir_' + st.get('dir', 'view'))
                if st.get('dir', 'view') == 'view':
                    vfutil.bump(stats, 'perm_' + str(st.get('perm')))
                    vfutil.bump(stats, 'kind_' + st.get('kind', 'func2'))
                if st.get('vd'):
                    vfutil.bump(stats, 'vd_base_%s_own_%s' % (st['vd'].get('base'), st['vd'].get('own')))
                if st.get('via') == 'scan':
                    vfutil.bump(stats, 'via_scan')
                for f in ('wrapper', 'decorator', 'renderer', 'preds', 'route', 'exception_only'):
                    if st.get(f):
                        vfutil.bump(stats, 'with_' + f)
        for detail, finding in ev['bad']:
            res['violations'].append(_violation(case, impl, detail, finding))
        if replies is not None:
            rep = replies[idx]
            if 'error' in rep:
                res['mismatches'].append({'case': case, 'impl': canon_impl(case, impl), 'model': rep})
                continue
            ci, cm = canon_impl(case, impl), canon_model(case, rep)
            if ci == cm:
                res['agreeing'] += 1
            else:
                res['mismatches'].append({'case': case, 'impl': ci, 'model': cm})


def _finish(ctx, res, stats):
    res.pop('_seen', None)
    # shrink what will be reported
    def still_bad(finding):
        def pred(c):
            impl = run_impl(c, MODULE_NAME)
            return any(f == finding for _, f in oracle(c, impl))
        return pred
    out, seen_f = [], {}
    for v in res['violations']:
        f = v.get('finding')
        if f in seen_f and seen_f[f] >= 3:
            continue
        seen_f[f] = seen_f.get(f, 0) + 1
        if seen_f[f] == 1:
            small = shrink_case(v['case'], still_bad(f))
            impl = run_impl(small, MODULE_NAME)
            details = [d for d, ff in oracle(small, impl) if ff == f]
            v = _violation(small, impl, details[0] if details else v['detail'], f)
        out.append(v)
    res['violations'] = out
    if res['mismatches']:
        m = res['mismatches'][0]

        def differs(c):
            impl = run_impl(c, MODULE_NAME)
            rep = ctx.run_model([model_case(c, impl)])[0]
            return 'error' in rep or canon_impl(c, impl) != canon_model(c, rep)
        try:
            small = shrink_case(m['case'], differs)
            impl = run_impl(small, MODULE_NAME)
            rep = ctx.run_model([model_case(small, impl)])[0]
            res['mismatches'][0] = {'case': small, 'impl': canon_impl(small, impl), 'model': canon_model(small, rep) if 'error' not in rep else rep}
        except Exception:
            pass
        res['mismatches'] = res['mismatches'][:10]
    res['distribution'] = stats
    cleanup_static()
    return res


def _new_res():
    return {'evaluations': 0, 'distinct_nontrivial': 0, 'rule': RULE, 'samples': [], 'agreeing': 0, 'mismatches': [],
            'violations': [], 'distribution': {}, 'notes': [], '_seen': set(),
            'assumptions': ['statements of one commit scope with autocommit=False (an intermediate commit is a documented ordering barrier)',
                            'no user view deriver is placed over secured_view',
                            'debug_authorization is off (the authdebug wrapper asks the policy a second time, for logging only)',
                            'the policy answers as a function of (context, permission)'],
            'trusted_base': ['extract/c05.py + extract/c05_probe.py (behavioural tables probed on the tree under test: deriver wrapping order, secured_view, '
                             '_call_view, MultiView, excview tween, action phases, special directives; ast call-site table)',
                             'resolution orders (zope.interface C3), predicate `order` and route matching / traversal are inputs (C01-C03)',
                             'DefaultViewMapper, decorators, renderers, csrf_view, http_cached_view are transparent for the event trace '
                             '(tied by the correspondence only)']}


def run(ctx):
    res = _new_res()
    stats = {}
    corpus = [c for _, c in ctx.corpus()]
    run_stream(ctx, corpus, stats, res, 'corpus')
    # always: the same permission name checked on two contexts in one request, for every policy flavour (cheap)
    run_stream(ctx, list(same_permission_cube()), stats, res, 'same-permission')
    if ctx.tier == 'thorough':
        # small-scope exhaustive part: every option combination of one view (see small_scope_cases)
        scope = list(small_scope_cases()) + list(view_defaults_cube()) + list(replacement_cube())
        for i in range(0, len(scope), 500):
            run_stream(ctx, scope[i:i + 500], stats, res, 'small-scope')
        res['exhaustive'] = True
        res['notes'].append('small-scope enumeration: %d cases (policy x default permission x permission x grant/refuse x 3 callable '
                            'kinds x {plain, wrapper, exception view, dual, forbidden/notfound, multiview, static, route}) + the view_defaults cube (base x own x '
                            'explicit x add_view/scan x default permission x grant/refuse)' % len(scope))
    n_cfg = ctx.n(700, 9000)
    cases = []
    for case in gen_cases(ctx.rng, n_cfg, 3, big=(ctx.tier == 'thorough')):
        cases.append(case)
        if ctx.rng.random() < 0.15:
            cases += reorder_variants(ctx.rng, case, 1)
    # in chunks so that the model batch stays small and the time budget is honoured
    for i in range(0, len(cases), 500):
        run_stream(ctx, cases[i:i + 500], stats, res, 'random')
        if ctx.time_left() < 90:
            break
    return _finish(ctx, res, stats)


def small_scope_cases():
    """all option combinations of ONE view (x the policy / default-permission cube x grant/refuse), reached by
    the router, plus the same with a protected wrapper view, an exception view and a forbidden view"""
    perms = [None, 'p1', 'NPR']
    for pol, dflt, perm, refuse, kind, extra in itertools.product(
            [False, True], [None, 'p1', 'p2', 'NPR'], perms, [False, True],
            ['func2', 'class1', 'inst_attr'], ['plain', 'wrapper', 'excview', 'dual', 'forbidden', 'multi', 'static', 'route']):
        stmts = []
        v = {'k': 'view', 'dir': 'view', 'tag': 1, 'name': '', 'ctx': None, 'perm': perm, 'kind': kind, 'act': 'ok'}
        path = '/'
        params = []
        if extra == 'wrapper':
            v['wrapper'] = 'w1'
            stmts.append({'k': 'view', 'dir': 'view', 'tag': 2, 'name': 'w1', 'ctx': None, 'perm': 'p2', 'kind': 'func1'})
        elif extra == 'excview':
            v['act'] = 'E2'
            stmts.append({'k': 'view', 'dir': 'view', 'tag': 2, 'name': '', 'ctx': 'E1', 'exception_only': True, 'perm': perm, 'kind': 'func2'})
            stmts.append({'k': 'view', 'dir': 'excview', 'tag': 3, 'ctx': 'Exception', 'kind': 'func1', 'preds': ['a']})
        elif extra == 'dual':
            v['act'] = 'E1'
            v['perm'] = None
            stmts.append({'k': 'view', 'dir': 'view', 'tag': 2, 'name': '', 'ctx': 'E1', 'perm': perm, 'kind': kind})
        elif extra == 'forbidden':
            stmts.append({'k': 'view', 'dir': 'forbidden', 'tag': 2, 'kind': 'class2'})
            stmts.append({'k': 'view', 'dir': 'notfound', 'tag': 3, 'kind': 'func1'})
        elif extra == 'multi':
            v['preds'] = ['a']
            stmts.append({'k': 'view', 'dir': 'view', 'tag': 2, 'name': '', 'ctx': None, 'perm': 'p2', 'kind': 'func2', 'preds': ['b']})
            stmts.append({'k': 'view', 'dir': 'view', 'tag': 3, 'name': '', 'ctx': 'CA', 'perm': None, 'kind': 'func2', 'preds': ['a', 'c']})
            params = ['a']
        elif extra == 'static':
            stmts.append({'k': 'view', 'dir': 'static', 'tag': 2, 'perm': perm})
            path = '/static/f.txt'
        elif extra == 'route':
            stmts.append({'k': 'route', 'name': 'r1'})
            v['route'] = 'r1'
            path = '/r1/b'
        stmts.append(v)
        if dflt is not None:
            stmts.append({'k': 'defperm', 'perm': dflt})
        if pol:
            stmts.append({'k': 'policy', 'how': 'security'})
        deny = [[c, p] for c in DENY_CTX for p in (1, 2)] if refuse else []
        yield {'stmts': stmts, 'deny': deny, 'probe': {'kind': 'router', 'path': path, 'params': params}}
        if extra in ('plain', 'multi', 'wrapper'):
            yield {'stmts': list(reversed(stmts)), 'deny': deny, 'probe': {'kind': 'render', 'ctx': 1, 'name': '', 'secure': True, 'params': params}}
            yield {'stmts': stmts, 'deny': deny, 'probe': {'kind': 'vep', 'ctx': 2, 'name': '', 'params': params}}


def view_defaults_cube():
    """base class x the class itself {undecorated, decorated without permission, p1, p2, marker} x explicit argument
    {absent, p2, marker} x {add_view, scan} x 3 class kinds (rotating) x default permission {unset, p1} x policy
    grant-all / refuse-all"""
    levels = [None, 'absent', 'p1', 'p2', 'NPR']
    i = 0
    for base, own, perm, via, dflt, refuse in itertools.product(levels, levels, [None, 'p2', 'NPR'], ['add_view', 'scan'],
                                                                 [None, 'p1'], [False, True]):
        if base is None and own is None:
            continue
        i += 1
        v = {'k': 'view', 'dir': 'view', 'tag': 1, 'name': '', 'ctx': None, 'perm': perm, 'kind': CLASS_KINDS[i % 3], 'act': 'ok',
             'vd': {'base': base, 'own': own}, 'via': via}
        stmts = [v]
        if dflt:
            stmts.append({'k': 'defperm', 'perm': dflt})
        stmts.append({'k': 'policy', 'how': 'security'})
        deny = [[c, p] for c in DENY_CTX for p in (1, 2)] if refuse else []
        yield {'stmts': stmts, 'deny': deny, 'probe': {'kind': 'router', 'path': '/', 'params': []}}


def replacement_cube():
    """every built-in deriver (but secured_view) re-placed with each enumerated placement x {real, transparent} x a
    protected view with decorator + wrapper + renderer x grant / refuse"""
    for name in BUILTIN_DERIVERS[1:]:
        places = [('INGRESS', None), (None, None), ('INGRESS', 'VIEW')] + [('INGRESS', m) for m in BUILTIN_DERIVERS if m != name]
        for (under, over), impl, refuse in itertools.product(places, ['real', 'transparent'], [False, True]):
            if impl == 'transparent' and name in ('rendered_view', 'mapped_view'):
                continue
            stmts = [{'k': 'deriver', 'name': name, 'impl': impl, 'under': under, 'over': over},
                     {'k': 'view', 'dir': 'view', 'tag': 1, 'name': '', 'ctx': None, 'perm': 'p1', 'kind': 'class2', 'act': 'ok',
                      'decorator': True, 'wrapper': 'w1', 'renderer': 'json'},
                     {'k': 'view', 'dir': 'view', 'tag': 2, 'name': 'w1', 'ctx': None, 'perm': None, 'kind': 'func1', 'decorator': True},
                     {'k': 'policy', 'how': 'security'}]
            deny = [[c, p] for c in DENY_CTX for p in (1, 2)] if refuse else []
            yield {'stmts': stmts, 'deny': deny, 'probe': {'kind': 'router', 'path': '/', 'params': []}}


def same_permission_cube():
    """one request in which the SAME permission name is checked on two different contexts, the decision table answering
    differently for the two; for every policy flavour (new-style, constructor argument, the legacy authentication +
    authorization pair in both statement orders) x answer style x permission:
      (a) the ordinary view is granted and raises E1; the exception view for E1 carries the same explicit permission
          (exception_only or dual) and is refused on the exception;
      (b) the ordinary view is refused; a view registered for HTTPForbidden with the same explicit permission is granted
          on the HTTPForbidden context (a protected forbidden view);
      (c) as (a) with the exception view granted and the ordinary view's wrapper view (same permission) refused"""
    flavours = [{'how': 'security'}, {'how': 'ctor'}, {'how': 'legacy', 'authz_first': True}, {'how': 'legacy', 'authz_first': False}]
    for fl, style, perm, exc_only in itertools.product(flavours, ['obj', 'bool'], ['p1', 'p2'], [True, False]):
        pid = PERM_IDS[perm]
        pol = dict({'k': 'policy', 'style': style}, **fl)
        v1 = {'k': 'view', 'dir': 'view', 'tag': 1, 'name': '', 'ctx': None, 'perm': perm, 'kind': 'func2', 'act': 'E1'}
        ev = {'k': 'view', 'dir': 'view', 'tag': 2, 'name': '', 'ctx': 'E1', 'perm': perm, 'kind': 'func1', 'exception_only': exc_only}
        yield {'stmts': [v1, ev, pol], 'deny': [[111, pid]], 'probe': {'kind': 'router', 'path': '/', 'params': []}}
        yield {'stmts': [pol, ev, v1], 'deny': [[1, pid]], 'probe': {'kind': 'router', 'path': '/', 'params': []}}
        v3 = {'k': 'view', 'dir': 'view', 'tag': 1, 'name': '', 'ctx': None, 'perm': perm, 'kind': 'class2', 'act': 'ok'}
        fv = {'k': 'view', 'dir': 'view', 'tag': 2, 'name': '', 'ctx': 'HTTPForbidden', 'perm': perm, 'kind': 'func2', 'exception_only': exc_only}
        yield {'stmts': [fv, pol, v3], 'deny': [[1, pid]], 'probe': {'kind': 'router', 'path': '/', 'params': []}}
        yield {'stmts': [fv, pol, v3], 'deny': [[113, pid]], 'probe': {'kind': 'router', 'path': '/', 'params': []}}
        if exc_only:
            vb = dict(v3, ctx='CB', name='x')
            va = dict(v3, tag=3, ctx='CA', name='x', preds=['a'])
            yield {'stmts': [vb, va, pol], 'deny': [[3, pid]], 'probe': {'kind': 'render', 'ctx': 2, 'name': 'x', 'secure': True, 'params': []}}


def search(ctx):
    """after a break: evaluate the property oracle on the implementation only (corpus, the small-scope
    enumeration, then a random stream at thorough volume)"""
    res = _new_res()
    stats = {}
    saved, ctx_driver = ctx.driver_path, None
    viol, searched = [], 0

    def scan(cases):
        nonlocal searched
        for case in cases:
            if ctx.time_left() < 45 or len(viol) >= 40:
                return
            ev = evaluate(case, MODULE_NAME)
            searched += 1
            if 'error' in ev:
                continue
            for detail, finding in ev['bad']:
                viol.append(_violation(case, ev['impl'], detail, finding))
    scan([c for _, c in ctx.corpus()])
    scan(small_scope_cases())
    scan(view_defaults_cube())
    scan(replacement_cube())
    scan(same_permission_cube())
    exhaustive = ctx.time_left() >= 45
    if not [v for v in viol if not v.get('finding')]:
        scan(gen_cases(ctx.rng, ctx.n(1500, 6000), 3, big=True))
    res['violations'] = viol
    res['mismatches'] = []
    out = _finish(ctx, res, stats)
    return {'violations': out['violations'], 'searched': searched, 'exhaustive': exhaustive,
            'scope': 'corpus + every option combination of one view (policy x default permission x permission x grant/refuse '
                     'x 3 callable kinds x {plain, wrapper, exception view, dual, forbidden/notfound, multiview, static, route}) '
                     '+ random stream'}


def replay(ctx, rep):
    case = rep['case']
    impl = run_impl(case, MODULE_NAME)
    bad = oracle(case, impl)
    out = {'case': case, 'impl': canon_impl(case, impl), 'impl_outcome_full': impl['out'],
           'oracle': [{'detail': d, 'finding': f} for d, f in bad]}
    if ctx.driver_path:
        try:
            repl = ctx.run_model([model_case(case, impl)])[0]
            out['model'] = canon_model(case, repl) if 'error' not in repl else repl
            out['model_guards'] = repl.get('guards')
            out['agree'] = ('error' not in repl) and out['model'] == out['impl']
        except Exception as e:
            out['model_error'] = str(e)
    known = {f for _, f in bad if f}
    out['known_findings'] = sorted(known)
    out['violates'] = bool(bad)
    cleanup_static()
    return out
