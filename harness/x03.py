"""X03 — built-in renderers and the rendering pipeline: correspondence + property oracle + search + replay.

Stored case kinds (all texts are Python strings; VAL is None/bool/int/str, {"a":[VAL…],"tup":bool},
{"o":[[key,VAL]…]} (distinct keys), {"c":{"cls":NAME,"also":IFACE|None,"p":VAL}} = an instance of a harness class):

  {"k":"cb","cb":TEXT,"via":"renderer"|"router"}          the JSONP renderer asked with ?callback=TEXT
  {"k":"dumps","v":VAL,"regs":[[SPECNAME,adapter]…]}        the JSON renderer without a request
  {"k":"view","app":{"regs":[…],"param":TEXT},"renderer":R|None,"override":R|None,"params":[[k,v]…],
        "setCt":TEXT|None,"setStatus":int,"result":RESULT,"mode":"router"|"render"|"rtr"|"rtr_resp"}
     RESULT = {"t":"value","v":VAL} | {"t":"bytes","b":[ints]} |
              {"t":"response","how":"exact"|"subclass"|"adapted"|"httpexc","status":int,"ct":TEXT,"body":TEXT}

`router` goes through a real Configurator + Router (`webob.Request.blank(url).get_response(app)`); `render`, `rtr`,
`rtr_resp` call `pyramid.renderers.render` / `render_to_response` (without / with `response=`).

What is compared with the model (driver `drv_x03`): accepted-or-400, status, content type, body (text / bytes / never
assigned), whether `override_renderer` is still on the request; which error leaves the router (TypeError / ValueError).
What the Python oracle states by itself (no Lean involved): see `oracle_*` below.
"""
import json, sys, urllib.parse, itertools

from zope.interface import Interface, implementer, providedBy, implementedBy, alsoProvides

from pyramid.config import Configurator
from pyramid.events import BeforeRender, NewRequest
from pyramid.httpexceptions import HTTPBadRequest, HTTPAccepted
from pyramid.request import Request
from pyramid.response import Response
from pyramid import renderers as R

import vfutil

RULE = ('a case is counted as non-trivial when it is distinct (canonical JSON) and: cb — the text has >= 3 characters; '
        'dumps — the value nests (list/dict/object inside list/dict/object) or holds an object; view — the result is not a '
        'plain Response with the default settings, i.e. something is rendered, overridden, adapted, refused or raises')

# ------------------------------------------------------------------------------------------------ the little universe


class I1(Interface):
    pass


class I2(I1):
    pass


class A:
    def __init__(self, payload=None):
        self.payload = payload


class B(A):
    pass


class C(B):
    pass


@implementer(I1)
class D(A):
    pass


class E(C, D):
    pass


@implementer(I2)
class F:
    def __init__(self, payload=None):
        self.payload = payload


class G(F):
    pass


class AJ(A):
    def __json__(self, request):
        return ['__json__', self.payload]


class EJ(E):
    def __json__(self, request):
        return ['__json__', self.payload]


CLASSES = {c.__name__: c for c in (A, B, C, D, E, F, G, AJ, EJ)}
IFACES = {'I1': I1, 'I2': I2}
SPECS = dict(CLASSES, I1=I1, I2=I2, object=object, bytes=bytes)
SPEC_NAMES = sorted(SPECS)

_sid = {}


def spec_key(x):
    return implementedBy(x) if isinstance(x, type) else x


def sid(spec):
    if spec not in _sid:
        _sid[spec] = len(_sid)
    return _sid[spec]


def sro_ids(obj):
    return [sid(s) for s in providedBy(obj).__sro__]


class Wrapped:
    """a view result that is not a response but has a registered response adapter"""

    def __init__(self, resp):
        self.resp = resp


class SubResponse(Response):
    pass


def make_adapter(a):
    return lambda obj, request: [a, getattr(obj, 'payload', None)]


def raw_factory(info):
    return lambda value, system: value


# ------------------------------------------------------------------------------------------------ values

def mat(v):
    """stored VAL -> Python object"""
    if v is None or isinstance(v, (bool, int, str)):
        return v
    if 'a' in v:
        xs = [mat(x) for x in v['a']]
        return tuple(xs) if v.get('tup') else xs
    if 'o' in v:
        return {k: mat(x) for k, x in v['o']}
    c = v['c']
    obj = CLASSES[c['cls']](mat(c['p']))
    if c.get('also'):
        alsoProvides(obj, IFACES[c['also']])
    return obj


def wf_val(v):
    if v is None or isinstance(v, (bool, int, str)):
        return True
    if not isinstance(v, dict):
        return False
    if 'a' in v:
        return isinstance(v['a'], list) and all(wf_val(x) for x in v['a'])
    if 'o' in v:
        ks = [m[0] for m in v['o'] if isinstance(m, list) and len(m) == 2 and isinstance(m[0], str)]
        return len(ks) == len(v['o']) and len(set(ks)) == len(ks) and all(wf_val(m[1]) for m in v['o'])
    if 'c' in v:
        c = v['c']
        return isinstance(c, dict) and c.get('cls') in CLASSES and c.get('also') in (None, 'I1', 'I2') and 'p' in c and wf_val(c['p'])
    return False


def codes(s):
    return [ord(ch) for ch in s]


def to_model_val(v):
    if v is None or isinstance(v, bool):
        return v
    if isinstance(v, int):
        return v
    if isinstance(v, str):
        return {'s': codes(v)}
    if 'a' in v:
        return {'a': [to_model_val(x) for x in v['a']]}
    if 'o' in v:
        return {'o': [[codes(k), to_model_val(x)] for k, x in v['o']]}
    c = v['c']
    obj = mat({'c': dict(c, p=None)})
    return {'c': {'sro': sro_ids(obj), 'json': hasattr(obj, '__json__'), 'p': to_model_val(c['p'])}}


def to_model_regs(regs):
    return [[sid(spec_key(SPECS[n])), a] for n, a in regs]


class Unserializable(Exception):
    pass


def nearest(obj, regs):
    """the property's reading of adapter dispatch: walk the resolution order, first specification with an adapter"""
    table = {}
    for n, a in regs:
        table[spec_key(SPECS[n])] = a
    for spec in providedBy(obj).__sro__:
        if spec in table:
            return table[spec]
    return None


def expected_plain(v, regs):
    """the JSON-normal value the renderer has to encode (oracle side; raises Unserializable)"""
    if v is None or isinstance(v, (bool, int, str)):
        return v
    if 'a' in v:
        return [expected_plain(x, regs) for x in v['a']]
    if 'o' in v:
        return {k: expected_plain(x, regs) for k, x in v['o']}
    c = v['c']
    obj = mat({'c': dict(c, p=None)})
    if hasattr(obj, '__json__'):
        return ['__json__', expected_plain(c['p'], regs)]
    a = nearest(obj, regs)
    if a is None:
        raise Unserializable()
    return [a, expected_plain(c['p'], regs)]


def nests(v, depth=0):
    if isinstance(v, dict):
        if 'c' in v:
            return True
        kids = v['a'] if 'a' in v else [m[1] for m in v['o']]
        return depth >= 1 or any(nests(k, depth + 1) for k in kids)
    return False


# ------------------------------------------------------------------------------------------------ callback grammar (oracle)

LETTER_EXTRA = {0x130, 0x131, 0x17f, 0x212a}


def letter(c):
    o = ord(c)
    return 97 <= o <= 122 or 65 <= o <= 90 or o in LETTER_EXTRA


def safe_head(c):
    return letter(c) or c in '$_'


def safe_mid(c):
    return safe_head(c) or c in '0123456789.[]'


def safe_last(c):
    return safe_head(c) or c in '0123456789]'


def as_built(cb):
    """the grammar the check implements (Lean: CbGrammar; since fix a7b5ff8 the last character is constrained, no LF)"""
    return len(cb) >= 3 and safe_head(cb[0]) and all(safe_mid(c) for c in cb[1:-1]) and safe_last(cb[-1])


def all_safe(cb):
    """what the property wants of an emitted callback (Lean: AllSafe + safeHead of the first character)"""
    return len(cb) > 0 and safe_head(cb[0]) and all(safe_mid(c) for c in cb)


# ------------------------------------------------------------------------------------------------ applications

CUR = {}
_apps = {}
RENDERERS = ['json', 'jsonp', 'string', 'raw']


def the_view(request):
    case = CUR['case']
    CUR['request'] = request
    if case.get('setCt') is not None:
        request.response.content_type = case['setCt']
    if case.get('setStatus', 200) != 200:
        request.response.status_int = case['setStatus']
    CUR['returned'] = res = make_result(case['result'])
    return res


def on_new_request(event):
    case = CUR.get('case')
    if case and case.get('override'):
        event.request.override_renderer = case['override']


def on_before_render(event):
    CUR.setdefault('before', []).append({
        'keys': sorted(event.keys()),
        'name': event.get('renderer_name'),
        'val_is_result': event.rendering_val is CUR.get('returned', object()),
        'request_ok': event.get('request') is event.get('req') and (CUR.get('request') is None or event.get('request') is CUR.get('request')),
    })


def make_result(r):
    t = r['t']
    if t == 'value':
        return mat(r['v'])
    if t == 'bytes':
        return bytes(r['b'])
    how = r['how']
    if how == 'httpexc':
        return HTTPAccepted(r['body'])
    cls = SubResponse if how == 'subclass' else Response
    resp = cls(body=r['body'].encode('utf-8'), status=r['status'], content_type=r['ct'], charset='UTF-8' if r['ct'].startswith('text/') else None)
    resp.headers['X-Marker'] = 'kept'
    return Wrapped(resp) if how == 'adapted' else resp


def get_app(appcfg):
    key = json.dumps(appcfg, sort_keys=True)
    if key in _apps:
        return _apps[key]
    config = Configurator()
    j, jp = R.JSON(), R.JSONP(param_name=appcfg['param'])
    for n, a in appcfg['regs']:
        j.add_adapter(SPECS[n], make_adapter(a))
        jp.add_adapter(SPECS[n], make_adapter(a))
    config.add_renderer('json', j)
    config.add_renderer('jsonp', jp)
    config.add_renderer('raw', raw_factory)
    for rn in RENDERERS + [None]:
        name = 'r_%s' % rn
        config.add_route(name, '/' + name)
        config.add_view(the_view, route_name=name, renderer=rn)
    config.add_subscriber(on_new_request, NewRequest)
    config.add_subscriber(on_before_render, BeforeRender)
    config.add_response_adapter(lambda w: w.resp, Wrapped)
    app = config.make_wsgi_app()
    if len(_apps) > 400:
        _apps.clear()
    _apps[key] = app
    return app


DEFAULT_CT = Response.default_content_type


def query(params):
    return urllib.parse.urlencode([(k, v) for k, v in params], encoding='utf-8', errors='strict')


def classify_exc(e):
    if isinstance(e, HTTPBadRequest):
        return 'badRequest'
    if isinstance(e, TypeError) and 'is not JSON serializable' in str(e):
        return 'typeError'
    if isinstance(e, ValueError):
        return 'valueError'
    return 'other:' + type(e).__name__


def observe_resp(resp):
    try:
        body = resp.body
    except Exception as e:        # e.g. an app_iter of str: not a servable response
        return {'status': resp.status_int, 'ct': resp.content_type, 'body': None, 'text': None, 'marker': resp.headers.get('X-Marker'),
                'body_error': type(e).__name__}
    try:
        text = body.decode('utf-8')
    except UnicodeDecodeError:
        text = None
    except AttributeError:        # response.body holds something that is not bytes
        body, text = repr(body).encode(), None
    return {'status': resp.status_int, 'ct': resp.content_type, 'body': body, 'text': text, 'marker': resp.headers.get('X-Marker')}


def impl_view(case):
    """run one view/api case on the real code -> canonical observation"""
    app = get_app(case['app'])
    CUR.clear()
    CUR['case'] = case
    url = '/r_%s?%s' % (case['renderer'], query(case['params']))
    mode = case.get('mode', 'router')
    out = {}
    if mode == 'router':
        try:
            resp = Request.blank(url).get_response(app)
        except Exception as e:           # propagates out of the router
            out['err'] = classify_exc(e)
        else:
            o = observe_resp(resp)
            if o['status'] == 400 and o['text'] and 'Invalid JSONP callback function name.' in o['text'] and 'returned' in CUR \
                    and not isinstance(CUR['returned'], (Response, Wrapped)):
                out['err'] = 'badRequest'
            else:
                out['ok'] = o
        req = CUR.get('request')
        out['left'] = bool(req is not None and 'override_renderer' in req.__dict__)
        out['before'] = CUR.get('before', [])
        return out
    # API modes: no view, no override; `setCt`/`setStatus` describe the response handed in (rtr_resp) or sitting on the request
    req = Request.blank(url)
    req.registry = app.registry
    pre = req.response
    if case.get('setCt') is not None:
        pre.content_type = case['setCt']
    pre.status_int = case.get('setStatus', 200)
    pre_ct = pre.content_type
    value = make_result(case['result'])
    CUR['returned'] = value
    try:
        if mode == 'render':
            s = R.render(case['renderer'], value, request=req)
            out['rendered'] = s
        elif mode == 'rtr':
            out['ok'] = observe_resp(R.render_to_response(case['renderer'], value, request=req))
        else:
            passed = Response()
            if case.get('setCt') is not None:
                passed.content_type = case['setCt']
            passed.status_int = case.get('setStatus', 200)
            got = R.render_to_response(case['renderer'], value, request=req, response=passed)
            out['ok'] = observe_resp(got)
            out['same_response'] = got is passed
    except Exception as e:
        out['err'] = classify_exc(e)
    out['restored'] = req.__dict__.get('response') is pre and pre.content_type == pre_ct
    out['before'] = CUR.get('before', [])
    out['left'] = False
    return out


def model_view_case(case):
    mode = case.get('mode', 'router')
    r = case['result']
    if r['t'] == 'value':
        res = {'t': 'value', 'v': to_model_val(r['v'])}
    elif r['t'] == 'bytes':
        res = {'t': 'bytes', 'b': r['b'], 'sro': sro_ids(bytes(r['b']))}
    else:
        st, ct, body = (202, 'text/plain', None) if r['how'] == 'httpexc' else (r['status'], r['ct'], r['body'])
        res = {'t': 'response' if r['how'] == 'exact' else 'iresponse', 'status': st, 'ct': codes(ct), 'body': codes(body or '')}
    if mode in ('router', 'rtr_resp'):
        cur = case['setCt'] if case.get('setCt') is not None else DEFAULT_CT
        status = case.get('setStatus', 200)
    else:                       # render / rtr: `request.response` is hidden, the renderer sees a fresh one
        cur, status = DEFAULT_CT, 200
    return {'k': 'view', 'renderer': case['renderer'], 'override': case.get('override') if mode == 'router' else None,
            'param': codes(case['app']['param']), 'regs': to_model_regs(case['app']['regs']),
            'params': [[codes(k), codes(v)] for k, v in case['params']],
            'respCt': codes(cur), 'dflt': codes(DEFAULT_CT), 'status': status, 'result': res}


def wf_view(case):
    try:
        r = case['result']
        if case.get('mode', 'router') not in ('router', 'render', 'rtr', 'rtr_resp'):
            return False
        if case['renderer'] not in RENDERERS + [None] or case.get('override') not in RENDERERS + [None, 'missing']:
            return False
        if case.get('mode', 'router') != 'router' and (case['renderer'] is None or case.get('override') or r['t'] == 'response'):
            return False
        if not isinstance(case['app']['param'], str) or not case['app']['param']:
            return False
        if not all(n in SPECS and isinstance(a, int) and a >= 0 for n, a in case['app']['regs']):
            return False
        if not all(isinstance(k, str) and isinstance(v, str) for k, v in case['params']):
            return False
        if case.get('setCt') not in CTS + [None] or case.get('setStatus', 200) not in STATUSES:
            return False
        if r['t'] == 'value':
            if not wf_val(r['v']):
                return False
        elif r['t'] == 'bytes':
            if not all(isinstance(b, int) and 0 <= b < 256 for b in r['b']):
                return False
        elif r['t'] != 'response':
            return False
        else:
            if r['how'] not in ('exact', 'subclass', 'adapted', 'httpexc') or r['ct'] not in CTS or r['status'] not in STATUSES:
                return False
        eff = case.get('override') or case['renderer']
        # outside the modelled fragment: Python repr through the string renderer, non-str/None through the raw renderer
        if r['t'] != 'response' and eff == 'string' and not (r['t'] == 'value' and (r['v'] is None or isinstance(r['v'], (bool, int, str)))):
            return False
        if r['t'] != 'response' and eff == 'raw' and not (r['t'] == 'bytes' or r['v'] is None or (isinstance(r['v'], str))):
            return False
        return True
    except Exception:
        return False


# ------------------------------------------------------------------------------------------------ oracles (property side)

def _jsonp_expect(case, js):
    """(kind, body, content type the renderer wants)"""
    cb = None
    for k, v in case['params']:
        if k == case['app']['param']:
            cb = v
    if cb is None:
        return 'plain', js, 'application/json', None
    return 'cb', '/**/' + cb + '(' + js + ');', 'application/javascript', cb


def oracle_view(case, imp):
    """the property, stated on the observation alone; returns a list of (detail, finding|None)"""
    bad = []
    r = case['result']
    mode = case.get('mode', 'router')
    eff = (case.get('override') if mode == 'router' else None) or case['renderer']
    if r['t'] == 'response':
        # (3) a view result that is (or adapts to) a response is returned untouched, whatever renderer / override / query
        want = {'status': 202} if r['how'] == 'httpexc' else {'status': r['status'], 'ct': r['ct'], 'text': r['body'], 'marker': 'kept'}
        o = imp.get('ok')
        if o is None:
            bad.append(('response result not passed through: %s' % imp.get('err'), None))
        else:
            for k, v in want.items():
                if o[k] != v:
                    bad.append(('response result altered: %s = %r, view returned %r' % (k, o[k], v), None))
        if imp['before']:
            bad.append(('BeforeRender fired for a response result', None))
        if imp['left'] != bool(case.get('override')):
            bad.append(('override_renderer consumed although nothing was rendered', None))
        return bad
    if case['renderer'] is None:
        if imp.get('err') != 'valueError':
            bad.append(('no renderer and not a response: expected ValueError, got %s' % (imp.get('err') or 'a response'), None))
        return bad
    if eff == 'missing':
        if imp.get('err') != 'valueError':
            bad.append(('no such renderer factory: expected ValueError', None))
        return bad
    regs = case['app']['regs']
    cur = case['setCt'] if (case.get('setCt') is not None and mode in ('router', 'rtr_resp')) else DEFAULT_CT
    status = case.get('setStatus', 200) if mode in ('router', 'rtr_resp') else 200
    want_ct, want_text, want_bytes, cb = None, None, None, None
    if eff in ('json', 'jsonp'):
        try:
            plain = expected_plain(r['v'], regs) if r['t'] == 'value' else None
            if r['t'] == 'bytes':
                a = nearest(bytes(r['b']), regs)
                if a is None:
                    raise Unserializable()
                plain = [a, None]
        except Unserializable:
            if imp.get('err') != 'typeError':
                bad.append(('unserializable value: expected TypeError, got %s' % (imp.get('err') or 'a response'), None))
            return bad
        js = json.dumps(plain)
        if eff == 'json':
            want_text, want_ct = js, 'application/json'
        else:
            kind, want_text, want_ct, cb = _jsonp_expect(case, js)
            if cb is not None:
                accepted = imp.get('err') != 'badRequest'
                if accepted and not all_safe(cb):
                    # (1) the emitted callback must consist of identifier / member / index characters only
                    bad.append(('JSONP accepted callback %r: a character outside [$_A-Za-z0-9.[]] (+ the four case-folding letters) is echoed into the script' % cb, None))
                    return bad
                if accepted and not as_built(cb):
                    if not bad:
                        bad.append(('JSONP accepted callback %r outside the validated grammar' % cb, None))
                    return bad
                if not accepted:
                    if as_built(cb):
                        bad.append(('JSONP refused callback %r which the validated grammar contains' % cb, None))
                    return bad
    elif eff == 'string':
        v = r['v']
        want_text, want_ct = (v if isinstance(v, str) else str(v)), 'text/plain'
    elif eff == 'raw':
        want_ct = cur
        if r['t'] == 'bytes':
            want_bytes = bytes(r['b'])
        elif r['v'] is None:
            want_bytes = b''
        else:
            want_text = r['v']
    if mode == 'render':
        got = imp.get('rendered')
        if 'err' in imp:
            bad.append(('render raised %s' % imp['err'], None))
        elif want_bytes is not None:
            if not (got == want_bytes or (got is None and want_bytes == b'')):
                bad.append(('render returned %r' % (got,), None))
        elif got != want_text:
            bad.append(('render returned %r, expected %r' % (got, want_text), None))
        if not imp.get('restored'):
            bad.append(('render() did not restore request.response', None))
    else:
        o = imp.get('ok')
        if o is None:
            bad.append(('expected a response, got %s' % imp.get('err'), None))
            return bad
        if want_bytes is not None:
            if o['body'] != want_bytes:
                bad.append(('body %r, expected %r' % (o['body'], want_bytes), None))
        elif o['text'] != want_text:
            bad.append(('body %r, expected %r' % (o['text'], want_text), None))
        # (3) the content type is only defaulted: what the view / caller set is never overwritten
        final = want_ct if cur == DEFAULT_CT else cur
        if o['ct'] != final:
            bad.append(('content type %r, expected %r (the response had %r, default %r)' % (o['ct'], final, cur, DEFAULT_CT), None))
        if o['status'] != status:
            bad.append(('status %r not carried over (expected %r)' % (o['status'], status), None))
        if mode in ('rtr', 'rtr_resp') and not imp.get('restored'):
            bad.append(('render_to_response() did not restore request.response', None))
        if mode == 'rtr_resp' and not imp.get('same_response'):
            bad.append(('render_to_response(response=…) did not use the response handed in', None))
        if mode == 'router' and imp['left']:
            bad.append(('override_renderer still on the request after rendering', None))
    b = imp['before']
    if len(b) != 1:
        bad.append(('BeforeRender fired %d times' % len(b), None))
    else:
        if b[0]['keys'] != SYSTEM_KEYS:
            bad.append(('system values %r' % b[0]['keys'], None))
        if b[0]['name'] != eff or not b[0]['val_is_result'] or not b[0]['request_ok']:
            bad.append(('BeforeRender saw name=%r val_is_result=%r request_ok=%r' % (b[0]['name'], b[0]['val_is_result'], b[0]['request_ok']), None))
    return bad


SYSTEM_KEYS = sorted(['view', 'renderer_name', 'renderer_info', 'context', 'request', 'req', 'get_csrf_token'])


def compare_view(case, imp, mo):
    """correspondence: impl observation vs model reply; None when they agree"""
    if mo is None:
        return None
    if 'error' in mo:
        return 'driver error: %s' % mo['error']
    mode = case.get('mode', 'router')
    if 'err' in mo:
        if mo['err'] == 'unmodelled':
            return 'model says unmodelled (generator bug)'
        return None if imp.get('err') == mo['err'] else 'impl %s, model err %s' % (imp.get('err') or 'answered', mo['err'])
    m = mo['ok']
    if mode == 'render':
        if 'err' in imp:
            return 'impl raised %s, model answered' % imp['err']
        got = imp.get('rendered')
        b = m['body']
        if b is None:
            return None if got is None else 'render: %r vs None' % (got,)
        if 't' in b:
            return None if got == ''.join(map(chr, b['t'])) else 'render text differs'
        return None if got == bytes(b['b']) else 'render bytes differ'
    o = imp.get('ok')
    if o is None:
        return 'impl raised %s, model answered' % imp.get('err')
    diffs = []
    if o['status'] != m['status']:
        diffs.append('status %s vs %s' % (o['status'], m['status']))
    if o['ct'] != ''.join(map(chr, m['ct'])):
        diffs.append('ct %s vs %s' % (o['ct'], ''.join(map(chr, m['ct']))))
    b = m['body']
    if b is None:
        if o['body'] != b'':
            diffs.append('body not empty')
    elif 't' in b:
        if case['result']['t'] == 'response' and case['result']['how'] == 'httpexc':
            pass        # the body of an HTTP exception is C19's subject
        elif o['text'] != ''.join(map(chr, b['t'])):
            diffs.append('body text')
    elif o['body'] != bytes(b['b']):
        diffs.append('body bytes')
    if mode == 'router' and imp['left'] != m['left']:
        diffs.append('override left %s vs %s' % (imp['left'], m['left']))
    return '; '.join(diffs) or None


# ---- cb cases

_jsonp_renderer = None


def impl_cb(case):
    cb = case['cb']
    if case.get('via') == 'router':
        vc = {'k': 'view', 'app': {'regs': [], 'param': 'callback'}, 'renderer': 'jsonp', 'override': None,
              'params': [['callback', cb]], 'setCt': None, 'setStatus': 200, 'result': {'t': 'value', 'v': {'a': [1]}}, 'mode': 'router'}
        imp = impl_view(vc)
        if imp.get('err') == 'badRequest':
            return {'accept': False}
        if 'ok' in imp:
            return {'accept': True, 'body': imp['ok']['text'], 'ct': imp['ok']['ct']}
        return {'accept': None, 'err': imp.get('err')}
    global _jsonp_renderer
    if _jsonp_renderer is None:
        _jsonp_renderer = R.JSONP()(None)
    req = Request.blank('/?' + query([('callback', cb)]))
    req.registry = get_app({'regs': [], 'param': 'callback'}).registry
    try:
        body = _jsonp_renderer([1], {'request': req})
    except HTTPBadRequest:
        return {'accept': False}
    return {'accept': True, 'body': body, 'ct': req.response.content_type}


def oracle_cb(case, imp):
    cb = case['cb']
    bad = []
    if imp['accept'] is None:
        return [('unexpected %s' % imp.get('err'), None)]
    if imp['accept']:
        if imp['body'] != '/**/' + cb + '([1]);':
            bad.append(('JSONP body %r is not /**/ + callback + ( + json + );' % imp['body'], None))
        if imp['ct'] != 'application/javascript':
            bad.append(('JSONP content type %r' % imp['ct'], None))
        if not all_safe(cb):
            bad.append(('JSONP accepted callback %r: a character outside [$_A-Za-z0-9.[]] (+ the four case-folding letters) is echoed into the script' % cb, None))
        elif not as_built(cb):
            bad.append(('JSONP accepted callback %r outside the validated grammar' % cb, None))
    elif as_built(cb):
        bad.append(('JSONP refused callback %r which the validated grammar contains' % cb, None))
    return bad


# ---- dumps cases

def impl_dumps(case):
    j = R.JSON()
    for n, a in case['regs']:
        j.add_adapter(SPECS[n], make_adapter(a))
    try:
        return {'text': j(None)(mat(case['v']), {})}
    except TypeError as e:
        return {'text': None, 'err': classify_exc(e)}


def oracle_dumps(case, imp):
    bad = []
    try:
        plain = expected_plain(case['v'], case['regs'])
    except Unserializable:
        if imp['text'] is not None:
            bad.append(('unserializable value rendered as %r' % imp['text'], None))
        return bad
    if imp['text'] is None:
        bad.append(('serializable value refused (%s); adapter dispatch should have found %r' % (imp.get('err'), plain), None))
        return bad
    try:
        back = json.loads(imp['text'])
    except ValueError:
        bad.append(('output is not JSON: %r' % imp['text'], None))
        return bad
    if back != plain or json.dumps(back) != json.dumps(plain):
        # (2) the output decodes back to the value (with every object replaced by what its nearest adapter gave)
        bad.append(('output %r decodes to %r, expected %r' % (imp['text'], back, plain), None))
    return bad


# ------------------------------------------------------------------------------------------------ generators

ODD = list('();"\'<>/\\= \n\r\t\x00,:+-*%&#@!?{}|^~`') + ['é', '日', '😀', ' ', ' ', 'µ', 'ａ', 'İ', 'ı', 'ſ', 'K', '\x85', '\x7f']
HEADS = list('$_abzAZqQ') + ['İ', 'ı', 'ſ', 'K']
MIDS = HEADS + list('0189.[]')
CTS = ['text/x-foo', 'application/xml', 'image/png', 'text/html', 'text/plain', 'application/json', 'application/javascript']
STATUSES = [200, 201, 202, 404, 418]
KEYS = ['a', 'b', 'k', '', 'é', 'x y', '"q"', '\n', 'callback', '0']


def gen_cb(rng):
    r = rng.random()
    n = rng.choice([1, 1, 2, 3, 5, 8]) if r < 0.995 else rng.choice([300, 2000])
    valid = rng.choice(HEADS) + ''.join(rng.choice(MIDS) for _ in range(n)) + rng.choice([c for c in MIDS if c not in '.['] if rng.random() < 0.9 else MIDS)
    k = rng.random()
    if k < 0.25:
        return valid
    if k < 0.55:                                   # one odd character somewhere
        i = rng.randint(0, len(valid))
        return valid[:i] + rng.choice(ODD) + valid[i + (rng.random() < 0.5):]
    if k < 0.62:
        return valid + rng.choice(['\n', '\n\n', '.', '.\n', ';', '(', '()', ' '])
    if k < 0.68:
        return rng.choice(['', 'a', 'ab', '$', '_', '$_', 'a.', '..', 'a(', '1ab', '.ab', '[a]', 'ab.', 'a\n', '\n'])
    if k < 0.74:
        return rng.choice('0123456789.[]') + valid
    if k < 0.80:
        return valid.upper() if rng.random() < 0.5 else valid.swapcase()
    if k < 0.86:
        return valid[:rng.randint(0, 3)]
    return vfutil.rand_text(rng, maxlen=8, p_special=0.35, p_nonascii=0.2, p_control=0.1)


def gen_text(rng):
    r = rng.random()
    if r < 0.4:
        return vfutil.rand_text(rng, maxlen=5, p_special=0.1, p_nonascii=0.05)
    return vfutil.rand_text(rng, maxlen=7, p_special=0.3, p_nonascii=0.3, p_control=0.2) + rng.choice(['', '', '"', '\\', '</script>', ' ', '😀', '\x00', '\x7f', '\x1f\x80'])


def gen_int(rng):
    return rng.choice([0, 1, -1, 7, 10, -10, 99, 100, 2 ** 31, -2 ** 63, 10 ** 20 + 1, rng.randint(-10 ** 6, 10 ** 6), rng.randint(0, 10 ** 30)])


def gen_val(rng, depth, customs=True):
    r = rng.random()
    if depth <= 0 or r < 0.35:
        k = rng.random()
        if k < 0.15:
            return None
        if k < 0.3:
            return rng.random() < 0.5
        if k < 0.55:
            return gen_int(rng)
        return gen_text(rng)
    if r < 0.55:
        return {'a': [gen_val(rng, depth - 1, customs) for _ in range(rng.randint(0, 3))], 'tup': rng.random() < 0.25}
    if r < 0.8 or not customs:
        ks = []
        for _ in range(rng.randint(0, 3)):
            k = rng.choice(KEYS) if rng.random() < 0.6 else gen_text(rng)
            if k not in ks:
                ks.append(k)
        return {'o': [[k, gen_val(rng, depth - 1, customs)] for k in ks]}
    return {'c': {'cls': rng.choice(sorted(CLASSES)), 'also': rng.choice([None, None, None, 'I1', 'I2']), 'p': gen_val(rng, depth - 1, customs)}}


def gen_regs(rng):
    k = rng.random()
    if k < 0.15:
        return []
    out = []
    for _ in range(rng.randint(1, 4)):
        out.append([rng.choice(['A', 'B', 'C', 'D', 'E', 'F', 'A', 'B', 'I1', 'I2', 'object', 'bytes', 'G', 'AJ']), rng.randint(1, 9)])
    return out


def gen_app(rng):
    return {'regs': gen_regs(rng), 'param': rng.choice(['callback', 'callback', 'cb', 'jsonp', 'c b', 'é'])}


def gen_view(rng, app):
    mode = 'router' if rng.random() < 0.8 else rng.choice(['render', 'rtr', 'rtr_resp'])
    renderer = rng.choice(['json', 'jsonp', 'jsonp', 'string', 'raw', None]) if mode == 'router' else rng.choice(['json', 'jsonp', 'string', 'raw'])
    override = None
    if mode == 'router' and rng.random() < 0.3:
        override = rng.choice(['json', 'jsonp', 'string', 'raw', 'missing'])
    eff = override or renderer
    k = rng.random()
    if mode == 'router' and k < 0.18:
        result = {'t': 'response', 'how': rng.choice(['exact', 'exact', 'subclass', 'adapted', 'httpexc']), 'status': rng.choice(STATUSES),
                  'ct': rng.choice(CTS), 'body': gen_text(rng)}
    elif eff == 'string':
        result = {'t': 'value', 'v': gen_val(rng, 0)}
    elif eff == 'raw':
        result = rng.choice([{'t': 'value', 'v': None}, {'t': 'value', 'v': gen_text(rng)}, {'t': 'bytes', 'b': [rng.randrange(256) for _ in range(rng.randint(0, 5))]}])
    elif k < 0.24:
        result = {'t': 'bytes', 'b': [rng.randrange(256) for _ in range(rng.randint(0, 4))]}
    else:
        result = {'t': 'value', 'v': gen_val(rng, rng.choice([0, 1, 2, 2, 3]))}
    params = []
    p = app['param']
    for _ in range(rng.choice([0, 1, 1, 1, 2, 3])):
        key = p if rng.random() < 0.7 else rng.choice(['callback', 'cb', 'x', p + 'x', p.upper()])
        params.append([key, gen_cb(rng) if rng.random() < 0.9 else gen_text(rng)])
    return {'k': 'view', 'app': app, 'renderer': renderer, 'override': override, 'params': params,
            'setCt': rng.choice(CTS) if rng.random() < 0.4 else None, 'setStatus': rng.choice(STATUSES) if rng.random() < 0.3 else 200,
            'result': result, 'mode': mode}


def small_scope_cbs(alphabet, maxlen):
    for n in range(maxlen + 1):
        for t in itertools.product(alphabet, repeat=n):
            yield ''.join(t)


# ------------------------------------------------------------------------------------------------ one case

def to_model(case):
    k = case['k']
    if k == 'cb':
        return {'k': 'cb', 'cb': codes(case['cb'])}
    if k == 'dumps':
        return {'k': 'dumps', 'v': to_model_val(case['v']), 'regs': to_model_regs(case['regs'])}
    return model_view_case(case)


def wf(case):
    try:
        k = case.get('k')
        if k == 'cb':
            return isinstance(case['cb'], str) and case.get('via', 'renderer') in ('renderer', 'router')
        if k == 'dumps':
            return wf_val(case['v']) and all(n in SPECS and isinstance(a, int) and a >= 0 for n, a in case['regs'])
        if k == 'view':
            return wf_view(case)
    except Exception:
        pass
    return False


def jsonable(x):
    if isinstance(x, bytes):
        return {'bytes': list(x)}
    if isinstance(x, dict):
        return {k: jsonable(v) for k, v in x.items()}
    if isinstance(x, (list, tuple)):
        return [jsonable(v) for v in x]
    return x


def check_case(case, mo):
    """-> (mismatch|None, [violations])"""
    k = case['k']
    if k == 'cb':
        imp = impl_cb(case)
        bad = oracle_cb(case, imp)
        mm = None
        if mo is not None:
            if 'error' in mo:
                mm = 'driver error: %s' % mo['error']
            elif mo.get('accept') != imp['accept']:
                mm = 'impl accept=%s, model accept=%s' % (imp['accept'], mo.get('accept'))
    elif k == 'dumps':
        imp = impl_dumps(case)
        bad = oracle_dumps(case, imp)
        mm = None
        if mo is not None:
            if 'error' in mo:
                mm = 'driver error: %s' % mo['error']
            else:
                mt = None if mo['text'] is None else ''.join(map(chr, mo['text']))
                if mt != imp['text']:
                    mm = 'impl %r, model %r' % (imp['text'], mt)
                elif mo['roundtrip'] is False:
                    mm = 'model: loads(dumps v) differs from v'
    else:
        imp = impl_view(case)
        bad = oracle_view(case, imp)
        mm = compare_view(case, imp, mo)
    mism = {'case': case, 'impl': jsonable(imp), 'model': mo, 'detail': mm} if mm else None
    viol = [{'case': case, 'impl': jsonable(imp), 'expected': d, 'detail': d, 'finding': f} if f else
            {'case': case, 'impl': jsonable(imp), 'expected': d, 'detail': d} for d, f in bad]
    return mism, viol


def violates(case, unknown_only=True):
    if not wf(case):
        return False
    try:
        _, v = check_case(case, None)
    except Exception:
        return False
    return any((not x.get('finding')) for x in v) if unknown_only else bool(v)


def shrink_violation(v):
    if v.get('finding'):
        return v
    small = vfutil.shrink(v['case'], violates, max_steps=400)
    if small != v['case']:
        _, vs = check_case(small, None)
        vs = [x for x in vs if not x.get('finding')]
        if vs:
            return vs[0]
    return v


def is_nontrivial(case):
    k = case['k']
    if k == 'cb':
        return len(case['cb']) >= 3
    if k == 'dumps':
        return nests(case['v'])
    r = case['result']
    return not (r['t'] == 'response' and r['how'] == 'exact' and not case.get('override') and not case['params'])


def gen_cases(rng, n_cb, n_dumps, n_view, n_apps):
    cases = []
    for _ in range(n_cb):
        cases.append({'k': 'cb', 'cb': gen_cb(rng), 'via': 'router' if rng.random() < 0.1 else 'renderer'})
    for _ in range(n_dumps):
        cases.append({'k': 'dumps', 'v': gen_val(rng, rng.choice([1, 2, 3, 4])), 'regs': gen_regs(rng)})
    apps = [gen_app(rng) for _ in range(n_apps)]
    for i in range(n_view):
        cases.append(gen_view(rng, apps[i % n_apps]))
    return cases


SMALL_ALPHABET = ['a', '0', '.', '(', '\n', '$', '[']


def run(ctx):
    rng = ctx.rng
    cases = [c for _, c in ctx.corpus()]
    ncorpus = len(cases)
    cases += gen_cases(rng, ctx.n(14000, 150000), ctx.n(6000, 50000), ctx.n(12000, 110000), ctx.n(40, 300))
    small = [{'k': 'cb', 'cb': s, 'via': 'renderer'} for s in small_scope_cbs(SMALL_ALPHABET, ctx.n(4, 5))]
    cases += small
    bad_gen = [c for c in cases if not wf(c)]
    cases = [c for c in cases if wf(c)]
    model = [None] * len(cases)
    notes = []
    if ctx.driver_path:
        model = ctx.run_model([to_model(c) for c in cases])
    mism, viol, agree = [], [], 0
    seen, nontriv = set(), set()
    dist = {'kinds': {}, 'cb': {'accepted': 0, 'refused': 0, 'len': {}, 'unsafe_last_refused': 0, 'non_ascii': 0, 'via_router': 0},
            'dumps': {'typeError': 0, 'ok': 0, 'with_object': 0},
            'view': {'mode': {}, 'effective_renderer': {}, 'result': {}, 'outcome': {}, 'override': 0, 'setCt': 0, 'ct_kept': 0, 'with_callback': 0}}
    for case, mo in zip(cases, model):
        if ctx.time_left() < 60:
            notes.append('stopped early: time budget')
            break
        m, vs = check_case(case, mo)
        if m:
            mism.append(m)
        elif mo is not None:
            agree += 1
        for v in vs:
            if len([x for x in viol if x.get('finding') == v.get('finding')]) < 5:
                viol.append(v)
        k = case['k']
        vfutil.bump(dist['kinds'], k)
        if k == 'cb':
            cb = case['cb']
            acc = as_built(cb)
            dist['cb']['accepted' if acc else 'refused'] += 1
            vfutil.bump(dist['cb']['len'], min(len(cb), 10))
            if len(cb) >= 3 and all_safe(cb[:-1]) and safe_head(cb[0]) and not safe_last(cb[-1]):
                dist['cb']['unsafe_last_refused'] += 1      # the class F-X03a used to let through
            if any(ord(ch) > 127 for ch in cb):
                dist['cb']['non_ascii'] += 1
            if case.get('via') == 'router':
                dist['cb']['via_router'] += 1
        elif k == 'dumps':
            try:
                expected_plain(case['v'], case['regs'])
                dist['dumps']['ok'] += 1
            except Unserializable:
                dist['dumps']['typeError'] += 1
            if '"c"' in json.dumps(case['v']):
                dist['dumps']['with_object'] += 1
        else:
            d = dist['view']
            vfutil.bump(d['mode'], case.get('mode', 'router'))
            vfutil.bump(d['effective_renderer'], str(case.get('override') or case['renderer']))
            vfutil.bump(d['result'], case['result']['t'] + (':' + case['result']['how'] if case['result']['t'] == 'response' else ''))
            if mo is not None:
                vfutil.bump(d['outcome'], mo.get('err') or 'response')
            if case.get('override'):
                d['override'] += 1
            if case.get('setCt'):
                d['setCt'] += 1
                if case['setCt'] != DEFAULT_CT:
                    d['ct_kept'] += 1
            if any(kk == case['app']['param'] for kk, _ in case['params']):
                d['with_callback'] += 1
        key = vfutil.canon(case)
        if key not in seen:
            seen.add(key)
            if is_nontrivial(case):
                nontriv.add(key)
    viol = [shrink_violation(v) for v in viol[:12]] + viol[12:]
    if bad_gen:
        notes.append('%d generated/corpus cases outside the modelled fragment were dropped' % len(bad_gen))
    notes.append('small-scope exhaustive: every callback over %r up to length %d (%d texts) through the JSONP renderer' % (
        SMALL_ALPHABET, ctx.n(4, 5), len(small)))
    return {'evaluations': len(cases), 'distinct_nontrivial': len(nontriv), 'rule': RULE, 'agreeing': agree,
            'samples': cases[ncorpus:ncorpus + 2] + cases[ncorpus + 14000 + 6000: ncorpus + 14000 + 6003] if ctx.tier == 'quick' else cases[ncorpus:ncorpus + 4],
            'mismatches': mism[:20], 'violations': viol, 'distribution': dist, 'notes': notes,
            'assumptions': ['providedBy(obj).__sro__ (zope.interface C3 resolution order) is data for the model',
                            'the harness adapters / __json__ return [tag, payload]; user callables are parameters of the model',
                            'WebOb: Response.default_content_type, content_type setter/getter (parameters stripped), text -> UTF-8 body, MultiDict.get = last value',
                            'json.dumps escaping of str (C19 jsonStr) and of int; floats, non-str keys, indent/serializer options are outside the model',
                            'IGNORECASE is expanded into the classes by asking `re` (extract/x03.py), so the Unicode case tables are trusted data'],
            'trusted_base': ['extract/x03.py (regex-text parser restricted to the pattern\'s constructs; case expansion by probing `re`)',
                             'zope.interface adapter registry and resolution orders; WebOb Response/Request; Python `re`, `json`']}


def search(ctx):
    """implementation-only search for an input violating the property (needs neither the driver nor Gen/)"""
    viol, n = [], 0
    alphabet = ['a', 'Z', '0', '.', '(', ')', '\n', '$', '[', ';']
    for _, c in ctx.corpus():
        if wf(c):
            n += 1
            viol += [v for v in check_case(c, None)[1] if not v.get('finding')]
    exhaustive = True
    for s in small_scope_cbs(alphabet, 4):
        n += 1
        _, vs = check_case({'k': 'cb', 'cb': s, 'via': 'renderer'}, None)
        viol += [v for v in vs if not v.get('finding')]
        if len(viol) >= 3:
            break
        if ctx.time_left() < 120:
            exhaustive = False
            break
    if not viol:
        for v, regs in itertools.product(
                [{'c': {'cls': c, 'also': a, 'p': None}} for c in sorted(CLASSES) for a in (None, 'I1', 'I2')],
                [[], [['A', 1]], [['B', 2]], [['A', 1], ['B', 2]], [['I1', 3]], [['object', 4]], [['E', 5], ['D', 6]], [['A', 1], ['A', 7]], [['F', 8]], [['I2', 9], ['I1', 3]]]):
            n += 1
            viol += [x for x in check_case({'k': 'dumps', 'v': v, 'regs': regs}, None)[1] if not x.get('finding')]
            if len(viol) >= 3:
                break
    if not viol:
        rng = ctx.rng
        for case in gen_cases(rng, 20000, 8000, ctx.n(15000, 40000), 60):
            if not wf(case):
                continue
            n += 1
            viol += [v for v in check_case(case, None)[1] if not v.get('finding')]
            if len(viol) >= 3 or ctx.time_left() < 60:
                break
        exhaustive = False
    viol = [shrink_violation(v) for v in viol[:3]]
    return {'violations': viol, 'searched': n, 'exhaustive': exhaustive and not viol,
            'scope': 'corpus; every callback over %r up to length 4; every harness class x 10 adapter tables; random stream' % alphabet}


def replay(ctx, rep):
    case = rep.get('case')
    if case is None:
        return {'violates': False, 'note': 'replay names broken obligations only', 'broken': rep.get('broken_obligations')}
    if not wf(case):
        return {'violates': False, 'note': 'case outside the modelled fragment'}
    mo = ctx.run_model([to_model(case)])[0] if ctx.driver_path else None
    m, vs = check_case(case, mo)
    return {'case': case, 'model': mo, 'mismatch': m and m['detail'], 'violations': [{'detail': v['detail'], 'finding': v.get('finding')} for v in vs],
            'impl': vs[0]['impl'] if vs else (m['impl'] if m else None),
            'violates': bool([v for v in vs if not v.get('finding')])}
