"""X01 — one request through the whole router: correspondence of lean/PyramidModel/RouterModel.lean (the composition of
the C01 route, C02 traversal, C03 view-lookup, C05 permission and C14 exception-view models) with the real
`Router.__call__`, and the declarative reading (lean/PyramidModel/RouterSpec.lean) evaluated on the implementation by an
oracle written in Python from that reading (it does not use the Lean build).

A *case* is a self-contained JSON description of one application — resource classes, exception classes, root factories
with their trees, routes (patterns with `{x}`, `{traverse}`, `*traverse`, `*subpath`; route factories; use_global_views;
opaque route predicates), view-family statements (add_view / add_exception_view / add_notfound_view /
add_forbidden_view; route-bound or global; predicates; permissions; bodies that respond or raise), security set-up —
and one request (raw PATH_INFO bytes, method, query, headers, the policy's decision table, which opaque predicates hold).

Observed on the real router: the tag of the body that answered (or the status of an exception returned as the response,
or the class of the exception leaving the router), the class of the exception the excview tween caught, and — in a tween
over the excview tween — `matched_route`, `matchdict`, `request_iface.__sro__`, `request_iface.combined.__sro__`, `root`,
`context`, `view_name`, `subpath`, `traversed`; the order of NewRequest / BeforeTraversal / root-or-route factory /
ContextFound.
"""
import json, re, sys

from zope.interface import (Interface, implementer, providedBy, implementedBy, alsoProvides, noLongerProvides, directlyProvides,
                            directlyProvidedBy)
from zope.interface.interface import InterfaceClass

import webob
from pyramid.config import Configurator, not_
from pyramid.events import NewRequest, BeforeTraversal, ContextFound
from pyramid.exceptions import PredicateMismatch, URLDecodeError
from pyramid import httpexceptions as hx
from pyramid.interfaces import IRequest, IRouteRequest, IExceptionResponse, IResponse, IException
from pyramid.request import Request
from pyramid.response import Response
from pyramid.security import Allowed, Denied, NO_PERMISSION_REQUIRED
from pyramid.tweens import EXCVIEW
from pyramid.predicates import CustomPredicate, PhysicalPathPredicate

import vfutil

sys.modules.setdefault('harness_x01', sys.modules[__name__])      # tween factories are given by dotted name

RULE = ('one case = one application (1-2 root factories with 1-3 level resource trees over 2-4 classes with single / '
        'multiple inheritance and 2 interfaces; 0-4 routes from {literal, {x}, {traverse}, *traverse, *subpath, {mp}} '
        'with/without factory, use_global_views, an opaque predicate; 3-8 view statements, route-bound or global, '
        'names {"", x, v}, predicates, permissions p1/p2/default, bodies that respond or raise; 0-3 exception / '
        'notfound / forbidden views; a table policy) x one request through Router.__call__.  A case is non-trivial '
        'when at least two of the composed stages did real work: a route matched; traversal consumed a segment or '
        'left a view name or a subpath; at least two views competed for the lookup; a permission was checked; an '
        'exception was caught by the excview tween.  distinct = distinct canonical case JSON')

I1 = InterfaceClass('I1', (Interface,), __doc__='harness interface 1')
I2 = InterfaceClass('I2', (I1,), __doc__='harness interface 2 (extends I1)')
I3 = InterfaceClass('I3', (Interface,), __doc__='harness interface 3: an independent run-time marker')
IFACES = {1: I1, 2: I2, 3: I3}
BUILTINS = {
    'Exception': Exception, 'ValueError': ValueError, 'KeyError': KeyError, 'LookupError': LookupError,
    'HTTPException': hx.HTTPException, 'HTTPClientError': hx.HTTPClientError, 'HTTPNotFound': hx.HTTPNotFound,
    'HTTPForbidden': hx.HTTPForbidden, 'HTTPBadRequest': hx.HTTPBadRequest, 'PredicateMismatch': PredicateMismatch,
    'URLDecodeError': URLDecodeError, 'UnicodeDecodeError': UnicodeDecodeError, 'UnicodeError': UnicodeError,
    'WebobHTTPException': webob.exc.WSGIHTTPException, 'WebobNotFound': webob.exc.HTTPNotFound,
    'WebobForbidden': webob.exc.HTTPForbidden,
}
BUILTIN_IDS = {n: 40 + i for i, n in enumerate(sorted(BUILTINS))}
XIFACES = {'IExceptionResponse': (IExceptionResponse, 80), 'IResponse': (IResponse, 81), 'IException': (IException, 82)}
ID_OTHER = 90
TAG_DEFAULT, TAG_DEFAULT_WEBOB = 9000, 9001
PERM_IDS = {'p1': 1, 'p2': 2, 'dp': 9}
NAMES = ['a', 'b', 'c', 'x', 'é']
VIEW_NAMES = ['', '', 'x', 'v']
METHODS = ['GET', 'GET', 'HEAD', 'POST', 'PUT']


class Node(dict):
    """a traversable resource; `__getitem__` applies the application's run-time marks of the point `traversal` to the child
    it hands out"""

    def __getitem__(self, key):
        child = dict.__getitem__(self, key)
        w = getattr(self, '_vf_w', None)
        if w is not None:
            apply_marks(w, 'traversal', None, only=child)
        return child


def all_nodes(w):
    out = []

    def walk(n):
        out.append(n)
        for c in dict.values(n):
            walk(c)
    for r in w.roots:
        walk(r)
    return out


def node_at(w, ri, pos):
    n = w.roots[ri]
    for s in pos:
        n = dict.__getitem__(n, s)
    return n


def apply_marks(w, at, request, only=None):
    """run-time marking: `alsoProvides` / `noLongerProvides` of I1 / I2 / I3 on a resource INSTANCE at one of the points
    new_request, root_factory, before_traversal, traversal (the node `__getitem__` hands out), context_found"""
    for m in w.marks:
        if m['at'] != at:
            continue
        try:
            if m['target'] == ['ctx']:
                obj = request.__dict__.get('context') if request is not None else None
            else:
                obj = node_at(w, m['target'][1], m['target'][2])
        except (KeyError, IndexError):
            obj = None
        if obj is None or not isinstance(obj, Node) or (only is not None and obj is not only):
            continue
        iface = IFACES[m['iface']]
        if m['op'] == 'add':
            alsoProvides(obj, iface)
        elif iface in directlyProvidedBy(obj):
            noLongerProvides(obj, iface)


def sro_snapshot(w):
    return {json.dumps(n._vf_key): [spec_id(w, sp) for sp in providedBy(n).__sro__] for n in all_nodes(w)}


class World:
    pass


def codes(s):
    return [ord(c) for c in s]


# ------------------------------------------------------------------------------------------------------
# the application described by a case

def make_classes(spec):
    out = []
    for k, c in enumerate(spec):
        bases = tuple(out[b] for b in c['bases']) or (Node,)
        cls = type('K%d' % k, bases, {})
        for i in c.get('impl', []):
            cls = implementer(IFACES[i])(cls)
        out.append(cls)
    return out


def make_xclasses(spec):
    out = []
    for k, c in enumerate(spec):
        bases = tuple(out[b[1]] if b[0] == 'u' else BUILTINS[b[1]] for b in c['bases'])
        out.append(type('X%d' % k, bases, {}))
    return out


def ref_class(w, ref):
    """['c',k] resource class | ['i',n] interface | ['u',k] user exception class | ['b',name] built-in | ['xi',name]"""
    kind = ref[0]
    if kind == 'c':
        return w.classes[ref[1]]
    if kind == 'i':
        return IFACES[ref[1]]
    if kind == 'u':
        return w.xclasses[ref[1]]
    if kind == 'xi':
        return XIFACES[ref[1]][0]
    return BUILTINS[ref[1]]


def ref_id(ref):
    if ref is None:
        return 0
    kind = ref[0]
    if kind == 'c':
        return 10 + ref[1]
    if kind == 'i':
        return ref[1]
    if kind == 'u':
        return 100 + ref[1]
    if kind == 'xi':
        return XIFACES[ref[1]][1]
    return BUILTIN_IDS[ref[1]]


def ref_is_exc(ref):
    return ref is not None and ref[0] in ('u', 'b', 'xi')


def spec_id(w, spec):
    if spec is Interface:
        return 0
    for i, iface in IFACES.items():
        if spec is iface:
            return i
    for n, (iface, ident) in XIFACES.items():
        if spec is iface:
            return ident
    for k, cls in enumerate(w.classes):
        if spec is implementedBy(cls):
            return 10 + k
    for k, cls in enumerate(w.xclasses):
        if spec is implementedBy(cls):
            return 100 + k
    for n, cls in BUILTINS.items():
        if spec is implementedBy(cls):
            return BUILTIN_IDS[n]
    return ID_OTHER


def make_exc(w, ref):
    cls = ref_class(w, ref)
    if issubclass(cls, UnicodeDecodeError):
        return cls('utf-8', b'\xff', 0, 1, 'harness')
    return cls()


def exc_ref_of(w, e):
    for k, cls in enumerate(w.xclasses):
        if type(e) is cls:
            return ['u', k]
    for n, cls in BUILTINS.items():
        if type(e) is cls:
            return ['b', n]
    return ['b', '?' + type(e).__name__]


def cls_id(w, e):
    return spec_id(w, implementedBy(type(e)))


def exc_record(w, inst):
    return {'id': cls_id(w, inst), 'sro': [spec_id(w, s) for s in providedBy(inst).__sro__],
            'nf': isinstance(inst, hx.HTTPNotFound),
            'status': inst.status_int if isinstance(inst, webob.Response) else None}


def _mk_custom(i):
    def cp(context, request):
        return i in request.environ.get('verif.custom', ())
    cp.__name__ = 'cp%d' % i
    return cp


CUSTOMS = [_mk_custom(i) for i in range(3)]


def _mk_route_pred(i):
    def rp(info, request):
        return i in request.environ.get('verif.rp', ())
    rp.__name__ = 'rp%d' % i
    return rp


ROUTE_PREDS = [_mk_route_pred(i) for i in range(4)]


def ctx_key(w, context):
    if isinstance(context, BaseException):
        return ['exc', exc_ref_of(w, context)]
    return list(getattr(context, '_vf_key', ['res', -1, []]))


class TablePolicy:
    def __init__(self, w):
        self.w = w

    def identity(self, request):
        return None

    def authenticated_userid(self, request):
        return 'u' if request.environ.get('verif.auth') else None

    def permits(self, request, context, permission):
        key = json.dumps([ctx_key(self.w, context), permission])
        self.w.log['permits'].append(key)
        return Allowed('ok') if key in request.environ.get('verif.allowed', ()) else Denied('no')

    def remember(self, request, userid, **kw):
        return []

    def forget(self, request, **kw):
        return []


def over_factory(handler, registry):
    def over(request):
        w = registry.verif_world
        try:
            return handler(request)
        finally:
            w.log['final'] = snapshot(w, request)
    return over


def under_factory(handler, registry):
    def under(request):
        w = registry.verif_world
        try:
            return handler(request)
        except Exception as e:
            w.log['caught'] = e
            raise
    return under


def snapshot(w, request):
    d = request.__dict__
    route = d.get('matched_route')
    md = d.get('matchdict', getattr(request, 'matchdict', None))
    riface = d.get('request_iface')
    root = d.get('root')
    ctx = d.get('context')
    return {
        'route': None if route is None else route.name,
        'md': None if md is None else {k: (list(v) if isinstance(v, tuple) else v) for k, v in md.items()},
        'rsro': None if riface is None else [req_iface_id(w, i) for i in riface.__sro__],
        'comb': None if riface is None else [req_iface_id(w, i) for i in riface.combined.__sro__],
        'root': None if root is None else getattr(root, '_vf_key', [None, -1])[1],
        'trav': None if 'view_name' not in d else {
            'context': list(getattr(ctx, '_vf_key', [None, None, ['?']])[2]), 'croot': getattr(ctx, '_vf_key', [None, -1])[1],
            'view_name': d.get('view_name'), 'subpath': list(d.get('subpath', ())), 'traversed': list(d.get('traversed', ())),
            'virtual_root': list(getattr(d.get('virtual_root'), '_vf_key', [None, None, ['?']])[2]),
            'virtual_root_path': list(d.get('virtual_root_path', ()))},
    }


def req_iface_id(w, iface):
    if iface is IRequest:
        return 0
    if iface is Interface:
        return 50
    q = w.config.registry.queryUtility
    for i, name in enumerate(w.route_names):
        ri = q(IRouteRequest, name=name)
        if iface is ri:
            return 1 + i
        if iface is getattr(ri, 'combined', None):
            return 20 + i
    return 60


def build_tree(w, ri, nd, pos, parent=None):
    n = w.classes[nd['cls']]()
    for i in nd.get('provides', []):
        alsoProvides(n, IFACES[i])
    n._vf_key = ['res', ri, list(pos)]
    n._vf_w = w
    n.__name__ = pos[-1] if pos else ''          # location-aware: containment= / physical_path= walk __parent__ / __name__
    n.__parent__ = parent
    for name, sub in nd.get('kids', []):
        dict.__setitem__(n, name, build_tree(w, ri, sub, pos + [name], n))
    return n


def pred_kwargs(w, st):
    o = st.get('opts', {})
    notted = set(st.get('not', []))
    kw = {}
    for name in ('xhr', 'is_authenticated', 'request_method', 'request_param', 'header', 'match_param', 'path_info', 'physical_path'):
        if name in o:
            v = o[name]
            v = tuple(v) if isinstance(v, list) else v
            kw[name] = not_(v) if name in notted else v
    if 'containment' in o:
        v = ref_class(w, o['containment'])
        kw['containment'] = not_(v) if 'containment' in notted else v
    if 'custom' in o:
        kw['custom_predicates'] = tuple(CUSTOMS[i] for i in o['custom'])
    return kw


def build_app(app):
    w = World()
    w.classes = make_classes(app['classes'])
    w.xclasses = make_xclasses(app['xclasses'])
    w.log = {'hooks': [], 'seen': [], 'permits': []}
    w.marks = list(app.get('marks', []))
    w.roots = []
    for ri, r in enumerate(app['roots']):
        w.roots.append(build_tree(w, ri, r['tree'], []))
    w.initial = [(n, tuple(directlyProvidedBy(n))) for n in all_nodes(w)]
    w.route_names = [r['name'] for r in app['routes']]

    def factory(i, hook):
        def f(request):
            apply_marks(w, 'root_factory', request)
            w.log['hooks'].append([hook, snapshot(w, request)])
            exc = app['roots'][i].get('raises')
            if exc is not None:
                raise make_exc(w, exc)
            return w.roots[i]
        return f
    kw = {}
    if app.get('defperm'):
        kw['default_permission'] = 'dp'
    config = Configurator(root_factory=factory(app['defroot'], 'rootfactory'), autocommit=True, **kw)
    config.registry.verif_world = w
    w.config = config
    if app.get('policy', True):
        config.set_security_policy(TablePolicy(w))
    config.add_tween('harness_x01.over_factory', over=EXCVIEW)
    config.add_tween('harness_x01.under_factory', under=EXCVIEW)
    for ev, at in ((NewRequest, 'new_request'), (BeforeTraversal, 'before_traversal'), (ContextFound, 'context_found')):
        config.add_subscriber((lambda event, at=at: apply_marks(w, at, event.request)), ev)       # marks first
    for ev, nm in ((NewRequest, 'NewRequest'), (BeforeTraversal, 'BeforeTraversal'), (ContextFound, 'ContextFound')):
        config.add_subscriber((lambda event, nm=nm: w.log['hooks'].append([nm, snapshot(w, event.request)])), ev)
    # LAST ContextFound subscriber: what every resource provides when the view lookup starts (zope.interface only)
    config.add_subscriber((lambda event: w.log.__setitem__('sro_snap', sro_snapshot(w))), ContextFound)
    for r in app['routes']:
        rkw = {}
        if r.get('factory') is not None:
            rkw['factory'] = factory(r['factory'], 'routefactory')
        if r.get('pred') is not None:
            rkw['custom_predicates'] = (ROUTE_PREDS[r['pred']],)
        config.add_route(r['name'], r['pattern'], use_global_views=bool(r.get('ugv')), **rkw)
    for st in app['stmts']:
        tag, body = st['tag'], st['body']

        def view(context, request, tag=tag, body=body):
            d = request.__dict__
            ei = d.get('exc_info')
            rc = d.get('context')
            w.log['seen'].append({'tag': tag, 'context': ctx_key(w, context), 'snap': snapshot(w, request),
                                  'reread': None if not isinstance(rc, Node) else
                                  [json.dumps(rc._vf_key), [spec_id(w, sp) for sp in providedBy(rc).__sro__]],
                                  'excpath': w.log.get('caught') is not None,
                                  'saw': [cls_id(w, context) if isinstance(context, BaseException) else 'resource',
                                          None if d.get('exception') is None else cls_id(w, d['exception']),
                                          None if not ei else cls_id(w, ei[1]), None if 'response' not in d else 'response'],
                                  'exception': None if getattr(request, 'exception', None) is None else cls_id(w, request.exception)})
            if body[0] == 'raise':
                raise make_exc(w, body[1])
            resp = Response('V%d' % tag)
            resp.headers['X-Tag'] = 'V%d' % tag
            return resp
        view.__name__ = 'v%d' % tag
        pk = pred_kwargs(w, st)
        if st.get('route'):
            pk['route_name'] = st['route']
        kind = st['kind']
        if kind == 'notfound':
            config.add_notfound_view(view, **pk)
        elif kind == 'forbidden':
            config.add_forbidden_view(view, **pk)
        elif kind == 'exc':
            config.add_exception_view(view, context=(None if st['ctx'] is None else ref_class(w, st['ctx'])), **pk)
        else:
            perm = st.get('perm')
            config.add_view(view, context=(None if st['ctx'] is None else ref_class(w, st['ctx'])), name=st['name'],
                            exception_only=bool(st.get('xonly')),
                            permission=(NO_PERMISSION_REQUIRED if perm == 'npr' else perm), **pk)
    w.app = config.make_wsgi_app()
    return w


_APP_CACHE = {}


def get_world(case):
    key = json.dumps(case['app'], sort_keys=True)
    w = _APP_CACHE.get(key)
    if w is None:
        if len(_APP_CACHE) > 32:
            _APP_CACHE.clear()
        w = _APP_CACHE[key] = build_app(case['app'])
    return w


def make_environ(rq):
    env = Request.blank('/').environ
    if rq.get('path') is None:
        env.pop('PATH_INFO', None)
    else:
        env['PATH_INFO'] = bytes(rq['path']).decode('latin-1')
    if rq.get('vroot') is not None:
        env['HTTP_X_VHM_ROOT'] = bytes(rq['vroot']).decode('latin-1')
    env['QUERY_STRING'] = rq.get('qs') or ''
    env['REQUEST_METHOD'] = rq.get('method', 'GET')
    for k, v in rq.get('headers', []):
        env['HTTP_' + k.upper().replace('-', '_')] = v
    if rq.get('xhr'):
        env['HTTP_X_REQUESTED_WITH'] = 'XMLHttpRequest'
    env['verif.auth'] = bool(rq.get('auth'))
    env['verif.custom'] = tuple(rq.get('custom', []))
    env['verif.rp'] = tuple(rq.get('rp', []))
    env['verif.allowed'] = frozenset(json.dumps(a) for a in rq.get('allowed', []))
    return env


def observe(w, case):
    """send the request through Router.__call__; canonical observation in the shape of the driver's OUT"""
    env = make_environ(case['req'])
    for n, init in w.initial:                      # worlds are cached: undo the marks of earlier requests
        directlyProvides(n, *init)
    w.log.clear()
    w.log.update({'hooks': [], 'seen': [], 'permits': []})
    sh = {}

    def start_response(status, headers, exc_info=None):
        sh['status'], sh['headers'] = status, headers
    raised = None
    try:
        b''.join(w.app(env, start_response))
    except Exception as e:
        raised = e
    if raised is not None:
        final = ['raise', cls_id(w, raised)]
    else:
        tag = dict(sh.get('headers', [])).get('X-Tag')
        if tag is not None and tag.startswith('V'):
            final = ['resp', 'view', int(tag[1:])]
        else:
            final = ['resp', 'self', int(sh['status'][:3])]
    snap = w.log.get('final') or {}
    caught = w.log.get('caught')
    excseen = [x for x in w.log['seen'] if x['excpath']]
    obs = {'final': final, 'caught': None if caught is None else cls_id(w, caught),
           'seen': excseen[-1]['saw'] if (excseen and final[:2] != ['resp', 'self']) else None,
           'hooks': [[nm, canon_snap(w, sn)] for nm, sn in w.log['hooks']]}
    obs.update(canon_snap(w, snap))
    trav = snap.get('trav')
    extra = {'seen': list(w.log['seen']), 'permits': list(w.log['permits']), 'env': env,
             'sro_snap': w.log.get('sro_snap') or sro_snapshot(w),
             'croot': None if trav is None else trav['croot'],
             'caught_ref': None if caught is None else exc_ref_of(w, caught)}
    return obs, extra


TRAV_KEYS = ('context', 'view_name', 'subpath', 'traversed', 'virtual_root', 'virtual_root_path')


def canon_snap(w, snap):
    names = w.route_names
    md = snap.get('md')
    trav = snap.get('trav')
    return {'route': None if snap.get('route') is None else names.index(snap['route']),
            'md': None if md is None else sorted([k, 't' if isinstance(v, list) else 's', v] for k, v in md.items()),
            'rsro': snap.get('rsro'), 'comb': snap.get('comb'), 'root': snap.get('root'),
            'trav': None if trav is None else {k: trav[k] for k in TRAV_KEYS}}


# ------------------------------------------------------------------------------------------------------
# the model's input

def model_preds(w, st):
    o = st.get('opts', {})
    notted = set(st.get('not', []))
    preds = []

    def add(name, v):
        preds.append({'n': name, 'not': name in notted, 'v': dict(v, k=name)})
    if 'xhr' in o:
        add('xhr', {'b': bool(o['xhr'])})
    for name in ('request_method', 'request_param', 'header', 'match_param'):
        if name in o:
            v = o[name]
            add(name, {'l': list(v) if isinstance(v, list) else [v]})
    if 'path_info' in o:
        add('path_info', {'s': o['path_info']})
    if 'containment' in o:
        add('containment', {'i': ref_id(o['containment']), 'r': str(ref_class(w, o['containment']))})
    if 'physical_path' in o:
        v = o['physical_path']
        rep = PhysicalPathPredicate(tuple(v) if isinstance(v, list) else v, None).text()[len('physical_path = '):]
        preds.append({'n': 'physical_path', 'not': 'physical_path' in notted,
                      'v': {'k': 'pp_seq', 'l': v, 'r': rep} if isinstance(v, list) else {'k': 'pp_str', 's': v, 'r': rep}})
    if 'is_authenticated' in o:
        add('is_authenticated', {'b': bool(o['is_authenticated'])})
    for i in o.get('custom', []):
        preds.append({'n': 'custom', 'not': False, 'v': {'k': 'custom', 'i': i, 'r': CustomPredicate(CUSTOMS[i], None).phash()}})
    return preds


def stmt_ctx_id(st):
    kind = st['kind']
    if kind == 'notfound':
        return BUILTIN_IDS['HTTPNotFound']
    if kind == 'forbidden':
        return BUILTIN_IDS['HTTPForbidden']
    if kind == 'exc' and st['ctx'] is None:
        return BUILTIN_IDS['Exception']
    return ref_id(st['ctx'])


def stmt_isexc(st):
    return st['kind'] != 'view' or ref_is_exc(st['ctx'])


def stmt_xonly(st):
    return st['kind'] != 'view' or bool(st.get('xonly'))


def stmt_perm(st):
    return st.get('perm') if st['kind'] == 'view' else 'npr'


def tree_json(nd):
    return {'g': True, 'k': [[codes(name), tree_json(sub)] for name, sub in nd.get('kids', [])]}


def tree_sros(w, node, pos, out, snap=None):
    """what every resource provides when the lookup starts: the last ContextFound subscriber's snapshot (or, when the request
    never got that far, the state the request left)"""
    key = json.dumps(node._vf_key)
    sro = snap[key] if snap is not None and key in snap else [spec_id(w, s) for s in providedBy(node).__sro__]
    out.append([[codes(s) for s in pos], sro])
    for name, sub in dict.items(node):
        tree_sros(w, sub, pos + [name], out, snap)
    return out


def key_json(w, key):
    if key[0] == 'res':
        return ['res', key[1], [codes(s) for s in key[2]]]
    return ['exc', exc_record(w, make_exc(w, key[1]))['sro']]


def model_input(w, case, snap=None):
    app, rq = case['app'], case['req']
    names = [r['name'] for r in app['routes']]
    routes = [{'name': codes(r['name']), 'pattern': codes(r['pattern']), 'pred': r.get('pred'), 'factory': r.get('factory'),
               'iface': 1 + i, 'comb': 20 + i, 'ugv': bool(r.get('ugv'))} for i, r in enumerate(app['routes'])]
    roots = [{'tree': tree_json(r['tree']), 'sro': tree_sros(w, w.roots[ri], [], [], snap),
              'raises': None if r.get('raises') is None else exc_record(w, make_exc(w, r['raises']))}
             for ri, r in enumerate(app['roots'])]
    views = []
    for ctx, tag in ((XIFACES['IExceptionResponse'][1], TAG_DEFAULT), (BUILTIN_IDS['WebobHTTPException'], TAG_DEFAULT_WEBOB)):
        views.append({'req': 0, 'ctx': ctx, 'name': '', 'preds': [], 'perm': 'unset', 'isexc': True, 'xonly': False, 'tag': tag,
                      'body': ['ctx'], 'permname': PERM_IDS['dp']})
    for st in app['stmts']:
        perm = stmt_perm(st)
        views.append({'req': 0 if not st.get('route') else 1 + names.index(st['route']), 'ctx': stmt_ctx_id(st),
                      'name': st['name'] if st['kind'] == 'view' else '', 'preds': model_preds(w, st),
                      'perm': 'unset' if perm is None else ('npr' if perm == 'npr' else 'named'),
                      'isexc': stmt_isexc(st), 'xonly': stmt_xonly(st), 'tag': st['tag'],
                      'body': ['respond'] if st['body'][0] == 'respond' else ['raise', exc_record(w, make_exc(w, st['body'][1]))],
                      'permname': PERM_IDS.get(perm, PERM_IDS['dp'])})
    world = {'policy': bool(app.get('policy', True)), 'defperm': bool(app.get('defperm')),
             'nf': exc_record(w, hx.HTTPNotFound()), 'mm': exc_record(w, PredicateMismatch()), 'fb': exc_record(w, hx.HTTPForbidden()),
             'xnf': exc_record(w, hx.HTTPNotFound()), 'xmm': exc_record(w, PredicateMismatch()), 'xfb': exc_record(w, hx.HTTPForbidden())}
    env = make_environ(rq)
    wr = Request(dict(env))
    try:
        upath = wr.upath_info
    except (UnicodeDecodeError, KeyError):
        upath = ''
    envl = sorted([k, v] for k, v in env.items() if isinstance(v, str) and (k.startswith('HTTP_') or k in ('CONTENT_TYPE', 'CONTENT_LENGTH')))
    pats = sorted({st['opts']['path_info'] for st in app['stmts'] if 'path_info' in st.get('opts', {})})
    retable = [[p, upath, re.compile(p).match(upath) is not None] for p in pats]
    base = {'method': wr.method, 'get': [[k, v] for k, v in wr.GET.items()], 'post': [], 'env': envl, 'path': upath, 'md': None,
            'auth': bool(rq.get('auth')) and bool(app.get('policy', True)), 'custom': list(rq.get('custom', [])), 're': retable, 'accq': [],
            'lineage': [], 'phys': None, 'permitted': True, 'rsro': [], 'csro': [], 'vn': ''}
    allowed = [[key_json(w, k), PERM_IDS[p]] for k, p in rq.get('allowed', [])]
    return {'routes': routes, 'roots': roots, 'defroot': app['defroot'], 'views': views, 'world': world,
            'urldecode': exc_record(w, make_exc(w, ['b', 'URLDecodeError'])), 'keyerror': exc_record(w, KeyError('PATH_INFO')),
            'allowed': allowed,
            'unicodedecode': exc_record(w, UnicodeDecodeError('utf-8', b'\xff', 0, 1, 'harness')),
            'req': {'path': rq.get('path'), 'vroot': rq.get('vroot'), 'rp': list(rq.get('rp', [])), 'base': base}}


def canon_model_out(w, mo):
    """driver OUT -> the shape of `observe`"""
    if mo is None:
        return None

    def t(cs):
        return ''.join(chr(c) for c in cs)

    def attrs(a):
        md = a.get('md')
        trav = a.get('trav')
        return {'route': a['route'],
                'md': None if md is None else sorted([t(e[0]), e[1], ([t(x) for x in e[2]] if e[1] == 't' else t(e[2]))] for e in md),
                'rsro': a['rsro'], 'comb': a['comb'], 'root': a['root'],
                'trav': None if trav is None else {
                    'context': [t(x) for x in trav['context']], 'view_name': t(trav['view_name']),
                    'subpath': [t(x) for x in trav['subpath']], 'traversed': [t(x) for x in trav['traversed']],
                    'virtual_root': [t(x) for x in trav['virtual_root']], 'virtual_root_path': [t(x) for x in trav['virtual_root_path']]}}
    # the default exception-response view is pyramid's own function: what it saw is not observable
    out = {'final': mo['final'], 'caught': mo['caught'], 'seen': None if mo['final'][:2] == ['resp', 'self'] else mo['seen'],
           'hooks': [[h[0], attrs(h[1])] for h in mo['hooks'] if h[0] != 'traverser']}
    out.update(attrs(mo))
    return out


# ------------------------------------------------------------------------------------------------------
# the declarative reading, in Python, on the case description (independent of the Lean build and of the router)

def split_path(p):
    out = []
    for seg in p.strip('/').split('/'):
        if seg in ('', '.'):
            continue
        if seg == '..':
            if out:
                out.pop()
            continue
        out.append(seg)
    return out


def route_regex(pattern):
    """the documented meaning of the pattern grammar the generator uses: literals, {name}, a final *name"""
    if not pattern.startswith('/'):
        pattern = '/' + pattern
    star = None
    m = re.search(r'\*(\w*)$', pattern)
    if m:
        star = m.group(1)
        pattern = pattern[:m.start()]
    parts = re.split(r'\{(\w+)\}', pattern)
    rx = ''
    for i, p in enumerate(parts):
        rx += re.escape(p) if i % 2 == 0 else '(?P<%s>[^/]+)' % p
    if star:
        rx += '(?P<%s>.*?)' % star
    return re.compile(rx + r'\Z', re.S if False else 0), star


def oracle_preds_hold(w, st, rq, md, policy, cinfo):
    o = st.get('opts', {})
    notted = set(st.get('not', []))
    params = {}
    for kv in (rq.get('qs') or '').split('&'):
        if kv:
            k, _, v = kv.partition('=')
            params[k] = v
    hdrs = {k.upper().replace('-', '_') for k, _ in rq.get('headers', [])}

    def one(name):
        v = o[name]
        vals = v if isinstance(v, list) else [v]
        if name == 'xhr':
            return bool(rq.get('xhr')) == bool(v)
        if name == 'is_authenticated':
            return (bool(rq.get('auth')) and policy) == bool(v)
        if name == 'request_method':
            m = rq.get('method', 'GET')
            return m in vals or (m == 'HEAD' and 'GET' in vals)
        if name == 'request_param':
            return all((s.partition('=')[0] in params and ('=' not in s or params[s.partition('=')[0]] == s.partition('=')[2])) for s in vals)
        if name == 'header':
            return all(h.upper().replace('-', '_') in hdrs for h in vals)
        if name == 'match_param':
            return bool(md) and all(md.get(s.partition('=')[0]) == s.partition('=')[2] for s in vals)
        if name == 'path_info':
            return cinfo.get('upath') is not None and re.match(v, cinfo['upath']) is not None
        if name == 'containment':
            cls = ref_class(w, v)
            return any((isinstance(loc, cls) if isinstance(cls, type) else cls.providedBy(loc)) for loc in cinfo.get('lineage') or [])
        if name == 'physical_path':
            want = tuple(v) if isinstance(v, list) else ('',) + tuple(x for x in v.split('/') if x)
            return cinfo.get('phys') is not None and tuple(cinfo['phys']) == want
        raise KeyError(name)
    for name in ('xhr', 'is_authenticated', 'request_method', 'request_param', 'header', 'match_param', 'path_info', 'containment',
                 'physical_path'):
        if name in o:
            r = one(name)
            if name in notted:
                r = not r
            if not r:
                return False
    return all(i in rq.get('custom', []) for i in o.get('custom', []))


def pred_key(st):
    return json.dumps([st.get('opts', {}), sorted(st.get('not', []))], sort_keys=True)


def oracle(w, case, snap=None):
    """acceptable observations per the declarative reading.  Everything but the choice *inside* one
    (request interface, context interface) slot is determined; inside a slot C03 decides, and any qualifying view of the
    slot is accepted here.  Returns {'attrs': {...}, 'hooks': [...], 'finals': [(final, caught, finding|None)…]}"""
    app, rq = case['app'], case['req']
    policy = bool(app.get('policy', True))
    routes = app['routes']
    allowed = {json.dumps(a) for a in rq.get('allowed', [])}
    import copy
    attrs = {'route': None, 'md': None, 'rsro': [0, 50], 'comb': [0, 50], 'root': None, 'trav': None}
    hooks = [['NewRequest', copy.deepcopy(attrs)]]
    cinfo = {'upath': None, 'lineage': None, 'phys': None}

    def sro_of_exc(ref):
        return [spec_id(w, s) for s in providedBy(make_exc(w, ref)).__sro__]

    def effective_perm(st, excpath):
        p = stmt_perm(st)
        if not policy or p == 'npr':
            return None
        if p is None:
            return 'dp' if (app.get('defperm') and not excpath) else None
        return p

    def in_force(sts, excpath):
        out = {}
        for st in sts:
            # the later statement of a slot with the same predicates replaces the earlier; a protected and an unprotected
            # one are stored side by side (C03's decision on F-C03b: either may answer)
            out[(pred_key(st), effective_perm(st, excpath) is not None)] = st
        return list(out.values())

    def lookup(excpath, rsro, csro, name, md, key):
        """-> list of acceptable (kind, payload): ('body', st) | ('forbidden', st) | ('mismatch',) | ('none',)"""
        registered = False
        names = [r['name'] for r in routes]
        for q in rsro:
            for c in csro:
                slot = []
                for st in app['stmts']:
                    if excpath and not stmt_isexc(st):
                        continue
                    if not excpath and stmt_xonly(st):
                        continue
                    sq = 0 if not st.get('route') else 1 + names.index(st['route'])
                    sname = st['name'] if st['kind'] == 'view' else ''
                    if sq == q and stmt_ctx_id(st) == c and sname == name:
                        slot.append(st)
                slot = in_force(slot, excpath)
                if excpath and q == 0 and name == '' and c in (XIFACES['IExceptionResponse'][1], BUILTIN_IDS['WebobHTTPException']):
                    slot = slot + ['default']
                if slot:
                    registered = True
                qual = [st for st in slot if st == 'default' or oracle_preds_hold(w, st, rq, md, policy, cinfo if not excpath else dict(cinfo, lineage=None, phys=None))]
                if qual:
                    out = []
                    for st in qual:
                        if st == 'default':
                            out.append(('default',))
                            continue
                        p = effective_perm(st, excpath)
                        if p is not None and json.dumps([key, p]) not in allowed:
                            out.append(('forbidden', st))
                        else:
                            out.append(('body', st))
                    return out
        return [('mismatch',)] if registered else [('none',)]

    def render(exc_ref, md, comb):
        """acceptable finals when `exc_ref` is raised under the excview tween"""
        e = make_exc(w, exc_ref)
        eid = cls_id(w, e)
        outs = []
        for r in lookup(True, comb, sro_of_exc(exc_ref), '', md, ['exc', exc_ref]):
            if r[0] == 'default':
                outs.append((['resp', 'self', e.status_int], eid, None))
            elif r[0] == 'body':
                st = r[1]
                if st['body'][0] == 'respond':
                    outs.append((['resp', 'view', st['tag']], eid, None))
                else:
                    e2 = make_exc(w, st['body'][1])
                    outs.append((['raise', eid if isinstance(e2, hx.HTTPNotFound) else cls_id(w, e2)], eid, None))
            elif r[0] == 'forbidden':
                # the reading demands the exception view's answer or the original exception; as built a NEW HTTPForbidden
                # leaves the router (F-C14a = F-C05a seen from the composed model)
                outs.append((['raise', eid], eid, 'demanded'))
                outs.append((['raise', BUILTIN_IDS['HTTPForbidden']], eid, 'F-X01a'))
            else:
                outs.append((['raise', eid], eid, None))
        return outs

    def result(finals):
        return {'attrs': attrs, 'hooks': hooks, 'finals': finals}
    # 1. the first declared route that qualifies
    raw = rq.get('path')
    try:
        path = '/' if raw is None else (bytes(raw).decode('utf-8') or '/')
    except UnicodeDecodeError:
        path = None
    cinfo['upath'] = None if raw is None else path
    hit = None
    if routes:
        if path is None:
            return result(render(['b', 'URLDecodeError'], None, [0, 50]))
        for i, r in enumerate(routes):
            rx, star = route_regex(r['pattern'])
            m = rx.match(path)
            if m is None:
                continue
            md = dict(m.groupdict())
            if star:
                md[star] = split_path(md[star])
            if r.get('pred') is not None and r['pred'] not in rq.get('rp', []):
                continue
            hit = (i, r, md)
            break
    md = None
    ri, hook = app['defroot'], 'rootfactory'
    if hit is not None:
        i, r, md = hit
        attrs.update(route=i, md=sorted([k, 't' if isinstance(v, list) else 's', v] for k, v in md.items()),
                     rsro=[1 + i, 0, 50] if r.get('ugv') else [1 + i, 50], comb=[20 + i, 1 + i, 0, 50])
        if r.get('factory') is not None:
            ri, hook = r['factory'], 'routefactory'
    hooks += [['BeforeTraversal', copy.deepcopy(attrs)], [hook, copy.deepcopy(attrs)]]
    root = app['roots'][ri]
    if root.get('raises') is not None:
        return result(render(root['raises'], md, attrs['comb']))
    attrs['root'] = ri
    # 2. traversal
    if md is not None:
        tv = md.get('traverse')
        segs = list(tv) if isinstance(tv, list) else split_path(tv or '/')
        sp = md.get('subpath')
        sub0 = list(sp) if isinstance(sp, list) else split_path(sp or '')
    else:
        if path is None:
            return result(render(['b', 'URLDecodeError'], md, attrs['comb']))
        segs, sub0 = split_path(path), []
    vt = []
    if rq.get('vroot') is not None:
        try:
            vt = split_path(bytes(rq['vroot']).decode('utf-8'))
        except UnicodeDecodeError:
            return result(render(['b', 'UnicodeDecodeError'], md, attrs['comb']))
        segs = vt + segs
    node, pos, k = root['tree'], [], 0
    view_name, subpath = '', sub0
    while k < len(segs):
        s = segs[k]
        kids = dict((n, sub) for n, sub in reversed(node.get('kids', [])))
        if s.startswith('@@'):
            view_name, subpath = s[2:], segs[k + 1:]
            break
        if s not in kids:
            view_name, subpath = s, segs[k + 1:]
            break
        node, pos, k = kids[s], pos + [s], k + 1
    attrs['trav'] = {'context': pos, 'view_name': view_name, 'subpath': subpath, 'traversed': segs[:k],
                     'virtual_root': vt if k >= len(vt) else [], 'virtual_root_path': vt}
    hooks.append(['ContextFound', copy.deepcopy(attrs)])
    # 3. view lookup + permission
    res = w.roots[ri]
    lineage = [res]
    for s in pos:
        res = dict.__getitem__(res, s)
        lineage.insert(0, res)
    cinfo['lineage'], cinfo['phys'] = lineage, [''] + pos
    csro = (snap or {}).get(json.dumps(res._vf_key)) or [spec_id(w, s) for s in providedBy(res).__sro__]
    finals = []
    for r in lookup(False, attrs['rsro'], csro, view_name, md, ['res', ri, pos]):
        if r[0] == 'body':
            st = r[1]
            if st['body'][0] == 'respond':
                finals.append((['resp', 'view', st['tag']], None, None))
            else:
                finals += render(st['body'][1], md, attrs['comb'])
        elif r[0] == 'forbidden':
            finals += render(['b', 'HTTPForbidden'], md, attrs['comb'])
        elif r[0] == 'mismatch':
            finals += render(['b', 'PredicateMismatch'], md, attrs['comb'])
        else:
            finals += render(['b', 'HTTPNotFound'], md, attrs['comb'])
            if raw is None:
                # as built: `msg = request.path_info` raises KeyError when PATH_INFO is absent (F-X01b)
                finals += [(f, c, 'F-X01b') for f, c, _ in render(['b', 'KeyError'], md, attrs['comb'])]
    return result(finals)


FINDINGS = {
    'F-X01a': 'a protected exception view was refused: a new HTTPForbidden leaves the router (F-C14a = F-C05a through the composed model)',
    'F-X01b': 'PATH_INFO absent from the environ and no view found: KeyError (from `msg = request.path_info`) instead of HTTPNotFound',
}


def judge(w, case, obs, extra):
    """None, or a violation dict: the implementation's observation is not acceptable under the declarative reading"""
    exp = oracle(w, case, extra.get('sro_snap'))
    vr = case['req'].get('vroot') is not None

    def er(a):
        # under a virtual root `traversed` is C02's known finding F-C02a: not X01's to judge
        if vr and a.get('trav') is not None:
            a = dict(a, trav=dict(a['trav'], traversed=None))
        return a
    got_attrs = er({k: obs[k] for k in ('route', 'md', 'rsro', 'comb', 'root', 'trav')})
    want = er(dict(exp['attrs']))
    got_hooks = [[n, er(a)] for n, a in obs['hooks']]
    want_hooks = [[n, er(a)] for n, a in exp['hooks']]
    detail = None
    if got_attrs != want:
        bad = [k for k in want if want[k] != got_attrs[k]]
        detail = 'request attributes differ from the reading: %s' % ', '.join(bad)
    elif [h[0] for h in got_hooks] != [h[0] for h in want_hooks]:
        detail = 'order of NewRequest / BeforeTraversal / factory / ContextFound differs'
    elif got_hooks != want_hooks:
        bad = [n for (n, a), (_, b) in zip(got_hooks, want_hooks) if a != b]
        detail = 'attributes visible to the subscriber / factory at %s differ from the reading' % ', '.join(bad)
    elif [x for x in extra['seen'] if not x['excpath'] and x.get('reread') and extra['sro_snap'].get(x['reread'][0]) != x['reread'][1]]:
        detail = 'harness assertion: what the context provides changed between the last ContextFound subscriber and the view body'
    elif obs['seen'] is not None and obs['seen'] != [obs['caught'], obs['caught'], obs['caught'], None]:
        detail = 'the exception view did not see the caught exception as context / request.exception / exc_info'
    else:
        acc = [(f, c, fid) for f, c, fid in exp['finals'] if f == obs['final'] and c == obs['caught']]
        if not acc:
            detail = 'outcome not among the acceptable ones'
        elif all(fid in FINDINGS for _, _, fid in acc):
            fid = acc[0][2]
            return {'case': case, 'impl': obs, 'expected': {'attrs': want, 'finals': [[f, c] for f, c, x in exp['finals'] if x not in FINDINGS]},
                    'detail': FINDINGS[fid], 'finding': fid}
        # the body that answered saw what the tween over excview saw
        if detail is None and obs['final'][:2] == ['resp', 'view']:
            mine = [s for s in extra['seen'] if s['tag'] == obs['final'][2]]
            if not mine:
                detail = 'the answering body never ran'
            else:
                snap = mine[-1]['snap']
                names = [r['name'] for r in case['app']['routes']]
                sroute = None if snap['route'] is None else names.index(snap['route'])
                strav = None if snap['trav'] is None else {k: snap['trav'][k] for k in TRAV_KEYS}
                if sroute != want['route'] or er({'trav': strav})['trav'] != want['trav'] or snap['root'] != want['root']:
                    detail = 'the answering body saw other attributes than the reading says'
        if detail is None and obs['caught'] is not None and obs['final'][:2] == ['resp', 'view'] and obs['seen'] is None:
            detail = 'an exception view answered but no exception-view body was seen running'
    if detail is None:
        return None
    return {'case': case, 'impl': obs, 'expected': {'attrs': want, 'hooks': want_hooks,
                                                    'finals': [[f, c] for f, c, fid in exp['finals'] if fid not in FINDINGS]},
            'detail': detail}


# ------------------------------------------------------------------------------------------------------
# generator

def gen_classes(rng):
    n = rng.randint(2, 4)
    out = []
    for k in range(n):
        bases = []
        if k and rng.random() < 0.6:
            bases = sorted(rng.sample(range(k), 1 if (k < 2 or rng.random() < 0.7) else 2), reverse=True)
        out.append({'bases': bases, 'impl': ([rng.choice([1, 2])] if rng.random() < 0.3 else [])})
    # a class may not list a base together with that base's own base in an order C3 rejects: check by construction
    try:
        make_classes(out)
    except TypeError:
        for c in out:
            c['bases'] = c['bases'][:1]
    return out


def gen_tree(rng, nclasses, depth):
    nd = {'cls': rng.randrange(nclasses), 'kids': []}
    if rng.random() < 0.15:
        nd['provides'] = [rng.choice([1, 2])]
    if depth > 0:
        for name in rng.sample(NAMES, rng.randint(0, 2) if depth < 2 else rng.randint(1, 3)):
            nd['kids'].append([name, gen_tree(rng, nclasses, depth - 1)])
    return nd


XBASES = ['Exception', 'Exception', 'ValueError', 'KeyError', 'LookupError', 'HTTPNotFound', 'HTTPForbidden', 'HTTPBadRequest']
CTX_BUILTINS = ['Exception', 'ValueError', 'LookupError', 'HTTPException', 'HTTPClientError', 'HTTPNotFound', 'HTTPForbidden',
                'UnicodeDecodeError', 'URLDecodeError']
ROUTE_SHAPES = ['/r%d', '/r%d/{id}', '/r%d/*traverse', '/t%d/{traverse}', '/s%d/{a}*subpath', '/m%d/{mp}', '/{a}/{b}', '/*traverse',
                '/f%d/{traverse}*subpath', '/r%d/{id}/*traverse', 'p%d/{mp}/x']


def gen_xclasses(rng):
    out = []
    for k in range(rng.randint(1, 3)):
        if k and rng.random() < 0.4:
            bases = [['u', rng.randrange(k)]]
        else:
            bases = [['b', rng.choice(XBASES)]]
        out.append({'bases': bases})
    return out


def gen_ctx_opts(rng, nclasses, pinfo):
    """predicates that read the traversal result / the path (only for statements whose context is a resource)"""
    o = {}
    r = rng.random()
    if r < 0.10:
        o['containment'] = rng.choice([['c', rng.randrange(nclasses)], ['i', rng.choice([1, 2])]])
    elif r < 0.20:
        o['physical_path'] = rng.choice(['/', '/a', '/a/b', '/b', ['', 'a'], ['', 'x'], ['', 'a', 'b'], 'a/', '/c'])
    if pinfo and rng.random() < 0.25:
        o['path_info'] = rng.choice(['/r', '/a', '.*x$', '/t\\d/', '/$', '.*/v'])
    return o


def gen_opts(rng, rich):
    o, notted = {}, []
    if rng.random() < (0.6 if rich else 0.35):
        for name in rng.sample(['request_method', 'request_param', 'header', 'xhr', 'match_param', 'is_authenticated', 'custom'],
                               rng.randint(1, 2 if not rich else 3)):
            if name == 'request_method':
                o[name] = rng.choice(['GET', 'POST', ['GET', 'POST'], 'PUT'])
            elif name == 'request_param':
                o[name] = rng.choice(['a', 'a=1', 'b', ['a', 'b']])
            elif name == 'header':
                o[name] = rng.choice(['X-A', 'X-B'])
            elif name == 'xhr':
                o[name] = rng.random() < 0.6
            elif name == 'match_param':
                o[name] = rng.choice(['mp=foo', 'mp=bar', 'id=1', 'a=a'])
            elif name == 'is_authenticated':
                o[name] = rng.random() < 0.6
            else:
                o[name] = sorted(rng.sample(range(3), rng.randint(1, 2)))
            if name != 'custom' and rng.random() < 0.12:
                notted.append(name)
    return o, notted


def gen_app(rng, big=False):
    classes = gen_classes(rng)
    xclasses = gen_xclasses(rng)
    nroots = rng.choice([1, 2, 2, 3])
    roots = []
    for i in range(nroots):
        r = {'tree': gen_tree(rng, len(classes), rng.choice([1, 2, 2, 3]))}
        if i and rng.random() < 0.12:
            r['raises'] = rng.choice([['u', rng.randrange(len(xclasses))], ['b', 'ValueError'], ['b', 'HTTPBadRequest'], ['b', 'HTTPNotFound']])
        roots.append(r)
    routes = []
    for i in range(rng.choice([0, 1, 2, 2, 3, 3, 4])):
        shape = rng.choice(ROUTE_SHAPES)
        r = {'name': 'rt%d' % i, 'pattern': shape % i if '%d' in shape else shape, 'ugv': rng.random() < 0.4}
        if rng.random() < 0.45 and nroots > 1:
            r['factory'] = rng.randrange(nroots)
        if rng.random() < 0.25:
            r['pred'] = rng.randrange(4)
        routes.append(r)
    if routes and rng.random() < 0.3:        # the same pattern twice: only declaration order separates them
        j = rng.randrange(len(routes))
        routes.append(dict(routes[j], name='rt%d' % len(routes), ugv=not routes[j]['ugv'],
                           factory=(rng.randrange(nroots) if nroots > 1 else None)))
        routes[-1].pop('pred', None)
        if routes[-1]['factory'] is None:
            routes[-1].pop('factory')
    marks = []
    if rng.random() < 0.3:
        for _ in range(rng.randint(1, 3)):
            at = rng.choice(['new_request', 'root_factory', 'before_traversal', 'traversal', 'context_found', 'context_found', 'context_found'])
            ri = rng.randrange(nroots)
            target = ['pos', ri, rng.choice(tree_paths(roots[ri]['tree'], [], []))]
            if at == 'context_found' and rng.random() < 0.6:
                target = ['ctx']
            marks.append({'at': at, 'op': 'add' if rng.random() < 0.85 else 'remove', 'iface': rng.choice([3, 3, 3, 1, 2]), 'target': target})
    stmts, tag = [], 1
    pinfo = rng.random() < 0.3        # applications with path_info= predicates get no undecodable / missing PATH_INFO
    nviews = rng.randint(3, 8) if not big else rng.randint(8, 14)
    seen_keys = {}
    for _ in range(nviews):
        ctx = rng.choice([None, None, ['c', rng.randrange(len(classes))], ['c', rng.randrange(len(classes))], ['i', rng.choice([1, 2])]])
        if marks and rng.random() < 0.4:
            ctx = ['i', rng.choice([3, 3, 3, 1, 2])]          # marker views compete with class views
        if rng.random() < 0.06:
            ctx = rng.choice([['u', rng.randrange(len(xclasses))], ['b', rng.choice(CTX_BUILTINS)]])
        o, notted = gen_opts(rng, big)
        if not ref_is_exc(ctx):
            o.update(gen_ctx_opts(rng, len(classes), pinfo))
            for k in ('containment', 'physical_path', 'path_info'):
                if k in o and rng.random() < 0.1:
                    notted.append(k)
        st = {'kind': 'view', 'tag': tag, 'ctx': ctx, 'name': rng.choice(VIEW_NAMES), 'opts': o, 'not': notted,
              'perm': rng.choice([None, None, None, 'p1', 'p1', 'p2', 'npr']),
              'body': ['respond'] if rng.random() < 0.8 else ['raise', rng.choice([['u', rng.randrange(len(xclasses))], ['b', 'ValueError'],
                                                                                   ['b', 'HTTPBadRequest'], ['b', 'HTTPForbidden'], ['b', 'HTTPNotFound']])]}
        if routes and rng.random() < 0.45:
            st['route'] = rng.choice(routes)['name']
        if ref_is_exc(ctx) and rng.random() < 0.5:
            st['xonly'] = True
        key = json.dumps([st.get('route'), st['ctx'], st['name'], pred_key(st)])
        if key in seen_keys and seen_keys[key] != (st['perm'] in ('p1', 'p2')):
            st['perm'] = 'p1' if seen_keys[key] else 'npr'
        seen_keys[key] = st['perm'] in ('p1', 'p2')
        stmts.append(st)
        tag += 1
    for _ in range(rng.choice([0, 1, 1, 2, 3])):
        kind = rng.choice(['exc', 'exc', 'notfound', 'forbidden'])
        o, notted = gen_opts(rng, False)
        st = {'kind': kind, 'tag': tag, 'ctx': None, 'name': '', 'opts': o, 'not': notted,
              'body': ['respond'] if rng.random() < 0.85 else ['raise', rng.choice([['b', 'ValueError'], ['b', 'HTTPNotFound'], ['u', rng.randrange(len(xclasses))]])]}
        if kind == 'exc':
            st['ctx'] = rng.choice([None, ['u', rng.randrange(len(xclasses))], ['b', rng.choice(CTX_BUILTINS)]])
        if routes and rng.random() < 0.3:
            st['route'] = rng.choice(routes)['name']
        stmts.append(st)
        tag += 1
    rng.shuffle(stmts)
    defperm = rng.random() < 0.2
    if defperm:
        # the default permission makes same-slot statements with and without `permission=` both protected: coherent
        pass
    return {'classes': classes, 'xclasses': xclasses, 'roots': roots, 'defroot': rng.randrange(nroots) if rng.random() < 0.3 else 0,
            'routes': routes, 'stmts': stmts, 'policy': rng.random() < 0.9, 'defperm': defperm, 'pinfo': pinfo, 'marks': marks}


def tree_paths(nd, pos, out):
    out.append(pos)
    for name, sub in nd.get('kids', []):
        tree_paths(sub, pos + [name], out)
    return out


def gen_tail(rng, app, ri):
    """segments that walk a tree of the application and then leave it"""
    paths = tree_paths(app['roots'][ri]['tree'], [], [])
    segs = list(rng.choice(paths))
    r = rng.random()
    if r < 0.35:
        segs.append(rng.choice(['x', 'v', '@@x', '@@', 'zz', '@@v']))
        if rng.random() < 0.4:
            segs += rng.sample(['s1', 's2', 'a'], rng.randint(1, 2))
    if rng.random() < 0.12 and segs:
        segs.insert(rng.randrange(len(segs) + 1), rng.choice(['.', '..', '']))
    return segs


def quote_seg(s):
    return s


def gen_request(rng, app):
    routes = app['routes']
    rq = {'method': rng.choice(METHODS)}
    r = rng.random()
    ri = app['defroot']
    if routes and r < 0.7:
        rt = rng.choice(routes)
        if rt.get('factory') is not None:
            ri = rt['factory']
        tail = gen_tail(rng, app, ri)
        pat = rt['pattern']
        star = re.search(r'\*(\w*)$', pat)
        if star:
            pat = pat[:star.start()]
        vals = {'id': rng.choice(['1', '2', 'zz']), 'mp': rng.choice(['foo', 'bar', 'zz']), 'a': rng.choice(['a', 'b', 'x']),
                'b': rng.choice(['a', 'x', 'v']), 'traverse': rng.choice(tail or ['a'])}
        path = re.sub(r'\{(\w+)\}', lambda m: vals[m.group(1)], pat)
        if star:
            path += '/'.join(tail) if star.group(1) == 'traverse' else '/'.join(rng.sample(['s1', 's2', '..', 'x'], rng.randint(0, 2)))
        if not path.startswith('/'):
            path = '/' + path
        if rng.random() < 0.1:
            path += rng.choice(['/', 'x', '/zz'])
    else:
        path = '/' + '/'.join(gen_tail(rng, app, ri))
        if rng.random() < 0.2:
            path += '/'
    raw = list(path.encode('utf-8'))
    x = rng.random()
    if app.get('pinfo'):
        x = 1.0
    if x < 0.03:
        raw = raw + [0xff]
    elif x < 0.05:
        raw = None
    elif x < 0.07:
        raw = []
    rq['path'] = raw
    if rng.random() < 0.12:
        # a virtual root: an existing resource, a missing one, the root, with a trailing slash / dot segments, not UTF-8
        vp = rng.choice(tree_paths(app['roots'][ri]['tree'], [], []))
        v = '/' + '/'.join(vp)
        y = rng.random()
        if y < 0.15:
            v += '/zz'
        elif y < 0.3:
            v += '/'
        elif y < 0.4:
            v += '/../' + (vp[-1] if vp else 'a')
        rq['vroot'] = list(v.encode('utf-8')) + ([0xff] if rng.random() < 0.06 else [])
    if rng.random() < 0.4:
        rq['qs'] = rng.choice(['a=1', 'a=2', 'b=1', 'a=1&b=2', 'c=3'])
    if rng.random() < 0.3:
        rq['headers'] = [[rng.choice(['X-A', 'X-B']), '1']]
    rq['xhr'] = rng.random() < 0.3
    rq['auth'] = rng.random() < 0.5
    rq['custom'] = sorted(rng.sample(range(3), rng.randint(0, 3)))
    rq['rp'] = sorted(rng.sample(range(4), rng.choice([4, 4, 3, 2, 0])))
    # the policy's table: every (resource, permission) and (exception class, permission) pair independently
    allowed = []
    p_allow = rng.choice([0.85, 0.5, 0.2])
    for i, root in enumerate(app['roots']):
        for pos in tree_paths(root['tree'], [], []):
            for p in ('p1', 'p2', 'dp'):
                if rng.random() < p_allow:
                    allowed.append([['res', i, pos], p])
    for k in range(len(app['xclasses'])):
        for p in ('p1', 'p2'):
            if rng.random() < p_allow:
                allowed.append([['exc', ['u', k]], p])
    for n in ('ValueError', 'HTTPNotFound', 'HTTPForbidden', 'HTTPBadRequest', 'PredicateMismatch', 'URLDecodeError'):
        for p in ('p1', 'p2'):
            if rng.random() < p_allow:
                allowed.append([['exc', ['b', n]], p])
    rq['allowed'] = allowed
    return rq


def gen_cases(rng, napps, nreq, big=False):
    for _ in range(napps):
        app = gen_app(rng, big)
        for _ in range(nreq):
            yield {'app': app, 'req': gen_request(rng, app)}


# ------------------------------------------------------------------------------------------------------
# running cases

def evaluate(case):
    w = get_world(case)
    obs, extra = observe(w, case)
    return w, obs, extra


def check_impl(case):
    """impl observation + oracle verdict (no model)"""
    w, obs, extra = evaluate(case)
    return w, obs, extra, judge(w, case, obs, extra)


def violates(case, finding=None):
    try:
        _, _, _, v = check_impl(case)
    except Exception:
        return False
    return v is not None and v.get('finding') == finding


def shrink_case(case, finding=None):
    def ok(c):
        return violates(c, finding)
    cur = case
    # structural shrinking that keeps references valid: drop statements, then routes nobody names, then table entries
    changed = True
    while changed:
        changed = False
        app = cur['app']
        for i in range(len(app.get('marks', []))):
            c = {'app': dict(app, marks=app['marks'][:i] + app['marks'][i + 1:]), 'req': cur['req']}
            if ok(c):
                cur, changed = c, True
                break
        if changed:
            continue
        for i in range(len(app['stmts'])):
            c = {'app': dict(app, stmts=app['stmts'][:i] + app['stmts'][i + 1:]), 'req': cur['req']}
            if ok(c):
                cur, changed = c, True
                break
        if changed:
            continue
        for i in range(len(app['routes']) - 1, -1, -1):
            name = app['routes'][i]['name']
            if any(st.get('route') == name for st in app['stmts']):
                continue
            c = {'app': dict(app, routes=app['routes'][:i] + app['routes'][i + 1:]), 'req': cur['req']}
            if ok(c):
                cur, changed = c, True
                break
    rq = cur['req']
    for k in ('qs', 'headers', 'xhr', 'auth', 'custom'):
        if rq.get(k):
            c = {'app': cur['app'], 'req': {kk: vv for kk, vv in rq.items() if kk != k}}
            if ok(c):
                cur, rq = c, c['req']
    al = list(rq.get('allowed', []))
    i = 0
    while i < len(al) and len(al) < 200:
        c = {'app': cur['app'], 'req': dict(rq, allowed=al[:i] + al[i + 1:])}
        if ok(c):
            al = al[:i] + al[i + 1:]
            cur, rq = c, c['req']
        else:
            i += 1
    return cur


def stage_stats(case, obs, extra):
    app = case['app']
    t = obs['trav']
    stages = {
        'route_matched': obs['route'] is not None,
        'traversal_worked': bool(t and (t['context'] or t['view_name'] or t['subpath'])),
        'views_competed': False,
        'permission_checked': bool(extra['permits']),
        'exception_caught': obs['caught'] is not None,
    }
    if t is not None:
        n = 0
        for st in app['stmts']:
            if st['kind'] == 'view' and st['name'] == t['view_name'] and not stmt_xonly(st):
                n += 1
        stages['views_competed'] = n >= 2
    return stages


def compare_model(w, case, obs, mo):
    """None when the model agrees, else a mismatch record"""
    if mo is None:
        return None
    if 'error' in mo:
        return {'case': case, 'impl': obs, 'model': mo}
    m = canon_model_out(w, mo['model'])
    if m != obs:
        return {'case': case, 'impl': obs, 'model': m, 'diff': [k for k in obs if obs[k] != m.get(k)]}
    return None


W_LEAK = {
    'app': {'classes': [{'bases': [], 'impl': []}], 'xclasses': [{'bases': [['b', 'Exception']]}],
            'roots': [{'tree': {'cls': 0, 'kids': []}}], 'defroot': 0, 'routes': [], 'policy': True, 'defperm': False,
            'stmts': [{'kind': 'view', 'tag': 1, 'ctx': None, 'name': '', 'opts': {}, 'not': [], 'perm': None, 'body': ['raise', ['u', 0]]},
                      {'kind': 'view', 'tag': 2, 'ctx': ['u', 0], 'name': '', 'opts': {}, 'not': [], 'perm': 'p1', 'xonly': True,
                       'body': ['respond']}]},
    'req': {'method': 'GET', 'path': [47], 'allowed': []}}


def run(ctx):
    rng = ctx.rng
    napps = ctx.n(600, 4000)
    nreq = ctx.n(8, 10)
    cases = [c for _, c in ctx.corpus()]
    cases += list(gen_cases(rng, napps, nreq))
    cases += list(gen_cases(rng, ctx.n(20, 200), nreq, big=True))
    results = []
    for case in cases:
        if ctx.time_left() < 90:
            break
        try:
            w, obs, extra, v = check_impl(case)
            minfo = model_input(w, case, extra['sro_snap']) if ctx.driver_path else None
            results.append((w, obs, extra, v, minfo))
        except Exception as e:
            results.append((None, ['harness-error', '%s: %s' % (type(e).__name__, e)], None,
                            {'case': case, 'impl': 'harness error %s: %s' % (type(e).__name__, e), 'expected': 'no error',
                             'detail': 'the harness could not run this case'}, None))
    cases = cases[:len(results)]
    idx = [i for i, r in enumerate(results) if r[4] is not None]
    model = [None] * len(results)
    if ctx.driver_path and idx:
        outs = ctx.run_model([results[i][4] for i in idx])
        for i, mo in zip(idx, outs):
            model[i] = mo
    mism, viol, agree = [], [], 0
    seen, nontriv = set(), set()
    dist = {'final': {}, 'caught': {}, 'routes': {}, 'route_matched': 0, 'route_with_factory': 0, 'ugv_route_matched': 0,
            'md_keys': {}, 'context_depth': {}, 'view_name': {}, 'subpath_len': {}, 'stages_working': {}, 'hooks_len': {},
            'permits_asked': 0, 'refused_403': 0, 'undecodable': 0, 'spec_vs_model_disagree': 0, 'incoherent': 0, 'not_wf': 0,
            'finding_hits': {}, 'stmts': {}, 'vroot_requests': 0, 'vroot_traversed_differs_from_reading': 0, 'vroot_undecodable': 0,
            'traversal_predicates_in_app': {}, 'exception_view_seen_checked': 0,
            'marked_cases': 0, 'marks_at': {}, 'context_provides_runtime_marker': 0, 'marker_view_answered': 0}
    samples = []
    for case, (w, obs, extra, v, minfo), mo in zip(cases, results, model):
        key = vfutil.canon(case)
        seen.add(key)
        if w is None:
            viol.append(v)
            continue
        m = compare_model(w, case, obs, mo)
        if m:
            mism.append(m)
        elif mo is not None:
            agree += 1
        if mo is not None and 'error' not in mo:
            if not mo.get('coherent', True):
                dist['incoherent'] += 1
            if not mo.get('wf', True):
                dist['not_wf'] += 1
            vr = case['req'].get('vroot') is not None
            if mo['model_erased' if vr else 'model'] != mo['spec_erased' if vr else 'spec'] and mo.get('coherent', True) and mo.get('wf', True):
                dist['spec_vs_model_disagree'] += 1
                mism.append({'case': case, 'impl': obs, 'model': canon_model_out(w, mo['model']), 'spec': canon_model_out(w, mo['spec']),
                             'diff': ['model != spec (up to traversed under a virtual root) although coherent and well-formed: handle_eq_spec would be false']})
        if v:
            viol.append(v)
            if v.get('finding'):
                vfutil.bump(dist['finding_hits'], v['finding'])
        if case['req'].get('vroot') is not None:
            dist['vroot_requests'] += 1
            if mo is not None and 'error' not in mo and mo['model'] != mo['spec']:
                dist['vroot_traversed_differs_from_reading'] += 1       # C02's F-C02a leaking through (known, partial theorem)
            if obs['caught'] == BUILTIN_IDS['UnicodeDecodeError']:
                dist['vroot_undecodable'] += 1
        for stx in case['app']['stmts']:
            for k in ('containment', 'physical_path', 'path_info', 'match_param'):
                if k in stx.get('opts', {}):
                    vfutil.bump(dist['traversal_predicates_in_app'], k)
        if obs['seen'] is not None:
            dist['exception_view_seen_checked'] += 1
        if case['app'].get('marks'):
            dist['marked_cases'] += 1
            for mk in case['app']['marks']:
                vfutil.bump(dist['marks_at'], mk['at'])
            if obs['trav'] is not None and obs['root'] is not None:
                ckey = json.dumps(['res', obs['root'], obs['trav']['context']])
                now = extra['sro_snap'].get(ckey)
                node0 = [(n, init) for n, init in w.initial if json.dumps(n._vf_key) == ckey]
                if now is not None and node0:
                    init = node0[0][1]
                    if any(i in now and IFACES[i] not in init and not IFACES[i].implementedBy(type(node0[0][0])) for i in (1, 2, 3)):
                        dist['context_provides_runtime_marker'] += 1
            if obs['final'][:2] == ['resp', 'view']:
                stv = [x for x in case['app']['stmts'] if x['tag'] == obs['final'][2]]
                if stv and stv[0].get('ctx') and stv[0]['ctx'][0] == 'i':
                    dist['marker_view_answered'] += 1
        st = stage_stats(case, obs, extra)
        nwork = sum(1 for x in st.values() if x)
        vfutil.bump(dist['stages_working'], nwork)
        if nwork >= 2:
            nontriv.add(key)
        vfutil.bump(dist['final'], '/'.join(str(x) for x in obs['final'][:2]))
        vfutil.bump(dist['caught'], str(obs['caught']))
        vfutil.bump(dist['routes'], len(case['app']['routes']))
        vfutil.bump(dist['stmts'], len(case['app']['stmts']))
        vfutil.bump(dist['hooks_len'], len(obs['hooks']))
        if obs['route'] is not None:
            dist['route_matched'] += 1
            r = case['app']['routes'][obs['route']]
            if r.get('factory') is not None:
                dist['route_with_factory'] += 1
            if r.get('ugv'):
                dist['ugv_route_matched'] += 1
            for e in obs['md'] or []:
                vfutil.bump(dist['md_keys'], e[0] + ':' + e[1])
        if obs['trav'] is not None:
            vfutil.bump(dist['context_depth'], len(obs['trav']['context']))
            vfutil.bump(dist['view_name'], obs['trav']['view_name'] or "''")
            vfutil.bump(dist['subpath_len'], len(obs['trav']['subpath']))
        if extra['permits']:
            dist['permits_asked'] += 1
        if obs['caught'] == BUILTIN_IDS['HTTPForbidden']:
            dist['refused_403'] += 1
        if obs['caught'] == BUILTIN_IDS['URLDecodeError']:
            dist['undecodable'] += 1
        if len(samples) < 8 and nwork >= 3:
            samples.append({'case': case, 'impl': obs})
    # shrink what is reported
    out_viol = []
    shrunk = set()
    for v in viol:
        fid = v.get('finding')
        if fid in shrunk or len(out_viol) >= 6:
            if fid:
                continue
        if isinstance(v.get('case'), dict) and 'app' in v['case'] and ctx.time_left() > 120 and (fid not in shrunk):
            try:
                small = shrink_case(v['case'], fid)
                w, obs, extra, v2 = check_impl(small)
                if v2 is not None and v2.get('finding') == fid:
                    v = v2
            except Exception:
                pass
        shrunk.add(fid)
        out_viol.append(v)
        if len([x for x in out_viol if not x.get('finding')]) >= 3:
            break
    return {
        'evaluations': len(results), 'distinct_nontrivial': len(nontriv), 'rule': RULE, 'samples': samples, 'agreeing': agree,
        'mismatches': mism[:20], 'violations': out_viol, 'distribution': dist,
        'notes': ['%d distinct cases, %d with >= 2 working stages' % (len(seen), len(nontriv))],
        'assumptions': ['zope.interface resolution orders (providedBy(x).__sro__) are data', 'WebOb parses the query string / headers',
                        "Python's re implements the default placeholder regex [^/]+ and the lazy remainder (C01's trusted base)"],
        'trusted_base': ['zope.interface adapter registry and C3 resolution orders', 'WebOb request parsing', "Python's re for route patterns",
                         'the harness policy (a decision table keyed by resource position / exception class)'],
    }


def search(ctx):
    """implementation-only: the declarative reading (Python oracle) on a larger random stream and on a small systematic
    family (every path of <= 3 segments over a 5-symbol alphabet against 6 fixed applications)"""
    rng = ctx.rng
    viol, searched = [], 0
    cases = [c for _, c in ctx.corpus()]
    fixed_rng = __import__('random').Random(12345)
    fixed_apps = [gen_app(fixed_rng) for _ in range(6)]
    alphabet = ['a', 'b', 'x', '@@x', 'r0', 't0', 'foo']
    import itertools
    for app in fixed_apps:
        for n in range(0, 4):
            for segs in itertools.product(alphabet, repeat=n):
                rq = gen_request(fixed_rng, app)
                rq['path'] = list(('/' + '/'.join(segs)).encode())
                cases.append({'app': app, 'req': rq})
    cases += list(gen_cases(rng, ctx.n(600, 2500), 8))
    for case in cases:
        if ctx.time_left() < 60 or len([v for v in viol if not v.get('finding')]) >= 3:
            break
        searched += 1
        try:
            _, _, _, v = check_impl(case)
        except Exception as e:
            v = {'case': case, 'impl': 'harness error %s: %s' % (type(e).__name__, e), 'expected': 'no error',
                 'detail': 'the application could not be built or run'}
        if v is not None and not v.get('finding'):
            try:
                small = shrink_case(case, None)
                _, _, _, v2 = check_impl(small)
                if v2 is not None and not v2.get('finding'):
                    v = v2
            except Exception:
                pass
            viol.append(v)
    return {'violations': viol, 'searched': searched, 'exhaustive': False}


def replay(ctx, rep):
    case = rep['case']
    w, obs, extra, v = check_impl(case)
    out = {'case': case, 'impl': obs, 'oracle': oracle(w, case)['finals'], 'violation': v,
           'violates': v is not None and not v.get('finding'), 'finding': (v or {}).get('finding')}
    if ctx.driver_path:
        mo = ctx.run_model([model_input(w, case, extra['sro_snap'])])[0]
        out['model'] = canon_model_out(w, mo.get('model')) if 'error' not in mo else mo
        out['spec'] = canon_model_out(w, mo.get('spec')) if 'error' not in mo else None
        out['model_agrees'] = out['model'] == obs
    return out
