"""Witnesses of the defects of DESIGN.md §4 that are repaired by `fix:` commits.
Run: /venv/bin/python /verif/notes/witnesses.py   -> prints `<id> OK|DEFECT <detail>` per witness.
A witness prints OK when the real code behaves as the property demands."""
import sys, traceback

def w_C01a():
    from pyramid.urldispatch import _compile_route
    m, g = _compile_route('/foo')
    assert m('/foo\n') is None, m('/foo\n')
    m, g = _compile_route('/a/*rest')
    r = m('/a/b\n')
    assert r is None or r['rest'] == ('b\n',), r

def w_C04a():
    from pyramid.config.actions import ActionState
    st = ActionState()
    log = []
    def adder():
        st.action(None, lambda: log.append('late'), order=0, includepath=())
    # two actions for discriminator 'd': the shallower one wins, the deeper is overridden
    st.action('d', lambda: log.append('win'), order=0, includepath=())
    st.action('d', lambda: log.append('lose'), order=0, includepath=('x',))
    st.action(None, adder, order=0, includepath=())
    st.action(None, lambda: log.append('p10'), order=10, includepath=())
    st.action('e', lambda: log.append('e-win'), order=10, includepath=())
    st.action('e', lambda: log.append('e-lose'), order=10, includepath=('y',))
    st.action(None, adder2 := (lambda: st.action(None, lambda: log.append('late10'), order=10, includepath=())), order=10, includepath=())
    st.execute_actions()
    assert 'lose' not in log and 'e-lose' not in log, log

def w_C07a():
    from pyramid import testing
    from pyramid.traversal import ResourceURL
    class R(dict):
        pass
    root = R(); root.__name__ = ''; root.__parent__ = None
    one2 = R(); one2.__name__ = 'one2'; one2.__parent__ = root
    x = R(); x.__name__ = 'x'; x.__parent__ = one2
    req = testing.DummyRequest(environ={'HTTP_X_VHM_ROOT': '/one'})
    u = ResourceURL(x, req)
    assert u.virtual_path == '/one2/x/', u.virtual_path

def w_C09a():
    from pyramid.authentication import AuthTktCookieHelper
    from pyramid import testing
    h = AuthTktCookieHelper('secret')
    req = testing.DummyRequest()
    req.cookies = {'auth_tkt': '\xe9' * 128 + '00000000' + 'u!'}
    req.environ['REMOTE_ADDR'] = '1.2.3.4'
    assert h.identify(req) is None

def w_C12a():
    from pyramid.csrf import check_csrf_origin
    from pyramid import testing
    cfg = testing.setUp()
    try:
        trusted = ['good.example']
        def mk(host, origin):
            r = testing.DummyRequest()
            r.scheme = 'https'; r.host_port = '8443'; r.domain = host; r.host = host + ':8443'
            r.headers = {'Origin': origin}; r.referrer = None
            r.registry = cfg.registry
            return r
        before = list(trusted)
        check_csrf_origin(mk('evil.example', 'https://evil.example:8443'), trusted_origins=trusted, raises=False)
        assert trusted == before, trusted
    finally:
        testing.tearDown()

def w_C12b():
    from pyramid.csrf import CookieCSRFStoragePolicy
    from pyramid import testing
    p = CookieCSRFStoragePolicy()
    r = testing.DummyRequest()
    r.cookies = {'csrf_token': 'abc'}
    assert p.check_csrf_token(r, '€') is False

def w_C12c():
    from pyramid.csrf import check_csrf_origin
    from pyramid import testing
    cfg = testing.setUp()
    try:
        r = testing.DummyRequest()
        r.scheme = 'https'; r.host_port = '443'; r.domain = 'a.example'; r.host = 'a.example'
        r.headers = {'Origin': 'https://['}; r.referrer = None
        r.registry = cfg.registry
        assert check_csrf_origin(r, raises=False) is False
    finally:
        testing.tearDown()

def w_C13a():
    from pyramid.config import Configurator
    from pyramid.threadlocal import manager
    from pyramid import scripting
    def bad_root(request):
        raise RuntimeError('boom')
    c = Configurator(root_factory=bad_root)
    c.commit()
    d0 = len(manager.stack)
    try:
        scripting.prepare(registry=c.registry)
    except RuntimeError:
        pass
    d1 = len(manager.stack)
    while len(manager.stack) > d0:
        manager.pop()
    app = c.make_wsgi_app()
    d0 = len(manager.stack)
    try:
        scripting.get_root(app)
    except RuntimeError:
        pass
    d2 = len(manager.stack)
    while len(manager.stack) > d0:
        manager.pop()
    # request extension (set_property) that raises
    c2 = Configurator()
    def ext(request):
        raise RuntimeError('ext')
    c2.add_request_method(ext, 'boom', property=True)
    c2.commit()
    assert d1 == d0 and d2 == d0, (d0, d1, d2)

def w_C17a():
    from pyramid.config import Configurator
    from pyramid.request import Request
    c = Configurator()
    c.add_route('s', '/s')
    c.commit()
    r = Request.blank('/x', environ={'SCRIPT_NAME': '/scr ipt'})
    r.registry = c.registry
    p = r.route_path('s'); u = r.route_url('s')
    assert u.endswith(p) and ' ' not in p, (p, u)

def w_C18a():
    from pyramid.util import TopologicalSorter
    from pyramid.exceptions import ConfigurationError
    ts = TopologicalSorter()
    ts.add('x', 'x', before='missing')
    ts.add('y', 'y', after='x')
    try:
        r = ts.sorted()
    except ConfigurationError:
        return
    raise AssertionError('sorted silently: %r' % (r,))

def w_C19a():
    from pyramid.httpexceptions import HTTPNotFound
    e = HTTPNotFound('x')
    environ = {'HTTP_ACCEPT': 'text/plain, text/html;q=0.5', 'REQUEST_METHOD': 'GET'}
    e.prepare(environ)
    assert e.content_type == 'text/plain', e.content_type

def w_C20a():
    from pyramid.config import Configurator
    c = Configurator()
    c.set_default_csrf_options(check_origin=True, allow_no_origin=False)
    c.commit()
    i = c.introspector.get('default csrf view options', None)
    assert i['check_origin'] is True and i['allow_no_origin'] is False, dict(i)

def w_C20b():
    from pyramid.config import Configurator
    import types, sys
    mod = types.ModuleType('verif_w_c20b')
    def includeme(config):
        config.add_route('r', '/r')
    mod.includeme = includeme
    mod.__file__ = '/nonexistent/verif_w_c20b.py'
    sys.modules['verif_w_c20b'] = mod
    c = Configurator(introspection=False)
    c.include('verif_w_c20b')
    c.commit()
    assert c.introspector.get_category('routes') in (None, []), c.introspector.get_category('routes')

if __name__ == '__main__':
    only = sys.argv[1:]
    bad = 0
    for name, fn in sorted(globals().items()):
        if name.startswith('w_') and callable(fn) and (not only or name[2:] in only):
            try:
                fn()
                print(name[2:], 'OK')
            except AssertionError as e:
                bad += 1
                print(name[2:], 'DEFECT', e)
            except Exception as e:
                bad += 1
                print(name[2:], 'DEFECT raised', type(e).__name__, e)
    sys.exit(1 if bad else 0)
