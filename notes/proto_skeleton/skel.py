import ast, sys
SRC='/repo/src/pyramid/'
PUSH={'manager.push','self.manager.push'}
POP={'manager.pop','self.manager.pop'}
KNOWN={'self.begin':'Configurator.begin','self.end':'Configurator.end','ctx.begin':'RequestContext.begin','ctx.end':'RequestContext.end',
 'self.finish_request':'Router.finish_request','self.invoke_request':'Router.invoke_request','router.invoke_request':'Router.invoke_request',
 'request.invoke_exception_view':'invoke_exception_view','_error_handler':'_error_handler'}
CMS={'RequestContext':'RequestContext','router.request_context':'Router.request_context','self.route_prefix_context':'route_prefix_context','hide_attrs':'hide_attrs'}
def name(n):
    if isinstance(n, ast.Attribute): return name(n.value)+'.'+n.attr
    if isinstance(n, ast.Name): return n.id
    if isinstance(n, ast.Call): return name(n.func)
    return '?'
site=[0]
def calls_in(expr):
    out=[]
    for n in ast.walk(expr):
        if isinstance(n, ast.Call):
            nm=name(n.func)
            if nm in PUSH: out.append('push')
            elif nm in POP: out.append('pop')
            elif nm in KNOWN: out.append('callKnown %s'%KNOWN[nm])
            else:
                site[0]+=1; out.append('call %d{%s}'%(site[0],nm))
    return out[::-1] if False else out
def seq(xs):
    xs=[x for x in xs if x!='skip']
    if not xs: return 'skip'
    return xs[0] if len(xs)==1 else '(seq '+' '.join(xs)+')'
def tr(stmts): return seq([t(s) for s in stmts])
def t(s):
    if isinstance(s,(ast.Expr,ast.Assign,ast.AugAssign,ast.AnnAssign,ast.Delete)):
        return seq(calls_in(s))
    if isinstance(s,ast.Return):
        return seq((calls_in(s.value) if s.value else [])+['ret'])
    if isinstance(s,ast.Raise):
        return seq((calls_in(s) )+['raise'])
    if isinstance(s,ast.If):
        return seq(calls_in(s.test)+['(ite %s %s)'%(tr(s.body),tr(s.orelse))])
    if isinstance(s,(ast.While,ast.For)):
        hdr=calls_in(s.test if isinstance(s,ast.While) else s.iter)
        return seq(hdr+['(loop %s)'%tr(s.body)])
    if isinstance(s,ast.Try):
        body=tr(s.body)
        if s.handlers:
            hs=' '.join('(handler {%s} %s)'%(name(h.type) if h.type else '*',tr(h.body)) for h in s.handlers)
            body='(tryExcept %s %s)'%(body,hs)
        if s.orelse: body=seq([body,tr(s.orelse)])
        if s.finalbody: body='(tryFinally %s %s)'%(body,tr(s.finalbody))
        return body
    if isinstance(s,ast.With):
        it=s.items[0].context_expr
        nm=name(it)
        pre=[c for a in (it.args if isinstance(it,ast.Call) else []) for c in calls_in(a)]
        cm=CMS.get(nm,'?'+nm)
        return seq(pre+['(withCM %s %s)'%(cm,tr(s.body))])
    if isinstance(s,(ast.FunctionDef,ast.ClassDef,ast.Import,ast.ImportFrom,ast.Pass,ast.Global,ast.Nonlocal)):
        return 'skip'
    if isinstance(s,ast.Assert): return seq(calls_in(s.test))
    return '?%s'%type(s).__name__
def find(tree,qual):
    parts=qual.split('.')
    node=tree
    for p in parts:
        for n in ast.iter_child_nodes(node):
            if isinstance(n,(ast.FunctionDef,ast.ClassDef)) and n.name==p:
                node=n;break
        else: raise KeyError(qual)
    return node
for f,q in [('scripting.py','prepare'),('scripting.py','get_root'),('router.py','Router.invoke_request'),('router.py','default_execution_policy'),('view.py','ViewMethodsMixin.invoke_exception_view'),('config/__init__.py','Configurator.include'),('config/routes.py','RoutesConfiguratorMixin.route_prefix_context'),('tweens.py','excview_tween_factory.excview_tween'),('config/actions.py','ActionConfiguratorMixin.commit')]:
    tree=ast.parse(open(SRC+f).read()); site[0]=0
    fn=find(tree,q)
    body=[s for s in fn.body if not (isinstance(s,ast.Expr) and isinstance(s.value,ast.Constant))]
    print(q,':=',tr(body)); print()
