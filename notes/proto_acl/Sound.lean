import Acl.Basic

theorem scan_append_some {pr : List Nat} {perm : Nat} {pre rest : Acl} {d : Bool}
    (h : scanAcl pr perm pre = some d) : scanAcl pr perm (pre ++ rest) = some d := by
  induction pre with
  | nil => simp [scanAcl] at h
  | cons a t ih =>
    simp only [List.cons_append, scanAcl] at h ⊢
    split
    · rename_i c; rw [if_pos c] at h; simpa using h
    · rename_i c; rw [if_neg c] at h; exact ih h

theorem scan_append_none {pr : List Nat} {perm : Nat} {pre rest : Acl}
    (h : scanAcl pr perm pre = none) : scanAcl pr perm (pre ++ rest) = scanAcl pr perm rest := by
  induction pre with
  | nil => simp
  | cons a t ih =>
    simp only [List.cons_append, scanAcl] at h ⊢
    split
    · rename_i c; rw [if_pos c] at h; simpa using h
    · rename_i c; rw [if_neg c] at h; exact ih h

theorem scan_snoc (pr : List Nat) (perm : Nat) (pre : Acl) (a : Ace) :
    scanAcl pr perm (pre ++ [a]) =
      match scanAcl pr perm pre with
      | some d => some d
      | none => if pr.contains a.who && a.perms.has perm then some a.allow else none := by
  cases h : scanAcl pr perm pre with
  | some d => simp [scan_append_some h]
  | none => simp [scan_append_none h, scanAcl]

/-- accumulator invariant for one ACL, relative to the already-processed prefix `pre` -/
structure AccInv (perm : Nat) (pre : Acl) (allowed here denied : List Nat) : Prop where
  here_ok : ∀ p ∈ here, scanAcl [p, everyone] perm pre = some true
  allowed_ok : ∀ p ∈ allowed, scanAcl [p, everyone] perm pre ≠ some false
  denied_ok : ∀ p, p ∉ denied → scanAcl [p, everyone] perm pre ≠ some false

theorem stepAcl_sound (perm : Nat) (rest : Acl) : ∀ (pre : Acl) (allowed here denied : List Nat),
    AccInv perm pre allowed here denied →
    (∀ p ∈ (stepAcl perm rest allowed here denied).2,
        scanAcl [p, everyone] perm (pre ++ rest) = some true) ∧
    (∀ p ∈ (stepAcl perm rest allowed here denied).1,
        p ∈ allowed ∧ scanAcl [p, everyone] perm (pre ++ rest) ≠ some false) := by
  induction rest with
  | nil =>
    intro pre allowed here denied inv
    simp only [stepAcl, List.append_nil]
    exact ⟨inv.here_ok, fun p hp => ⟨hp, inv.allowed_ok p hp⟩⟩
  | cons a rest ih =>
    intro pre allowed here denied inv
    have assoc : pre ++ a :: rest = (pre ++ [a]) ++ rest := by simp
    rw [assoc]
    unfold stepAcl
    by_cases hp : a.perms.has perm = true
    · simp only [hp, if_true]
      by_cases ha : a.allow = true
      · simp only [ha, if_true]
        by_cases hd : denied.contains a.who = true
        · simp only [hd, if_true]
          apply ih
          constructor
          · intro p h; rw [scan_snoc]; simp [inv.here_ok p h]
          · intro p h; rw [scan_snoc]
            have := inv.allowed_ok p h
            cases hs : scanAcl [p, everyone] perm pre <;> simp_all
          · intro p h; rw [scan_snoc]
            have := inv.denied_ok p h
            cases hs : scanAcl [p, everyone] perm pre <;> simp_all
        · simp only [hd]
          have r := ih (pre ++ [a]) allowed (a.who :: here) denied (by
            constructor
            · intro p h; rw [scan_snoc]
              simp at h
              rcases h with rfl | h
              · have := inv.denied_ok a.who (by simpa using hd)
                cases hs : scanAcl [a.who, everyone] perm pre <;> simp_all
              · simp [inv.here_ok p h]
            · intro p h; rw [scan_snoc]
              have := inv.allowed_ok p h
              cases hs : scanAcl [p, everyone] perm pre <;> simp_all
            · intro p h; rw [scan_snoc]
              have := inv.denied_ok p h
              cases hs : scanAcl [p, everyone] perm pre <;> simp_all)
          simpa using r
      · simp only [ha]
        by_cases he : (a.who == everyone) = true
        · simp only [he, if_true]
          refine ⟨?_, by simp⟩
          intro p h
          exact scan_append_some (by rw [scan_snoc]; simp [inv.here_ok p h])
        · simp only [he]
          have r := ih (pre ++ [a]) (allowed.filter (· != a.who)) here (a.who :: denied) (by
            constructor
            · intro p h; rw [scan_snoc]; simp [inv.here_ok p h]
            · intro p h; rw [scan_snoc]
              simp at h
              have := inv.allowed_ok p h.1
              cases hs : scanAcl [p, everyone] perm pre <;> simp_all
              all_goals grind
            · intro p h; rw [scan_snoc]
              simp at h
              have := inv.denied_ok p h.2
              cases hs : scanAcl [p, everyone] perm pre <;> simp_all
              all_goals grind)
          refine ⟨r.1, fun p hp => ?_⟩
          have := r.2 p hp
          simp only [List.mem_filter] at this
          exact ⟨this.1.1, this.2⟩
    · simp only [hp]
      apply ih
      constructor
      · intro p h; rw [scan_snoc]; simp [inv.here_ok p h]
      · intro p h; rw [scan_snoc]
        have := inv.allowed_ok p h
        cases hs : scanAcl [p, everyone] perm pre <;> simp_all
      · intro p h; rw [scan_snoc]
        have := inv.denied_ok p h
        cases hs : scanAcl [p, everyone] perm pre <;> simp_all

theorem allowedFrom_sound (perm : Nat) : ∀ (down : List (Option Acl)) (up : Lineage) (allowed : List Nat),
    (∀ p ∈ allowed, permits [p, everyone] perm up = true) →
    ∀ p ∈ allowedFrom perm down allowed, permits [p, everyone] perm (down.reverse ++ up) = true := by
  intro down
  induction down with
  | nil => intro up allowed h p hp; simpa [allowedFrom] using h p (by simpa [allowedFrom] using hp)
  | cons node down ih =>
    intro up allowed h p hp
    cases node with
    | none =>
      simp only [allowedFrom] at hp
      have := ih (none :: up) allowed (by intro q hq; simpa [permits] using h q hq) p hp
      simpa using this
    | some acl =>
      simp only [allowedFrom] at hp
      have st := stepAcl_sound perm acl [] allowed [] [] ⟨by simp, by simp [scanAcl], by simp [scanAcl]⟩
      have := ih (some acl :: up) ((stepAcl perm acl allowed [] []).1 ++ (stepAcl perm acl allowed [] []).2)
        (by
          intro q hq
          simp only [List.mem_append] at hq
          simp only [permits]
          rcases hq with hq | hq
          · have ⟨hin, hne⟩ := st.2 q hq
            simp only [List.nil_append] at hne
            cases hs : scanAcl [q, everyone] perm acl with
            | none => simpa using h q hin
            | some d => cases d <;> simp_all
          · have := st.1 q hq
            simp only [List.nil_append] at this
            simp [this]) p hp
      simpa using this

/-- C11: every principal reported as allowed is granted the permission when presented with Everyone. -/
theorem allowed_sound (perm : Nat) (l : Lineage) (p : Nat)
    (hp : p ∈ principalsAllowed perm l) : permits [p, everyone] perm l = true := by
  have := allowedFrom_sound perm l.reverse [] [] (by simp) p hp
  simpa using this

#print axioms allowed_sound
