inductive Perms where
  | one (p : Nat) | many (ps : List Nat) | all
deriving Repr, DecidableEq

def Perms.has : Perms → Nat → Bool
  | .one p, q => p == q
  | .many ps, q => ps.contains q
  | .all, _ => true

structure Ace where
  allow : Bool
  who : Nat
  perms : Perms
deriving Repr, DecidableEq

abbrev Acl := List Ace
/-- lineage, context first; `none` = no `__acl__` attribute -/
abbrev Lineage := List (Option Acl)

def everyone : Nat := 0

def scanAcl (princs : List Nat) (perm : Nat) : Acl → Option Bool
  | [] => none
  | a :: rest =>
    if princs.contains a.who && a.perms.has perm then some a.allow
    else scanAcl princs perm rest

def permits (princs : List Nat) (perm : Nat) : Lineage → Bool
  | [] => false
  | none :: up => permits princs perm up
  | some acl :: up =>
    match scanAcl princs perm acl with
    | some d => d
    | none => permits princs perm up

/-- one location of principals_allowed_by_permission; returns (allowed, allowedHere) after the loop -/
def stepAcl (perm : Nat) : Acl → List Nat → List Nat → List Nat → List Nat × List Nat
  | [], allowed, here, _ => (allowed, here)
  | a :: rest, allowed, here, denied =>
    if a.perms.has perm then
      if a.allow then
        if denied.contains a.who then stepAcl perm rest allowed here denied
        else stepAcl perm rest allowed (a.who :: here) denied
      else
        if a.who == everyone then ([], here)
        else stepAcl perm rest (allowed.filter (· != a.who)) here (a.who :: denied)
    else stepAcl perm rest allowed here denied

/-- root first -/
def allowedFrom (perm : Nat) : List (Option Acl) → List Nat → List Nat
  | [], allowed => allowed
  | none :: down, allowed => allowedFrom perm down allowed
  | some acl :: down, allowed =>
    let (al, here) := stepAcl perm acl allowed [] []
    allowedFrom perm down (al ++ here)

def principalsAllowed (perm : Nat) (l : Lineage) : List Nat := allowedFrom perm l.reverse []
