-- Root of the library; every module under PyramidModel/ is built through the lakefile glob.
import PyramidModel.Prelude
